---------------------------- MODULE ReadyTrace ----------------------------
(* Trace validation for C07: does a recorded history of concurrent calls of the real
   parsec_update_deps_with_counter / _with_mask on ONE dependency word satisfy the property
   "the task is handed to the scheduler exactly once, and only after all of its required inputs have been
   released" ?    Events (ndjson, in stamp order):
     {"e":"init","n":N,...}                 the task instance needs N inputs (numbered 1..N)
     {"e":"inv","t":T,"i":I}                thread T is about to call update_deps for input I
     {"e":"res","t":T,"i":I,"r":R}          the call returned R (1 = ready: the caller schedules the task)
     {"e":"end"}                            every thread has finished
     {"e":"Reset"}                          next execution
   A history is accepted iff it is linearizable with respect to Ready.tla, i.e. iff
     - a call answers 1 only when the release of every required input has at least begun, and no other call
       answered 1 before (the call answering 1 can then be linearized last, all the others before it);
     - when all N inputs were released, exactly one call answered 1 (otherwise nobody is last), when fewer
       were released none did.
   (For this abstract object these conditions are equivalent to the existence of a linearization, and they keep
   the validation deterministic: one successor state per event, also for 16 overlapping calls.) *)
EXTENDS Naturals, Sequences, FiniteSets, Json, IOUtils, TLC
CONSTANTS Thr
VARIABLES l, n, started, finished, pend, readyCount
tvars == <<l, n, started, finished, pend, readyCount>>

TraceLog == ndJsonDeserialize(IOEnv.TRACE)
Ev == TraceLog[l]
IsEv(e) == l <= Len(TraceLog) /\ Ev.e = e /\ l' = l + 1
Inputs == 1..n

TInit == l = 1 /\ n = 0 /\ started = {} /\ finished = {} /\ pend = [t \in Thr |-> 0] /\ readyCount = 0
Clear == started' = {} /\ finished' = {} /\ pend' = [t \in Thr |-> 0] /\ readyCount' = 0

TSetInit == /\ IsEv("init") /\ started = {} /\ Ev.n \in Nat /\ Ev.n > 0
            /\ n' = Ev.n /\ UNCHANGED <<started, finished, pend, readyCount>>
TReset == IsEv("Reset") /\ n' = 0 /\ Clear

\* an input is released at most once (contract of the callers; the harness respects it)
TInv == /\ IsEv("inv") /\ Ev.t \in Thr /\ pend[Ev.t] = 0
        /\ Ev.i \in Inputs \ started
        /\ started' = started \cup {Ev.i}
        /\ pend' = [pend EXCEPT ![Ev.t] = Ev.i]
        /\ UNCHANGED <<n, finished, readyCount>>

TRes == /\ IsEv("res") /\ Ev.t \in Thr /\ pend[Ev.t] # 0 /\ pend[Ev.t] = Ev.i
        /\ Ev.r \in {0, 1}
        /\ Ev.r = 1 => (started = Inputs /\ readyCount = 0)
        /\ readyCount' = readyCount + Ev.r
        /\ finished' = finished \cup {Ev.i}
        /\ pend' = [pend EXCEPT ![Ev.t] = 0]
        /\ UNCHANGED <<n, started>>

TEnd == /\ IsEv("end") /\ \A t \in Thr : pend[t] = 0
        /\ readyCount = (IF finished = Inputs THEN 1 ELSE 0)
        /\ UNCHANGED <<n, started, finished, pend, readyCount>>

TNext == TSetInit \/ TReset \/ TInv \/ TRes \/ TEnd
TSpec == TInit /\ [][TNext]_tvars

AcceptExit == (l > Len(TraceLog)) => (PrintT("VERIF-ACCEPTED") /\ TLCSet("exit", TRUE))
===========================================================================
