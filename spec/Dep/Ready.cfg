SPECIFICATION RSpec
CONSTANTS Inputs = {1,2,3,4,5}
INVARIANTS TypeOK ExactlyOnce
CHECK_DEADLOCK FALSE
