---------------------------- MODULE DepImpl ----------------------------
(* Implementation-shaped model of parsec/parsec.c : parsec_update_deps_with_counter and
   parsec_update_deps_with_mask (property C07), one action per segment of code between two yield points
   of the hooked build (every parsec_atomic_* operation, plus the K_READ hook in front of the plain read of
   *deps in both functions).

   counter:   if( 0 == *deps ) {                                   CtrReadDeps
                  new = parsec_check_IN_dependencies_with_counter() - 1;
                  if( cas(deps, 0, new) ) cur = new;               CtrCas
                  else cur = fetch_dec(deps) - 1;                  CtrDec
              } else cur = fetch_dec(deps) - 1;                    CtrDec
              return cur == 0;
   mask:      new = IN_DONE | (1 << dest_flow->flow_index);
              if( !(IN_DONE & *deps) )                             MaskReadInDone
                  new |= parsec_check_IN_dependencies_with_mask();
              cur = fetch_or(deps, new) | new;                     MaskFetchOr
              return (cur & goal) == goal;

   The task class is described by Flows (what ptgpp would generate), a sequence of [k |-> kind, g |-> n]:
     "T"  data flow fed by a task                       1 input
     "C"  data flow read from a data collection          0 inputs   (IN-from-collection)
     "Q1" data flow  cond ? task : collection, cond true 1 input
     "Q0" same, cond false                               0 inputs   (IN-from-collection)
     "K"  control flow, unconditional                    1 input
     "K1" control flow, guard true                       1 input
     "X"  control flow, guard false                      0 inputs
     "G"  control gather of g controls (counter only)    g inputs
   Thread t performs the releases Prog[t] = << [f |-> flow, i |-> input id], ... >> one after the other.

   FuseBegin = TRUE merges the purely local segment Begin into the following read (partial-order reduction used
   for the 4-thread schedules: the check re-inserts the Begin step right before the read when replaying).
   Mut # "none" seeds a defect in the model (sensitivity self-test of the invariants).

   released / readyCount are the abstract state of Ready.tla, updated at the linearization point (the
   successful CAS, the fetch_dec, the fetch_or).  Refinement of Ready = PROPERTY Refines (+ invariants). *)
EXTENDS Naturals, Integers, Sequences, FiniteSets, TLC
CONSTANTS Mode, Flows, Thr, Prog, Mut, FuseBegin
VARIABLES cnt, mask, pc, opi, loc, ret, released, readyCount
vars == <<cnt, mask, pc, opi, loc, ret, released, readyCount>>

FlowIx == 1..Len(Flows)
Need(f) == CASE Flows[f].k \in {"T", "Q1", "K", "K1"} -> 1
             [] Flows[f].k \in {"C", "Q0", "X"} -> 0
             [] Flows[f].k = "G" -> Flows[f].g
RECURSIVE SumNeed(_)
SumNeed(n) == IF n = 0 THEN 0 ELSE Need(n) + SumNeed(n - 1)
NInputs == SumNeed(Len(Flows))
AllInputs == 1..NInputs

\* flags ptgpp sets on the task class
HasInIn == \E f \in FlowIx : Flows[f].k \in {"C", "Q0", "Q1", "X", "K1"}     \* PARSEC_HAS_IN_IN_DEPENDENCIES
HasGather == \E f \in FlowIx : Flows[f].k = "G"                              \* PARSEC_HAS_CTL_GATHER
\* parsec_check_IN_dependencies_with_counter: tc->dependencies_goal (= number of flows with an input
\* dependency) when neither flag is set, else the per-instance count
CheckInCounter == IF ~HasInIn /\ ~HasGather THEN Len(Flows) ELSE NInputs
\* parsec_check_IN_dependencies_with_mask: bits of the flows that need no release
CheckInMask == IF Mut = "noin" \/ ~HasInIn THEN {} ELSE {f \in FlowIx : Flows[f].k \in {"C", "Q0", "X"}}
GoalMask == FlowIx                        \* tc->dependencies_goal in mask mode: every flow with an input dependency
INDONE == 0                               \* PARSEC_DEPENDENCIES_IN_DONE (flow f = bit f)

CurOp(t) == Prog[t][opi[t]]
HasOp(t) == opi[t] <= Len(Prog[t])

Init == /\ cnt = 0 /\ mask = {}
        /\ pc = [t \in Thr |-> "idle"]
        /\ opi = [t \in Thr |-> 1]
        /\ loc = [t \in Thr |-> FALSE]
        /\ ret = [t \in Thr |-> <<>>]
        /\ released = {} /\ readyCount = 0

\* the call returns `ready`; its effect on the abstract state happened at the RMW just executed
Finish(t, ready) == /\ ret' = [ret EXCEPT ![t] = Append(@, IF ready THEN 1 ELSE 0)]
                    /\ opi' = [opi EXCEPT ![t] = @ + 1]
                    /\ pc' = [pc EXCEPT ![t] = "idle"]
                    /\ released' = released \cup {CurOp(t).i}
                    /\ readyCount' = readyCount + (IF ready THEN 1 ELSE 0)

\* from the previous yield point (thread start / operation boundary) to the K_READ hook
Begin(t) == /\ pc[t] = "idle" /\ HasOp(t) /\ ~FuseBegin
            /\ pc' = [pc EXCEPT ![t] = "read"]
            /\ UNCHANGED <<cnt, mask, opi, loc, ret, released, readyCount>>

\* ---------------------------------------------------------------- counter mode
AtRead(t) == IF FuseBegin THEN pc[t] = "idle" /\ HasOp(t) ELSE pc[t] = "read"
CtrReadDeps(t) == /\ Mode = "counter" /\ AtRead(t)
                  /\ pc' = [pc EXCEPT ![t] = IF cnt = 0 THEN "cas" ELSE "dec"]
                  /\ UNCHANGED <<cnt, mask, opi, loc, ret, released, readyCount>>
NewValue == IF Mut = "goal" THEN CheckInCounter ELSE CheckInCounter - 1
CtrCas(t) == /\ Mode = "counter" /\ pc[t] = "cas"
             /\ IF cnt = 0 \/ Mut = "store"
                THEN /\ cnt' = NewValue
                     /\ Finish(t, NewValue = 0)
                     /\ UNCHANGED <<mask, loc>>
                ELSE /\ pc' = [pc EXCEPT ![t] = "dec"]
                     /\ UNCHANGED <<cnt, mask, opi, loc, ret, released, readyCount>>
CtrDec(t) == /\ Mode = "counter" /\ pc[t] = "dec"
             /\ cnt' = cnt - 1
             /\ Finish(t, cnt - 1 = 0)
             /\ UNCHANGED <<mask, loc>>

\* ---------------------------------------------------------------- mask mode
MaskReadInDone(t) == /\ Mode = "mask" /\ AtRead(t)
                     /\ loc' = [loc EXCEPT ![t] = INDONE \in mask]
                     /\ pc' = [pc EXCEPT ![t] = "or"]
                     /\ UNCHANGED <<cnt, mask, opi, ret, released, readyCount>>
MaskFetchOr(t) == /\ Mode = "mask" /\ pc[t] = "or"
                  /\ LET new == {INDONE, CurOp(t).f} \cup (IF loc[t] THEN {} ELSE CheckInMask)
                         cur == mask \cup new
                     IN /\ mask' = cur
                        /\ Finish(t, GoalMask \subseteq cur)
                  /\ UNCHANGED <<cnt, loc>>

Step(t) == \/ Begin(t) \/ CtrReadDeps(t) \/ CtrCas(t) \/ CtrDec(t) \/ MaskReadInDone(t) \/ MaskFetchOr(t)
Next == \E t \in Thr : Step(t)
Spec == Init /\ [][Next]_vars

\* ---------------------------------------------------------------- refinement of Ready
Abs == INSTANCE Ready WITH Inputs <- AllInputs
Refines == Abs!RSpec
ExactlyOnce == Abs!ExactlyOnce
TypeOK == Abs!TypeOK
NonNeg == cnt >= 0
\* the trace-level reading of the property (ReadyTrace.tla): a release answering "ready" has seen every
\* other required input at least begun
Begun == released \cup {CurOp(t).i : t \in {u \in Thr : pc[u] # "idle"}}
ReadyAfterAllBegun == readyCount > 0 => Begun = AllInputs
AllDone == \A t \in Thr : ~HasOp(t)
=========================================================================
