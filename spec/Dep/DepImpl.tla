---------------------------- MODULE DepImpl ----------------------------
(* Implementation-shaped model of parsec/parsec.c : parsec_update_deps_with_counter and
   parsec_update_deps_with_mask (property C07), one action per segment of code between two yield points
   of the hooked build (every parsec_atomic_* operation, plus the K_READ hook in front of the plain read of
   *deps in both functions).

   counter:   if( 0 == *deps ) {                                   CtrReadDeps
                  new = parsec_check_IN_dependencies_with_counter() - 1;
                  if( cas(deps, 0, new) ) cur = new;               CtrCas
                  else cur = fetch_dec(deps) - 1;                  CtrDec
              } else cur = fetch_dec(deps) - 1;                    CtrDec
              return cur == 0;
   mask:      new = IN_DONE | (1 << dest_flow->flow_index);
              if( !(IN_DONE & *deps) )                             MaskReadInDone
                  new |= parsec_check_IN_dependencies_with_mask();
              cur = fetch_or(deps, new) | new;                     MaskFetchOr
              return (cur & goal) == goal;

   The task class is described by Flows, what the JDF says about the input side of every flow (the same list the
   harness turns into parsec_flow_t / parsec_dep_t exactly as parsec-ptgpp does), a sequence of
       [ctl |-> BOOLEAN, deps |-> << [g |-> guard, src |-> source, n |-> gather count], ... >>]
   deps = the `<-` lines of the flow IN ORDER (ptgpp fills flow->dep_in[] in that order; `c ? x : y` = two
   entries with guards c and !c).
     guard   "-" absent (dep->cond == NULL)   "1" / "0" an expression that is true / false
             "p" / "z" an expression over the parameters of the instance: k > 0 / k = 0   (K = the instance)
     source  "t" a predecessor task     "c" a data collection     "n" NEW     "u" NULL
             (c, n, u: dep->task_class_id == PARSEC_LOCAL_DATA_TASK_CLASS_ID); control flows only have "t"
     n       > 0: control gather of n predecessors (dep->ctl_gather_nb), 0: none
   Meaning (JDF): a DATA flow takes its value from the FIRST dep whose guard holds: it is a required input of the
   instance iff that dep names a predecessor task (otherwise the data is there: IN-from-collection / NEW / NULL);
   a data flow without input dep = WRITE flow with `<- NEW` (only a type declaration, no input).
   A CONTROL flow expects one control per dep whose guard holds (n of them for a gather).
   Need(f) below is that meaning; CheckInMask / CheckInCounter are the two walks of flow->dep_in[] in
   parsec_check_IN_dependencies_with_mask / _with_counter (continue / break structure, flags tested); that they
   compute the same thing is part of what TLC checks (refinement).
   Legacy one-word kinds used by checks/C07.py:  T = D:-t   C = D:-c   Q1 = D:1t,0c   Q0 = D:0t,1c   K = K:-t
   K1 = K:1t   X = K:0t   G<n> = K:-t<n>   W = D: (no dep).
   Thread t performs the releases Prog[t] = << [f |-> flow, i |-> input id], ... >> one after the other.

   FuseBegin = TRUE merges the purely local segment Begin into the following read (partial-order reduction used
   for the 4-thread schedules: the check re-inserts the Begin step right before the read when replaying).
   Mut # "none" seeds a defect in the model (sensitivity self-test of the invariants): "goal" (CAS 0->goal),
   "store" (CAS replaced by a store), "noin" (no IN-from-collection bits), "scanon" (the scan of dep_in[] goes on
   after a selected task dep: a later collection dep whose guard holds pre-sets the bit).

   released / readyCount are the abstract state of Ready.tla, updated at the linearization point (the
   successful CAS, the fetch_dec, the fetch_or).  Refinement of Ready = PROPERTY Refines (+ invariants). *)
EXTENDS Naturals, Integers, Sequences, FiniteSets, TLC
CONSTANTS Mode, Flows, K, NeedExpected, Thr, Prog, Mut, FuseBegin
VARIABLES cnt, mask, pc, opi, loc, ret, released, readyCount
vars == <<cnt, mask, pc, opi, loc, ret, released, readyCount>>

FlowIx == 1..Len(Flows)
Deps(f) == Flows[f].deps
DepIx(f) == 1..Len(Deps(f))
Holds(g) == CASE g \in {"-", "1"} -> TRUE
              [] g = "0" -> FALSE
              [] g = "p" -> K > 0
              [] g = "z" -> K = 0
Cnt(d) == IF d.n = 0 THEN 1 ELSE d.n

\* ------------------------------------------------------------- what the JDF means (see above)
HoldingDeps(f) == {j \in DepIx(f) : Holds(Deps(f)[j].g)}
FirstHolding(f) == CHOOSE j \in HoldingDeps(f) : \A i \in HoldingDeps(f) : j <= i
RECURSIVE SumCnt(_, _)
SumCnt(f, j) == IF j = 0 THEN 0 ELSE (IF Holds(Deps(f)[j].g) THEN Cnt(Deps(f)[j]) ELSE 0) + SumCnt(f, j - 1)
Need(f) == IF Flows[f].ctl THEN SumCnt(f, Len(Deps(f)))
           ELSE IF HoldingDeps(f) # {} /\ Deps(f)[FirstHolding(f)].src = "t" THEN 1 ELSE 0
RECURSIVE SumNeed(_)
SumNeed(n) == IF n = 0 THEN 0 ELSE Need(n) + SumNeed(n - 1)
NInputs == SumNeed(Len(Flows))
AllInputs == 1..NInputs

\* well-formed scenarios: a data flow with input deps always has one whose guard holds ("it is assumed that in
\* the data case, one input will always become true", parsec.c); a mask cannot count: no gather, at most one
\* control per control flow; the check computed the same number of required inputs (it is the N of ReadyTrace)
ASSUME \A f \in FlowIx : ~Flows[f].ctl /\ Deps(f) # <<>> => HoldingDeps(f) # {}
ASSUME \A f \in FlowIx : Flows[f].ctl => Deps(f) # <<>> /\ \A j \in DepIx(f) : Deps(f)[j].src = "t"
ASSUME \A f \in FlowIx : ~Flows[f].ctl => \A j \in DepIx(f) : Deps(f)[j].n = 0
ASSUME Mode = "mask" => \A f \in FlowIx : Flows[f].ctl => Need(f) <= 1 /\ \A j \in DepIx(f) : Deps(f)[j].n = 0
ASSUME NInputs = NeedExpected
ASSUME \A t \in Thr : \A o \in 1..Len(Prog[t]) : Prog[t][o].f \in FlowIx /\ Need(Prog[t][o].f) > 0 /\ Prog[t][o].i \in AllInputs

\* ------------------------------------------------------------- what ptgpp generates (jdf2c.c, jdf_generate_one_function)
\* PARSEC_FLOW_HAS_IN_DEPS: data flow with a dep that does not name a task (or the WRITE <- NEW declaration);
\* control flow with a guarded dep
HasInDeps(f) == IF Flows[f].ctl THEN \E j \in DepIx(f) : Deps(f)[j].g # "-"
                ELSE Deps(f) = <<>> \/ \E j \in DepIx(f) : Deps(f)[j].src # "t"
HasInIn == \E f \in FlowIx : HasInDeps(f)                                    \* PARSEC_HAS_IN_IN_DEPENDENCIES
HasGather == \E f \in FlowIx : \E j \in DepIx(f) : Deps(f)[j].n > 0           \* PARSEC_HAS_CTL_GATHER
GoalMask == FlowIx                        \* tc->dependencies_goal, mask mode: every flow with an input dep (all of them)
GoalCount == Len(Flows)                   \* tc->dependencies_goal, counter mode: their number
INDONE == 0                               \* PARSEC_DEPENDENCIES_IN_DONE (flow f = bit f)

\* ------------------------------------------------------------- the walks of flow->dep_in[] in parsec.c
\* data flow, both functions:  for j: if( cond && !cond() ) continue;  <test task_class_id>;  break;
\* MaskData(f, j): `active` of the mask walk started at dep j: the bit is pre-set iff the FIRST dep whose guard
\* holds is not a task.  Mut = "scanon" is the walk with the break inside the `if( LOCAL_DATA == task_class_id )`.
RECURSIVE MaskData(_, _)
MaskData(f, j) == IF j > Len(Deps(f)) THEN FALSE
                  ELSE IF ~Holds(Deps(f)[j].g) THEN MaskData(f, j + 1)
                  ELSE IF Deps(f)[j].src # "t" THEN TRUE
                  ELSE IF Mut = "scanon" THEN MaskData(f, j + 1) ELSE FALSE
\* control flow, mask: active unless one dep has no cond or a true one
MaskCtl(f) == ~\E j \in DepIx(f) : Holds(Deps(f)[j].g)
MaskActive(f) == IF Flows[f].ctl THEN MaskCtl(f)
                 ELSE /\ HasInDeps(f)                                   \* if( !(flow_flags & HAS_IN_DEPS) ) continue;
                      /\ (Deps(f) = <<>> \/ MaskData(f, 1))             \* NULL == dep_in[0]: WRITE flow typed by <- NEW
\* parsec_check_IN_dependencies_with_mask: bits of the flows that need no release
CheckInMask == IF Mut = "noin" \/ ~HasInIn THEN {} ELSE {f \in FlowIx : MaskActive(f)}

\* counter walk, data flow: first dep whose guard holds: active++ iff it is a task; break
RECURSIVE CtrData(_, _)
CtrData(f, j) == IF j > Len(Deps(f)) THEN 0
                 ELSE IF ~Holds(Deps(f)[j].g) THEN CtrData(f, j + 1)
                 ELSE IF Deps(f)[j].src = "t" THEN 1 ELSE 0
\* counter walk, control flow: every dep without cond or with a true one counts (ctl_gather_nb if there is one)
CtrActive(f) == IF Flows[f].ctl THEN SumCnt(f, Len(Deps(f))) ELSE CtrData(f, 1)
RECURSIVE SumCtr(_)
SumCtr(n) == IF n = 0 THEN 0 ELSE CtrActive(n) + SumCtr(n - 1)
\* parsec_check_IN_dependencies_with_counter: tc->dependencies_goal when neither flag is set, else the
\* per-instance count
CheckInCounter == IF ~HasInIn /\ ~HasGather THEN GoalCount ELSE SumCtr(Len(Flows))

CurOp(t) == Prog[t][opi[t]]
HasOp(t) == opi[t] <= Len(Prog[t])

Init == /\ cnt = 0 /\ mask = {}
        /\ pc = [t \in Thr |-> "idle"]
        /\ opi = [t \in Thr |-> 1]
        /\ loc = [t \in Thr |-> FALSE]
        /\ ret = [t \in Thr |-> <<>>]
        /\ released = {} /\ readyCount = 0

\* the call returns `ready`; its effect on the abstract state happened at the RMW just executed
Finish(t, ready) == /\ ret' = [ret EXCEPT ![t] = Append(@, IF ready THEN 1 ELSE 0)]
                    /\ opi' = [opi EXCEPT ![t] = @ + 1]
                    /\ pc' = [pc EXCEPT ![t] = "idle"]
                    /\ released' = released \cup {CurOp(t).i}
                    /\ readyCount' = readyCount + (IF ready THEN 1 ELSE 0)

\* from the previous yield point (thread start / operation boundary) to the K_READ hook
Begin(t) == /\ pc[t] = "idle" /\ HasOp(t) /\ ~FuseBegin
            /\ pc' = [pc EXCEPT ![t] = "read"]
            /\ UNCHANGED <<cnt, mask, opi, loc, ret, released, readyCount>>

\* ---------------------------------------------------------------- counter mode
AtRead(t) == IF FuseBegin THEN pc[t] = "idle" /\ HasOp(t) ELSE pc[t] = "read"
CtrReadDeps(t) == /\ Mode = "counter" /\ AtRead(t)
                  /\ pc' = [pc EXCEPT ![t] = IF cnt = 0 THEN "cas" ELSE "dec"]
                  /\ UNCHANGED <<cnt, mask, opi, loc, ret, released, readyCount>>
NewValue == IF Mut = "goal" THEN CheckInCounter ELSE CheckInCounter - 1
CtrCas(t) == /\ Mode = "counter" /\ pc[t] = "cas"
             /\ IF cnt = 0 \/ Mut = "store"
                THEN /\ cnt' = NewValue
                     /\ Finish(t, NewValue = 0)
                     /\ UNCHANGED <<mask, loc>>
                ELSE /\ pc' = [pc EXCEPT ![t] = "dec"]
                     /\ UNCHANGED <<cnt, mask, opi, loc, ret, released, readyCount>>
CtrDec(t) == /\ Mode = "counter" /\ pc[t] = "dec"
             /\ cnt' = cnt - 1
             /\ Finish(t, cnt - 1 = 0)
             /\ UNCHANGED <<mask, loc>>

\* ---------------------------------------------------------------- mask mode
MaskReadInDone(t) == /\ Mode = "mask" /\ AtRead(t)
                     /\ loc' = [loc EXCEPT ![t] = INDONE \in mask]
                     /\ pc' = [pc EXCEPT ![t] = "or"]
                     /\ UNCHANGED <<cnt, mask, opi, ret, released, readyCount>>
MaskFetchOr(t) == /\ Mode = "mask" /\ pc[t] = "or"
                  /\ LET new == {INDONE, CurOp(t).f} \cup (IF loc[t] THEN {} ELSE CheckInMask)
                         cur == mask \cup new
                     IN /\ mask' = cur
                        /\ Finish(t, GoalMask \subseteq cur)
                  /\ UNCHANGED <<cnt, loc>>

Step(t) == \/ Begin(t) \/ CtrReadDeps(t) \/ CtrCas(t) \/ CtrDec(t) \/ MaskReadInDone(t) \/ MaskFetchOr(t)
Next == \E t \in Thr : Step(t)
Spec == Init /\ [][Next]_vars

\* ---------------------------------------------------------------- refinement of Ready
Abs == INSTANCE Ready WITH Inputs <- AllInputs
Refines == Abs!RSpec
ExactlyOnce == Abs!ExactlyOnce
TypeOK == Abs!TypeOK
NonNeg == cnt >= 0
\* the trace-level reading of the property (ReadyTrace.tla): a release answering "ready" has seen every
\* other required input at least begun
Begun == released \cup {CurOp(t).i : t \in {u \in Thr : pc[u] # "idle"}}
ReadyAfterAllBegun == readyCount > 0 => Begun = AllInputs
AllDone == \A t \in Thr : ~HasOp(t)
=========================================================================
