---------------------------- MODULE Ready ----------------------------
(* Abstract meaning of dependency tracking for ONE task instance (property C07).
   The task has a finite set of required inputs; every input is released at most once (by whatever
   predecessor, in whatever order).  Release(i) is atomic and answers "ready" iff i completes the set:
   the answer "ready" is what makes the caller hand the task to the scheduler. *)
EXTENDS Naturals, FiniteSets
CONSTANTS Inputs
VARIABLES released, readyCount
rvars == <<released, readyCount>>

RInit == released = {} /\ readyCount = 0
Completes(i) == (released \cup {i}) = Inputs             \* the value returned by Release(i)
Release(i) == /\ i \in Inputs \ released
              /\ released' = released \cup {i}
              /\ readyCount' = readyCount + (IF Completes(i) THEN 1 ELSE 0)
RNext == \E i \in Inputs : Release(i)
RSpec == RInit /\ [][RNext]_rvars

TypeOK == released \subseteq Inputs /\ readyCount \in {0, 1}
\* handed to the scheduler exactly once, and only when all required inputs have been released
ExactlyOnce == readyCount = (IF released = Inputs THEN 1 ELSE 0)
======================================================================
