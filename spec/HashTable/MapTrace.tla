---------------------------- MODULE MapTrace ----------------------------
(* Trace validation for C32: is a recorded inv/res history of the real hash table linearizable with respect
   to Map.tla, and did the iteration over the quiescent table visit each stored item exactly once ?
   Events (ndjson, in stamp order):
     {"e":"init","keys":[..]}                          keys stored before the threads start
     {"e":"inv","t":T,"op":"ins"|"find"|"rem"|"getput","k":K}
     {"e":"res","t":T,"op":..,"r":R}                   R = key of the returned element, 0 = NULL
     {"e":"forall","items":[..]}                       visit sequence of parsec_hash_table_for_all, no call pending
     {"e":"Reset"}                                     next execution
   Between a call's inv and res the silent action Lin(t) applies the call's effect to the abstract map: any
   linearization consistent with the recorded real-time order is accepted, nothing else. *)
EXTENDS Map, Json, IOUtils, TLC
CONSTANTS Thr
VARIABLES l, pend
tvars == <<map, l, pend>>

TraceLog == ndJsonDeserialize(IOEnv.TRACE)
None == [op |-> "none"]
Ev == TraceLog[l]
IsEv(e) == l <= Len(TraceLog) /\ Ev.e = e /\ l' = l + 1

TInit == map = {} /\ l = 1 /\ pend = [t \in Thr |-> None]

TSetInit == /\ IsEv("init") /\ \A t \in Thr : pend[t] = None
            /\ map' = {Ev.keys[i] : i \in 1..Len(Ev.keys)} /\ UNCHANGED pend
TReset == /\ IsEv("Reset")
          /\ map' = {} /\ pend' = [t \in Thr |-> None]

TInv == /\ IsEv("inv") /\ Ev.t \in Thr /\ pend[Ev.t] = None
        /\ pend' = [pend EXCEPT ![Ev.t] = [op |-> Ev.op, k |-> Ev.k, lin |-> FALSE, r |-> 0]]
        /\ UNCHANGED map

Lin(t) == /\ pend[t] # None /\ ~pend[t].lin /\ UNCHANGED l
          /\ CASE pend[t].op = "ins"    -> /\ Insert(pend[t].k)
                                           /\ pend' = [pend EXCEPT ![t].lin = TRUE]
               [] pend[t].op = "find"   -> /\ Find(pend[t].k)
                                           /\ pend' = [pend EXCEPT ![t].lin = TRUE, ![t].r = Res(pend[t].k)]
               [] pend[t].op = "rem"    -> /\ Remove(pend[t].k)
                                           /\ pend' = [pend EXCEPT ![t].lin = TRUE, ![t].r = Res(pend[t].k)]
               [] pend[t].op = "getput" -> /\ GetPut(pend[t].k)
                                           /\ pend' = [pend EXCEPT ![t].lin = TRUE, ![t].r = Res(pend[t].k)]

TRes == /\ IsEv("res") /\ Ev.t \in Thr /\ pend[Ev.t] # None /\ pend[Ev.t].lin
        /\ pend[Ev.t].op = Ev.op /\ pend[Ev.t].r = Ev.r
        /\ pend' = [pend EXCEPT ![Ev.t] = None]
        /\ UNCHANGED map

TForAll == /\ IsEv("forall") /\ \A t \in Thr : pend[t] = None
           /\ IsIteration(Ev.items)
           /\ UNCHANGED <<map, pend>>

TNext == TSetInit \/ TReset \/ TInv \/ TRes \/ TForAll \/ \E t \in Thr : Lin(t)
TSpec == TInit /\ [][TNext]_tvars

NotAccepted == l <= Len(TraceLog)
AcceptExit == (l > Len(TraceLog)) => (PrintT("VERIF-ACCEPTED") /\ TLCSet("exit", TRUE))
===========================================================================
