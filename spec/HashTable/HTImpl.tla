---------------------------- MODULE HTImpl ----------------------------
(* Implementation-shaped model of parsec/class/parsec_hash_table.c, one action per segment of code between two
   yield points of the hooked build (every parsec_atomic_* RMW/CAS, every fence, the marked spin-waits of the
   ticket read-write lock).  pc[t] names the yield point where thread t is parked.  Names follow the C code.

   insert_impl:  rdlock ; cur_head = rw_hash ; lock(bucket) ; nolock_insert ; resize? ; unlock(bucket) ; rdunlock ;
                 [ wrlock ; if cur_head == rw_hash : resize() ; wrunlock ]
   find/remove:  rdlock ; lock(bucket) ; scan the bucket of rw_hash ; else walk rw_hash->next ... (old tables):
                 lock(old bucket) ; scan ; found => unlink, --cur_len, 0 => fetch_dec(used_buckets), 1 => CAS(prev->next) ;
                 find re-inserts the item in rw_hash (migration), remove does not ; unlock(old) ; ... unlock ; rdunlock
   getput:       lock_bucket_handle ; nolock_find_handle ; absent => nolock_insert_handle ; unlock_bucket_handle
                 (resize decision taken in unlock, as in insert_impl)
   rdlock:       w = fetch_add(rin, RINC) & WBITS ; w # 0 => spin while (rin & WBITS) = w ; rmb
   rdunlock:     wmb ; fetch_add(rout, RINC)
   wrlock:       ticket = fetch_inc(win) ; spin until wout = ticket ; ticket = fetch_add(rin, PRES | (ticket & PHID)) ;
                 spin until rout = ticket ; rmb
   wrunlock:     wmb ; fetch_and(rin, ~0xFF) ; wout++
   atomic_lock:  CAS(lock, 0, 1) until success        atomic_unlock: mfence ; lock = 0

   Tables are numbered in creation order (1 = the initial one, top = rw_hash); table h has 2^(InitBits+h-1) buckets;
   Bkt[k][h] = 1 + bucket index of key k in table h (computed with the real hash function by the check).
   `abs` is the abstract map (set of present keys), updated when an operation's result is determined; refinement
   of Map.tla = invariants NoBad (each result is the abstract one) and Placement (each present key is stored
   exactly once in a table still reachable from rw_hash, or is held by the thread migrating it). *)
EXTENDS Integers, Sequences, FiniteSets, TLC
CONSTANTS Keys, Thr, Prog, InitKeys, Bkt, InitBits, Hint, MaxTables,
          NoReinsert        \* TRUE = variant of find_in_old_tables that forgets to re-insert (sensitivity self-test)
(* Prog[t] = sequence of [op |-> "ins"|"find"|"rem"|"getput", k |-> key] | [op |-> "reins", j |-> n]
   ("reins" inserts again the item this thread removed in its n-th operation; nothing if that returned NULL) *)
VARIABLES top, nxt, used, bkt, lock,          \* the tables
          rinR, rinW, rout, win, wout,        \* ticket rwlock: rin = rinR * RINC + rinW, rout = rout * RINC
          pc, opi, loc, ret,                  \* threads
          abs, bad, ovf                       \* refinement bookkeeping
tbl == <<top, nxt, used, bkt>>
rw  == <<rinR, rinW, rout, win, wout>>
thr == <<opi, ret>>
obs == <<abs, bad, ovf>>
vars == <<top, nxt, used, bkt, lock, rinR, rinW, rout, win, wout, pc, opi, loc, ret, abs, bad, ovf>>

Pow2(n) == 2 ^ n
NB(h) == Pow2(InitBits + h - 1)
In(s, k) == \E i \in 1..Len(s) : s[i] = k
Without(s, k) == SelectSeq(s, LAMBDA x : x # k)
NonEmpty(bk, h) == Cardinality({b \in 1..NB(h) : bk[h][b] # <<>>})
InsTopB(bk, tp, k) == [bk EXCEPT ![tp][Bkt[k][tp]] = <<k>> \o @]      \* nolock_insert: new first_item of the bucket

\* ---- initial content: InitKeys inserted one after the other by parsec_hash_table_insert (no concurrency)
SeqIns(S, k) == LET b1 == InsTopB(S.bkt, S.top, k) IN
                IF Len(b1[S.top][Bkt[k][S.top]]) > Hint /\ S.top < MaxTables
                THEN [top |-> S.top + 1, nxt |-> [S.nxt EXCEPT ![S.top + 1] = S.top],
                      used |-> [S.used EXCEPT ![S.top] = NonEmpty(b1, S.top)], bkt |-> b1]
                ELSE [S EXCEPT !.bkt = b1]
RECURSIVE SeqInit(_, _)
SeqInit(S, ks) == IF ks = <<>> THEN S ELSE SeqInit(SeqIns(S, Head(ks)), Tail(ks))
Empty == [top |-> 1, nxt |-> [h \in 1..MaxTables |-> 0], used |-> [h \in 1..MaxTables |-> 0],
          bkt |-> [h \in 1..MaxTables |-> [b \in 1..NB(h) |-> <<>>]]]
S0 == SeqInit(Empty, InitKeys)

NoLoc == [k |-> 0, w |-> 0, tk |-> 0, tk2 |-> 0, ch |-> 0, b |-> 0, rs |-> FALSE, h |-> 0, ph |-> 0, item |-> 0]
Init == /\ top = S0.top /\ nxt = S0.nxt /\ used = S0.used /\ bkt = S0.bkt
        /\ lock = [h \in 1..MaxTables |-> [b \in 1..NB(h) |-> 0]]
        /\ rinR = 0 /\ rinW = 0 /\ rout = 0 /\ win = 0 /\ wout = 0
        /\ pc = [t \in Thr |-> "idle"] /\ opi = [t \in Thr |-> 1]
        /\ loc = [t \in Thr |-> NoLoc] /\ ret = [t \in Thr |-> <<>>]
        /\ abs = {InitKeys[i] : i \in 1..Len(InitKeys)} /\ bad = FALSE /\ ovf = FALSE

CurOp(t) == Prog[t][opi[t]]
HasOp(t) == opi[t] <= Len(Prog[t])
Kind(t) == IF CurOp(t).op = "reins" THEN "ins" ELSE CurOp(t).op
OpKey(t) == IF CurOp(t).op = "reins" THEN ret[t][CurOp(t).j] ELSE CurOp(t).k
Done(t, r) == /\ ret' = [ret EXCEPT ![t] = Append(@, r)]
              /\ opi' = [opi EXCEPT ![t] = @ + 1]
              /\ pc' = [pc EXCEPT ![t] = "idle"]

\* ---------------------------------------------------------------- operation start, rdlock
Skip(t) == /\ pc[t] = "idle" /\ HasOp(t) /\ CurOp(t).op = "reins" /\ OpKey(t) = 0
           /\ Done(t, 0)
           /\ UNCHANGED <<tbl, lock, rw, loc, obs>>
\* from the operation boundary to the fetch_add(rin) of rdlock
Begin(t) == /\ pc[t] = "idle" /\ HasOp(t) /\ OpKey(t) # 0
            /\ loc' = [loc EXCEPT ![t] = [NoLoc EXCEPT !.k = OpKey(t)]]
            /\ pc' = [pc EXCEPT ![t] = "rd_in"]
            /\ UNCHANGED <<tbl, lock, rw, thr, obs>>
RdIn(t) == /\ pc[t] = "rd_in"
           /\ rinR' = rinR + 1
           /\ loc' = [loc EXCEPT ![t].w = rinW]
           /\ pc' = [pc EXCEPT ![t] = IF rinW # 0 THEN "rd_spin" ELSE "rd_rmb"]
           /\ UNCHANGED <<tbl, lock, rinW, rout, win, wout, thr, obs>>
RdSpin(t) == /\ pc[t] = "rd_spin" /\ rinW # loc[t].w
             /\ pc' = [pc EXCEPT ![t] = "rd_rmb"]
             /\ UNCHANGED <<tbl, lock, rw, thr, loc, obs>>
\* rmb ; cur_head = rw_hash ; hash = rehash(key, rw_hash->nb_bits)      (ends at the CAS of the bucket lock)
RdRmb(t) == /\ pc[t] = "rd_rmb"
            /\ loc' = [loc EXCEPT ![t].ch = top, ![t].b = Bkt[loc[t].k][top]]
            /\ pc' = [pc EXCEPT ![t] = "b_lock"]
            /\ UNCHANGED <<tbl, lock, rw, thr, obs>>

\* ---------------------------------------------------------------- under the bucket lock of rw_hash
\* the search is over with result r (key or 0); bk = the buckets as modified so far in this step
Finish(t, r, bk) ==
    LET k == loc[t].k
        bk2 == IF Kind(t) = "getput" /\ r = 0 THEN InsTopB(bk, top, k) ELSE bk        \* nolock_insert_handle
        want == Kind(t) = "getput" /\ Len(bk2[top][loc[t].b]) > Hint                  \* unlock_bucket_handle_impl
    IN /\ bkt' = bk2
       /\ bad' = (bad \/ r # (IF k \in abs THEN k ELSE 0))
       /\ abs' = CASE Kind(t) = "find" -> abs [] Kind(t) = "rem" -> abs \ {k} [] OTHER -> abs \cup {k}
       /\ ovf' = (ovf \/ (want /\ top = MaxTables))
       /\ loc' = [loc EXCEPT ![t].item = r, ![t].rs = (want /\ top < MaxTables)]
       /\ pc' = [pc EXCEPT ![t] = "b_unl"]
BLock(t) ==
    /\ pc[t] = "b_lock" /\ lock[top][loc[t].b] = 0
    /\ lock' = [lock EXCEPT ![top][loc[t].b] = t]
    /\ LET k == loc[t].k
           lst == bkt[top][loc[t].b]
       IN CASE Kind(t) = "ins" ->
                 LET bk2 == InsTopB(bkt, top, k)
                     want == Len(bk2[top][loc[t].b]) > Hint
                 IN /\ bkt' = bk2
                    /\ bad' = (bad \/ k \in abs)               \* the caller broke the unique-key contract (scenario error)
                    /\ abs' = abs \cup {k}
                    /\ ovf' = (ovf \/ (want /\ top = MaxTables))
                    /\ loc' = [loc EXCEPT ![t].item = 0, ![t].rs = (want /\ top < MaxTables)]
                    /\ pc' = [pc EXCEPT ![t] = "b_unl"]
            [] Kind(t) = "rem" /\ In(lst, k) -> Finish(t, k, [bkt EXCEPT ![top][loc[t].b] = Without(lst, k)])
            [] Kind(t) \in {"find", "getput"} /\ In(lst, k) -> Finish(t, k, bkt)
            [] OTHER ->                                           \* not in rw_hash: old tables, head = rw_hash->next
                 IF nxt[top] = 0 THEN Finish(t, 0, bkt)
                 ELSE /\ loc' = [loc EXCEPT ![t].ph = top, ![t].h = nxt[top]]
                      /\ pc' = [pc EXCEPT ![t] = "o_lock"]
                      /\ UNCHANGED <<bkt, obs>>
    /\ UNCHANGED <<top, nxt, used, rw, thr>>

\* ---------------------------------------------------------------- old tables
OB(t) == Bkt[loc[t].k][loc[t].h]
\* find_in_old_tables moves the item to rw_hash, remove_from_old_tables keeps it out
Reins(t, bk) == IF Kind(t) = "rem" \/ NoReinsert THEN bk ELSE InsTopB(bk, top, loc[t].k)
OLock(t) ==
    /\ pc[t] = "o_lock" /\ lock[loc[t].h][OB(t)] = 0
    /\ lock' = [lock EXCEPT ![loc[t].h][OB(t)] = t]
    /\ LET k == loc[t].k
           h == loc[t].h
           lst == bkt[h][OB(t)]
           bk1 == [bkt EXCEPT ![h][OB(t)] = Without(lst, k)]
       IN IF In(lst, k)
          THEN /\ loc' = [loc EXCEPT ![t].item = k]
               /\ IF Len(lst) = 1                                  \* --cur_len = 0 : fetch_dec(used_buckets) next
                  THEN bkt' = bk1 /\ pc' = [pc EXCEPT ![t] = "o_dec"]
                  ELSE bkt' = Reins(t, bk1) /\ pc' = [pc EXCEPT ![t] = "o_unl"]
          ELSE /\ loc' = [loc EXCEPT ![t].item = 0]
               /\ pc' = [pc EXCEPT ![t] = "o_unl"]
               /\ UNCHANGED bkt
    /\ UNCHANGED <<top, nxt, used, rw, thr, obs>>
ODec(t) == /\ pc[t] = "o_dec"
           /\ used' = [used EXCEPT ![loc[t].h] = @ - 1]
           /\ IF used[loc[t].h] = 1                              \* last used bucket: unlink the table
              THEN pc' = [pc EXCEPT ![t] = "o_cas"] /\ UNCHANGED bkt
              ELSE pc' = [pc EXCEPT ![t] = "o_unl"] /\ bkt' = Reins(t, bkt)
           /\ UNCHANGED <<top, nxt, lock, rw, thr, loc, obs>>
\* CAS(&prev_head->next, head, head->next)
OCas(t) == /\ pc[t] = "o_cas"
           /\ nxt' = IF nxt[loc[t].ph] = loc[t].h THEN [nxt EXCEPT ![loc[t].ph] = nxt[loc[t].h]] ELSE nxt
           /\ bkt' = Reins(t, bkt)
           /\ pc' = [pc EXCEPT ![t] = "o_unl"]
           /\ UNCHANGED <<top, used, lock, rw, thr, loc, obs>>
\* unlock(old bucket) ; found => back to the caller ; else prev_head = head, head = head->next
OUnl(t) == /\ pc[t] = "o_unl"
           /\ lock' = [lock EXCEPT ![loc[t].h][OB(t)] = 0]
           /\ IF loc[t].item # 0 THEN Finish(t, loc[t].item, bkt)
              ELSE IF nxt[loc[t].h] = 0 THEN Finish(t, 0, bkt)
              ELSE /\ loc' = [loc EXCEPT ![t].ph = loc[t].h, ![t].h = nxt[loc[t].h]]
                   /\ pc' = [pc EXCEPT ![t] = "o_lock"]
                   /\ UNCHANGED <<bkt, obs>>
           /\ UNCHANGED <<top, nxt, used, rw, thr>>

\* ---------------------------------------------------------------- unlock, rdunlock
BUnl(t) == /\ pc[t] = "b_unl"
           /\ lock' = [lock EXCEPT ![top][loc[t].b] = 0]
           /\ pc' = [pc EXCEPT ![t] = "rd_wmb"]
           /\ UNCHANGED <<tbl, rw, thr, loc, obs>>
RdWmb(t) == /\ pc[t] = "rd_wmb"
            /\ pc' = [pc EXCEPT ![t] = "rd_out"]
            /\ UNCHANGED <<tbl, lock, rw, thr, loc, obs>>
RdOut(t) == /\ pc[t] = "rd_out"
            /\ rout' = rout + 1
            /\ IF loc[t].rs THEN pc' = [pc EXCEPT ![t] = "w_win"] /\ UNCHANGED thr
               ELSE Done(t, loc[t].item)
            /\ UNCHANGED <<tbl, lock, rinR, rinW, win, wout, loc, obs>>

\* ---------------------------------------------------------------- resize under the write lock
WWin(t) == /\ pc[t] = "w_win"
           /\ win' = win + 1
           /\ loc' = [loc EXCEPT ![t].tk = win]
           /\ pc' = [pc EXCEPT ![t] = IF wout # win THEN "w_spin1" ELSE "w_rin"]
           /\ UNCHANGED <<tbl, lock, rinR, rinW, rout, wout, thr, obs>>
WSpin1(t) == /\ pc[t] = "w_spin1" /\ wout = loc[t].tk
             /\ pc' = [pc EXCEPT ![t] = "w_rin"]
             /\ UNCHANGED <<tbl, lock, rw, thr, loc, obs>>
WRin(t) == /\ pc[t] = "w_rin"
           /\ rinW' = rinW + 2 + (loc[t].tk % 2)                 \* PRES | (ticket & PHID)
           /\ loc' = [loc EXCEPT ![t].tk2 = rinR]
           /\ pc' = [pc EXCEPT ![t] = IF rout # rinR THEN "w_spin2" ELSE "w_rmb"]
           /\ UNCHANGED <<tbl, lock, rinR, rout, win, wout, thr, obs>>
WSpin2(t) == /\ pc[t] = "w_spin2" /\ rout = loc[t].tk2
             /\ pc' = [pc EXCEPT ![t] = "w_rmb"]
             /\ UNCHANGED <<tbl, lock, rw, thr, loc, obs>>
\* rmb ; if( cur_head == ht->rw_hash ) parsec_hash_table_resize(ht)
WRmb(t) == /\ pc[t] = "w_rmb"
           /\ IF loc[t].ch = top
              THEN /\ used' = [used EXCEPT ![top] = NonEmpty(bkt, top)]
                   /\ top' = top + 1
                   /\ nxt' = [nxt EXCEPT ![top + 1] = top]
              ELSE UNCHANGED <<top, nxt, used>>
           /\ pc' = [pc EXCEPT ![t] = "w_wmb"]
           /\ UNCHANGED <<bkt, lock, rw, thr, loc, obs>>
WWmb(t) == /\ pc[t] = "w_wmb"
           /\ pc' = [pc EXCEPT ![t] = "w_and"]
           /\ UNCHANGED <<tbl, lock, rw, thr, loc, obs>>
WAnd(t) == /\ pc[t] = "w_and"
           /\ rinW' = 0 /\ wout' = wout + 1
           /\ Done(t, loc[t].item)
           /\ UNCHANGED <<tbl, lock, rinR, rout, win, loc, obs>>

Step(t) == \/ Skip(t) \/ Begin(t) \/ RdIn(t) \/ RdSpin(t) \/ RdRmb(t) \/ BLock(t)
           \/ OLock(t) \/ ODec(t) \/ OCas(t) \/ OUnl(t) \/ BUnl(t) \/ RdWmb(t) \/ RdOut(t)
           \/ WWin(t) \/ WSpin1(t) \/ WRin(t) \/ WSpin2(t) \/ WRmb(t) \/ WWmb(t) \/ WAnd(t)
Next == \E t \in Thr : Step(t)
Spec == Init /\ [][Next]_vars

\* ---------------------------------------------------------------- refinement of Map / structural invariants
RECURSIVE CatB(_, _, _, _), AllOf(_, _)
CatB(bk, h, b, n) == IF b > n THEN <<>> ELSE bk[h][b] \o CatB(bk, h, b + 1, n)
AllOf(bk, h) == IF h = 0 THEN <<>> ELSE CatB(bk, h, 1, NB(h)) \o AllOf(bk, h - 1)    \* every stored item, all tables
\* a thread that unlinked the item from an old table and has not put it back (find) / reported it (remove) yet
InFlight(k) == Cardinality({t \in Thr : /\ loc[t].item = k /\ loc[t].k = k
                                        /\ \/ pc[t] \in {"o_dec", "o_cas"}
                                           \/ pc[t] = "o_unl" /\ (Kind(t) = "rem" \/ NoReinsert)})
RECURSIVE Chain(_, _)
Chain(h, n) == IF h = 0 \/ n = 0 THEN {} ELSE {h} \cup Chain(nxt[h], n - 1)
NoBad == ~bad
NoOverflow == ~ovf
Placement == LET all == AllOf(bkt, top) IN
             \A k \in Keys : Cardinality({i \in 1..Len(all) : all[i] = k}) + InFlight(k) = IF k \in abs THEN 1 ELSE 0
ChainOK == /\ \A h \in 1..top : NonEmpty(bkt, h) > 0 => h \in Chain(top, MaxTables)
           /\ \A h \in 1..top : nxt[h] < h
UsedOK == \A h \in 1..(top - 1) : used[h] = NonEmpty(bkt, h) + Cardinality({t \in Thr : pc[t] = "o_dec" /\ loc[t].h = h})
Readers == {t \in Thr : pc[t] \in {"rd_rmb", "b_lock", "o_lock", "o_dec", "o_cas", "o_unl", "b_unl", "rd_wmb", "rd_out"}}
Writers == {t \in Thr : pc[t] \in {"w_rmb", "w_wmb", "w_and"}}
RWExcl == Cardinality(Writers) <= 1 /\ (Writers # {} => Readers = {})
LockOK == \A h \in 1..MaxTables : \A b \in 1..NB(h) : lock[h][b] # 0 => lock[h][b] \in Readers
AllDone == \A t \in Thr : ~HasOp(t)
\* the order in which parsec_hash_table_for_all visits a quiescent table (rw_hash, then ->next ...; buckets in order)
RECURSIVE Cat(_, _, _), ForAll(_, _)
Cat(h, b, n) == IF b > n THEN <<>> ELSE bkt[h][b] \o Cat(h, b + 1, n)
ForAll(h, n) == IF h = 0 \/ n = 0 THEN <<>> ELSE Cat(h, 1, NB(h)) \o ForAll(nxt[h], n - 1)
=========================================================================
