---------------------------- MODULE Map ----------------------------
(* Abstract sequential map with unique keys: the meaning of parsec_hash_table_{insert,find,remove} and of the
   lock_bucket / nolock_find / nolock_insert / unlock_bucket idiom ("getput")  (property C32).
   The element stored under key k is "item k": the map is the set of keys present; 0 stands for NULL. *)
EXTENDS Naturals, Sequences, FiniteSets
CONSTANTS Keys
VARIABLES map

MInit == map = {}
Res(k)    == IF k \in map THEN k ELSE 0           \* what find / remove / getput return in the current state
Insert(k) == /\ k \in Keys /\ k \notin map         \* contract of the table: the caller never inserts a key twice
             /\ map' = map \cup {k}
Find(k)   == /\ k \in Keys /\ UNCHANGED map
Remove(k) == /\ k \in Keys /\ map' = map \ {k}
GetPut(k) == /\ k \in Keys /\ map' = map \cup {k}  \* find under the bucket lock, insert when absent

\* an iteration over a quiescent table visits each stored item exactly once
IsIteration(s) == /\ Len(s) = Cardinality(map)
                  /\ {s[i] : i \in 1..Len(s)} = map

MNext == \E k \in Keys : Insert(k) \/ Find(k) \/ Remove(k) \/ GetPut(k)
MSpec == MInit /\ [][MNext]_map
TypeOK == map \subseteq Keys
====================================================================
