SPECIFICATION MSpec
CONSTANTS Keys = {1,2,3,4}
INVARIANTS TypeOK
CHECK_DEADLOCK FALSE
