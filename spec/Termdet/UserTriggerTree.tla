---------------------------- MODULE UserTriggerTree ----------------------------
(* C12: the broadcast tree of parsec_termdet_signal_termination (termdet_user_trigger_module.c) and the property
   predicates, shared by the protocol model (UserTrigger.tla: N processes, atomic broadcast per process), the
   implementation-shaped model of one process (UserTriggerImpl.tla: threads, per-child sends) and the trace module. *)
EXTENDS Naturals, Integers, Sequences, FiniteSets, TLC
CONSTANTS Variant    \* "code" = what the C code does; "le" = sensitivity self-test (2*rel+2 <= n: must violate AtMostOnce)

\* ---- the tree of parsec_termdet_signal_termination, parameterised by the number of processes n ------------------
Rel(n, r, root) == (r - root + n) % n                                   \* my rank in the shifted world
NbChildren(n, rel) == IF Variant = "le" THEN (IF 2*rel + 2 <= n THEN 2 ELSE IF 2*rel + 1 < n THEN 1 ELSE 0)
                      ELSE IF 2*rel + 2 < n THEN 2 ELSE IF 2*rel + 1 < n THEN 1 ELSE 0
\* children in the order of the send loop: child = 2*my_rank + i + 1 (i = 0..nb-1), real_child = (child + root) % n
ChildSeq(n, r, root) == [i \in 1..NbChildren(n, Rel(n, r, root)) |-> (2*Rel(n, r, root) + i + root) % n]

\* ---- the property, as predicates over "how many notifications did each process receive" -------------------------
\* (the root's own trigger is its notification: it must not receive a message at all)
NoneTwice(n, root, notif) == \A r \in 0..(n-1) : notif[r] <= (IF r = root THEN 0 ELSE 1)
EveryOtherOnce(n, root, notif) == \A r \in 0..(n-1) : r # root => notif[r] = 1
=============================================================================
