---------------------------- MODULE UserTriggerImpl ----------------------------
(* C12, inside ONE process: the threads of a process that run the user_trigger termination detector concurrently
   (parsec/mca/termdet/user_trigger/termdet_user_trigger_module.c).  UserTrigger.tla treats what a process does when
   it terminates (state := TERMINATED, one notification per child, callback) as one atomic step Trigger(r) /
   Deliver(s, r).  This module shows that the C code really behaves like that atomic step when several threads of the
   process call the module at the same time: whatever the interleaving, the process sends the notifications of
   ChildSeq exactly once and fires its callback once.

   Shared variables of the process (names of the C fields):
     nbpa   tp->nb_pending_actions     (atomic fetch-add; +1 by taskpool_ready for "the tasks")
     nbt    tp->nb_tasks               (-1 stands for PARSEC_UNDETERMINED_NB_TASKS, or 0)
     state  monitor->state             "BUSY" / "TERM"   (the process is past taskpool_ready: never "NR" here)
     root   monitor->root              -1 = PARSEC_TERMDET_USER_TRIGGER_UNKNOWN_RANK

   Thread programs (what the runtime calls, see the callers in /repo/parsec):
     [op |-> "trig"]        taskpool_set_nb_tasks(tp, 0)              the user trigger (a task body)
     [op |-> "msg"]         parsec_termdet_user_trigger_msg_dispatch  the notification from the parent (comm. thread)
                            (parsec_taskpool_lookup = lock / unlock of taskpool_array_lock, then msg_dispatch_taskpool)
     [op |-> "add", v |-> k] taskpool_addto_runtime_actions(tp, k)    flying-message accounting (remote_dep.h), any thread
     [op |-> "tsk"]         taskpool_addto_nb_tasks(tp, -1)           a worker released a task (no-op in this module)
     [op |-> "chk"]         taskpool_state(tp) != TERMINATED ?        only as first op: the thread runs the rest of its
                            program only if the taskpool was not TERMINATED when it looked (the precondition that the
                            accounting helpers of remote_dep.c document)

   Granularity (field `grain` of the scenario):
     "yield"  one action = the code of a thread between two yield points of the hooked build: every parsec_atomic_*
              operation is a yield point, and the harness makes send_am one (a send goes to the communication engine).
              The zero-crossing test `state == BUSY && ov+v == 0` and (code order) `state = TERMINATED` follow the
              fetch-add without a yield point: they belong to the Fa step.  This is exactly what the harness
              harness/usertrigger/ut_replay.c (mode conc) can drive: the schedules of this model are replayed on the
              real module.
     "stmt"   the fetch-add, the test and the state update are three steps (plain accesses interleave as well).

   Order: "code" = monitor->state = TERMINATED is the FIRST statement of parsec_termdet_signal_termination;
          "late" = it is moved after the send loop (sensitivity self-test: must violate AtMostOnceI / CbOnceI as soon as
                   another thread can bring nb_pending_actions back to zero during the broadcast). *)
EXTENDS UserTriggerTree
CONSTANTS Scenarios,   \* set of [id, n, me, root, pre, grain, prog]; pre = runtime actions accounted before the threads start
          Order,       \* "code" / "late"
          MaxT         \* upper bound of the number of threads of a scenario

VARIABLES sc,      \* the scenario of this behaviour (never changes)
          pc,      \* pc[t]: "start", "lk", "ul", "fa", "test", "set", "send", "tsk", "done"
          ip,      \* ip[t]: index of the operation thread t is in (0 before its first step)
          kk,      \* kk[t]: index of the next child in the send loop
          acc,     \* acc[t]: ov+v of the last fetch-add (grain "stmt": read by the Test step)
          rs,      \* rs[t]: monitor->root as read at the beginning of parsec_termdet_signal_termination
          nbpa, nbt, state, root,
          sent,    \* sequence of <<thread, destination>>: the send_am calls of the process, in order
          cbs,     \* number of times tp->tdm.callback fired
          ret      \* ret[t]: results of the operations of t (add: ov+v, trig/msg/tsk: tp->nb_tasks seen, chk: 1 = go on)
vars == <<sc, pc, ip, kk, acc, rs, nbpa, nbt, state, root, sent, cbs, ret>>

Thr == 1..MaxT
NT == Len(sc.prog)
Ops(t) == sc.prog[t]
HasOp(t, i) == i >= 1 /\ i <= Len(Ops(t))
IsOp(t, i, o) == HasOp(t, i) /\ Ops(t)[i].op = o

Init == /\ sc \in Scenarios
        /\ pc = [t \in 1..Len(sc.prog) |-> "start"] /\ ip = [t \in 1..Len(sc.prog) |-> 0]
        /\ kk = [t \in 1..Len(sc.prog) |-> 0] /\ acc = [t \in 1..Len(sc.prog) |-> 0] /\ rs = [t \in 1..Len(sc.prog) |-> -1]
        /\ nbpa = 1 + sc.pre                            \* taskpool_ready counted "the tasks"; + actions in progress
        /\ nbt = -1 /\ state = "BUSY" /\ root = -1 /\ sent = <<>> /\ cbs = 0
        /\ ret = [t \in 1..Len(sc.prog) |-> <<>>]

\* ---- thread t goes on to its operation i: it runs up to the first yield point of that operation --------------------
\* (taskpool_set_nb_tasks(tp,0): `if(root == UNKNOWN) root = my_rank; tp->nb_tasks = 0;` precede the fetch-add)
PcOf(t, i) == IF ~HasOp(t, i) THEN "done"
              ELSE CASE Ops(t)[i].op = "add"  -> "fa"
                     [] Ops(t)[i].op = "trig" -> "fa"
                     [] Ops(t)[i].op = "tsk"  -> "tsk"
                     [] Ops(t)[i].op = "msg"  -> "lk"
Goto(t, i, newret, rt) ==
    /\ ip' = [ip EXCEPT ![t] = i]
    /\ ret' = [ret EXCEPT ![t] = newret]
    /\ pc' = [pc EXCEPT ![t] = PcOf(t, i)]
    /\ root' = IF IsOp(t, i, "trig") /\ rt = -1 THEN sc.me ELSE rt
    /\ nbt' = IF IsOp(t, i, "trig") THEN 0 ELSE nbt
\* the current operation of t returned r
Fin(t, r) == Goto(t, ip[t] + 1, Append(ret[t], r), root)

Start(t) == /\ t \in 1..NT /\ pc[t] = "start"
            /\ IF IsOp(t, 1, "chk")
               THEN IF state = "TERM"
                    THEN Goto(t, Len(Ops(t)) + 1, <<0>>, root)          \* the taskpool is terminated: nothing to account
                    ELSE Goto(t, 2, <<1>>, root)
               ELSE Goto(t, 1, <<>>, root)
            /\ UNCHANGED <<sc, kk, acc, rs, nbpa, state, sent, cbs>>

\* parsec_taskpool_lookup: parsec_atomic_lock(&taskpool_array_lock) ...
Lk(t) == /\ t \in 1..NT /\ pc[t] = "lk"
         /\ pc' = [pc EXCEPT ![t] = "ul"]
         /\ UNCHANGED <<sc, ip, kk, acc, rs, nbpa, nbt, state, root, sent, cbs, ret>>
\* ... parsec_atomic_unlock; msg_dispatch: the taskpool is not NOT_READY -> msg_dispatch_taskpool: monitor->root =
\* msg->root; taskpool_set_nb_tasks(tp, 0): nb_tasks = 0, up to the fetch-add
Ul(t) == /\ t \in 1..NT /\ pc[t] = "ul"
         /\ pc' = [pc EXCEPT ![t] = "fa"]
         /\ root' = sc.root /\ nbt' = 0
         /\ UNCHANGED <<sc, ip, kk, acc, rs, nbpa, state, sent, cbs, ret>>

\* taskpool_addto_nb_tasks(tp, -1): `return tp->nb_tasks`
Tsk(t) == /\ t \in 1..NT /\ pc[t] = "tsk"
          /\ Fin(t, nbt)
          /\ UNCHANGED <<sc, kk, acc, rs, nbpa, state, sent, cbs>>

V(t) == IF Ops(t)[ip[t]].op = "add" THEN Ops(t)[ip[t]].v ELSE -1      \* trig / msg: addto_runtime_actions(tp, -1)
\* what the operation returns: addto_runtime_actions -> ov+v ; set_nb_tasks / msg_dispatch -> tp->nb_tasks (0 by now)
Res(t, nv) == IF Ops(t)[ip[t]].op = "add" THEN nv ELSE 0
Kids(rt) == ChildSeq(sc.n, sc.me, rt)

\* ov = parsec_atomic_fetch_add_int32(&tp->nb_pending_actions, v)   [+ at grain "yield": the test, and the beginning of
\* parsec_termdet_signal_termination up to the first send_am]
Fa(t) == /\ t \in 1..NT /\ pc[t] = "fa"
         /\ LET nv == nbpa + V(t) IN
            /\ nbpa' = nv
            /\ IF sc.grain = "stmt"
               THEN /\ acc' = [acc EXCEPT ![t] = nv] /\ pc' = [pc EXCEPT ![t] = "test"]
                    /\ UNCHANGED <<ip, kk, rs, nbt, state, root, sent, cbs, ret>>
               ELSE IF state = "BUSY" /\ nv = 0
                    THEN IF Len(Kids(root)) = 0                           \* no child: state, callback, return
                         THEN /\ state' = "TERM" /\ cbs' = cbs + 1 /\ Fin(t, Res(t, nv))
                              /\ UNCHANGED <<kk, acc, rs, sent>>
                         ELSE /\ state' = IF Order = "code" THEN "TERM" ELSE state
                              /\ pc' = [pc EXCEPT ![t] = "send"] /\ kk' = [kk EXCEPT ![t] = 1]
                              /\ rs' = [rs EXCEPT ![t] = root] /\ acc' = [acc EXCEPT ![t] = nv]
                              /\ UNCHANGED <<ip, nbt, root, sent, cbs, ret>>
                    ELSE /\ Fin(t, Res(t, nv)) /\ UNCHANGED <<kk, acc, rs, state, sent, cbs>>
         /\ UNCHANGED sc

\* grain "stmt": `if( monitor->state == BUSY && ov+v == 0 )`
Test(t) == /\ t \in 1..NT /\ pc[t] = "test"
           /\ IF state = "BUSY" /\ acc[t] = 0
              THEN /\ rs' = [rs EXCEPT ![t] = root]
                   /\ IF Order = "code" \/ Len(Kids(root)) = 0
                      THEN pc' = [pc EXCEPT ![t] = "set"] /\ UNCHANGED kk
                      ELSE pc' = [pc EXCEPT ![t] = "send"] /\ kk' = [kk EXCEPT ![t] = 1]
                   /\ UNCHANGED <<ip, nbt, root, ret>>
              ELSE /\ Fin(t, Res(t, acc[t])) /\ UNCHANGED <<kk, rs>>
           /\ UNCHANGED <<sc, acc, nbpa, state, sent, cbs>>

\* grain "stmt": `monitor->state = TERMINATED` (code: before the loop; late: after it, then the callback)
Set(t) == /\ t \in 1..NT /\ pc[t] = "set"
          /\ state' = "TERM"
          /\ IF Order = "code" /\ Len(Kids(rs[t])) > 0
             THEN /\ pc' = [pc EXCEPT ![t] = "send"] /\ kk' = [kk EXCEPT ![t] = 1]
                  /\ UNCHANGED <<ip, nbt, root, ret, cbs>>
             ELSE /\ cbs' = cbs + 1 /\ Fin(t, Res(t, acc[t])) /\ UNCHANGED kk
          /\ UNCHANGED <<sc, acc, rs, nbpa, sent>>

\* one parsec_ce.send_am of the loop [+ after the last one: (late: the state), the callback, return]
Send(t) == /\ t \in 1..NT /\ pc[t] = "send"
           /\ sent' = Append(sent, <<t, Kids(rs[t])[kk[t]]>>)
           /\ IF kk[t] < Len(Kids(rs[t]))
              THEN /\ kk' = [kk EXCEPT ![t] = @ + 1] /\ UNCHANGED <<pc, ip, nbt, root, ret, state, cbs>>
              ELSE IF Order = "late" /\ sc.grain = "stmt"
                   THEN /\ pc' = [pc EXCEPT ![t] = "set"] /\ UNCHANGED <<kk, ip, nbt, root, ret, state, cbs>>
                   ELSE /\ state' = "TERM" /\ cbs' = cbs + 1 /\ Fin(t, Res(t, acc[t])) /\ UNCHANGED kk
           /\ UNCHANGED <<sc, acc, rs, nbpa>>

Next == \/ \E t \in Thr : Start(t)
        \/ \E t \in Thr : Lk(t)
        \/ \E t \in Thr : Ul(t)
        \/ \E t \in Thr : Tsk(t)
        \/ \E t \in Thr : Fa(t)
        \/ \E t \in Thr : Test(t)
        \/ \E t \in Thr : Set(t)
        \/ \E t \in Thr : Send(t)
Spec == Init /\ [][Next]_vars

\* ---- properties ------------------------------------------------------------------------------------------------
AllDone == \A t \in 1..NT : pc[t] = "done"
Dests == {sent[i][2] : i \in DOMAIN sent}
TypeOKI == /\ sc \in Scenarios /\ NT <= MaxT
           /\ \A t \in 1..NT : pc[t] \in {"start", "lk", "ul", "fa", "test", "set", "send", "tsk", "done"}
           /\ state \in {"BUSY", "TERM"} /\ nbt \in {-1, 0} /\ root \in {-1, sc.root} /\ cbs \in 0..(MaxT + 1)
\* no process is sent two notifications by this process (C12: "no process receives two"), nobody but its children
AtMostOnceI == /\ \A i, j \in DOMAIN sent : i # j => sent[i][2] # sent[j][2]
               /\ \A i \in DOMAIN sent : \E c \in DOMAIN Kids(sc.root) : Kids(sc.root)[c] = sent[i][2]
CbOnceI == cbs <= 1
\* when every thread has returned, the process did exactly what one atomic Trigger / Deliver step of UserTrigger.tla does
CompleteI == AllDone => /\ state = "TERM" /\ cbs = 1 /\ root = sc.root /\ nbt = 0 /\ nbpa = 0
                        /\ Dests = {Kids(sc.root)[c] : c \in DOMAIN Kids(sc.root)}
\* the only states without a successor are those where every thread returned (nobody waits for anybody)
CompletesI == (~ ENABLED Next) => AllDone
=============================================================================
