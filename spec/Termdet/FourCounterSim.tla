---------------------------- MODULE FourCounterSim ----------------------------
(* Behaviours of FourCounter.tla for the environment replay of C11: the same next-state relation with a history
   variable (action label + the state vector the model predicts after the step).  Used with TLC -simulate only. *)
EXTENDS FourCounter, Json
CONSTANTS MaxLen
VARIABLES hist
L(a, r, q) == [a |-> a, r |-> r, q |-> q, st |-> [i \in 1..N |-> st'[i-1]], cb |-> [i \in 1..N |-> cb'[i-1]]]
H(a, r, q) == hist' = Append(hist, L(a, r, q))
SimInit == Init /\ hist = <<>>
SimNext == /\ Len(hist) < MaxLen
           /\ \/ \E r \in Rank : TaskpoolReady(r) /\ H("Ready", r, -1)
              \/ \E r \in Rank : Spawn(r) /\ H("Spawn", r, -1)
              \/ \E r \in Rank : TaskDone(r) /\ H("TaskDone", r, -1)
              \/ \E r \in Rank : ActionDone(r) /\ H("ActionDone", r, -1)
              \/ \E r, q \in Rank : SendApp(r, q) /\ H("SendApp", r, q)
              \/ \E q \in Rank : RecvStart(q) /\ H("RecvStart", q, -1)
              \/ \E q \in Rank : RecvEnd(q) /\ H("RecvEnd", q, -1)
              \/ \E q \in Rank : RecvEndTask(q) /\ H("RecvEndTask", q, -1)
              \/ \E p, r \in Rank : MsgUp(p, r) /\ H("MsgUp", p, r)
              \/ \E p, r \in Rank : MsgDown(p, r) /\ H("MsgDown", p, r)
              \/ \E p, r \in Rank : MsgDelay(p, r) /\ H("MsgDelay", p, r)
SimSpec == SimInit /\ [][SimNext]_<<vars, hist>>
\* a behaviour is handed over when it is MaxLen long or when nothing can happen any more
Emit == (Len(hist) = MaxLen \/ (hist # <<>> /\ ~ ENABLED SimNext)) => PrintT(<<"VH", ToJson(hist)>>)
\* Directed behaviours: run with Variants = the weakened variants, VIEW vars, BFS with ONE worker.  For every variant the
\* FIRST state that is unsafe or stranded (= a shortest such behaviour of that variant) is handed over once (TLC register 1
\* holds the variants already served; the constraint stops exploring a served variant).  The MC module must contain
\* ASSUME TLCSet(1, {}).
Bad == ~Safe \/ Strand
EmitBad == Bad => \/ variant \in TLCGet(1)
                  \/ /\ PrintT(<<"VH", ToJson([variant |-> variant, kind |-> IF ~Safe THEN "unsafe" ELSE "strand", hist |-> hist])>>)
                     /\ TLCSet(1, TLCGet(1) \cup {variant})
Unserved == variant \notin TLCGet(1)
AllServed == TLCGet(1) # Variants          \* "violated" = every variant has been served: stop
===============================================================================
