---------------------------- MODULE FourCounterSim ----------------------------
(* Behaviours of FourCounter.tla for the environment replay of C11: the same next-state relation with a history
   variable (action label + the state vector the model predicts after the step).  Used with TLC -simulate only. *)
EXTENDS FourCounter, Json
CONSTANTS MaxLen
VARIABLES hist
L(a, r, q) == [a |-> a, r |-> r, q |-> q, st |-> [i \in 1..N |-> st'[i-1]], cb |-> [i \in 1..N |-> cb'[i-1]]]
H(a, r, q) == hist' = Append(hist, L(a, r, q))
SimInit == Init /\ hist = <<>>
SimNext == /\ Len(hist) < MaxLen
           /\ \/ \E r \in Rank : TaskpoolReady(r) /\ H("Ready", r, -1)
              \/ \E r \in Rank : Spawn(r) /\ H("Spawn", r, -1)
              \/ \E r \in Rank : TaskDone(r) /\ H("TaskDone", r, -1)
              \/ \E r \in Rank : ActionDone(r) /\ H("ActionDone", r, -1)
              \/ \E r, q \in Rank : SendApp(r, q) /\ H("SendApp", r, q)
              \/ \E q \in Rank : RecvStart(q) /\ H("RecvStart", q, -1)
              \/ \E q \in Rank : RecvEnd(q) /\ H("RecvEnd", q, -1)
              \/ \E p, r \in Rank : MsgUp(p, r) /\ H("MsgUp", p, r)
              \/ \E p, r \in Rank : MsgDown(p, r) /\ H("MsgDown", p, r)
              \/ \E p, r \in Rank : MsgDelay(p, r) /\ H("MsgDelay", p, r)
SimSpec == SimInit /\ [][SimNext]_<<vars, hist>>
\* a behaviour is handed over when it is MaxLen long or when nothing can happen any more
Emit == (Len(hist) = MaxLen \/ (hist # <<>> /\ ~ ENABLED SimNext)) => PrintT(<<"VH", ToJson(hist)>>)
\* (sensitivity self-test: run on a weakened Variant with VIEW vars; hands over the shortest unsafe behaviour)
EmitUnsafe == (~Safe) => PrintT(<<"VH", ToJson(hist)>>)
===============================================================================
