---------------------------- MODULE LocalTrace ----------------------------
(* Trace validation for C10: is a recorded history of concurrent calls into the real local termination detector
   (through the function table of parsec_termdet_local_module) a behaviour of Local.tla ?
   Events (ndjson, in stamp order):
     {"e":"inv","t":T,"op":"addtasks"|"addpa"|"settasks"|"setpa"|"ready","v":V}   thread T is about to call
     {"e":"res","t":T,"op":..,"st":S}      the call returned; S = taskpool_state() read by T right afterwards
     {"e":"cb","t":T}                      the termination callback runs (inside a call of T)
     {"e":"sample","st":S}                 taskpool_state() read by a monitoring thread
     {"e":"end","st":S}                    every thread has finished; S = final taskpool_state()
     {"e":"destroyed"}                     the taskpool's reference count reached zero (observation only, see D5)
     {"e":"Reset"}
   S is "NOT_READY", "BUSY" or "TERMINATED".  Between inv and res of a call the silent action Lin(t) applies the
   call's effect to the abstract counters (any linearization consistent with the real-time order is accepted):
     - the callback runs at most once, and only when the taskpool is ready and both abstract numbers are zero;
     - TERMINATED is observed only after the callback, hence only when ready and both numbers are zero;
     - once termination was reported no call may make a number non-zero again;
     - at the end: reported (callback ran, state TERMINATED) iff ready and both numbers are zero. *)
EXTENDS Local, Sequences, Json, IOUtils, TLC
CONSTANTS Thr
VARIABLES l, pend
tvars == <<rdy, nbt, nbpa, cbn, l, pend>>

TraceLog == ndJsonDeserialize(IOEnv.TRACE)
Ev == TraceLog[l]
IsEv(e) == l <= Len(TraceLog) /\ Ev.e = e /\ l' = l + 1
None == [op |-> "none", v |-> 0, lin |-> FALSE]
States == {"NOT_READY", "BUSY", "TERMINATED"}

TInit == LInit /\ l = 1 /\ pend = [t \in Thr |-> None]
TReset == /\ IsEv("Reset")
          /\ rdy' = FALSE /\ nbt' = 0 /\ nbpa' = 0 /\ cbn' = 0 /\ pend' = [t \in Thr |-> None]

TInv == /\ IsEv("inv") /\ Ev.t \in Thr /\ pend[Ev.t] = None
        /\ Ev.op \in {"addtasks", "addpa", "settasks", "setpa", "ready"}
        /\ pend' = [pend EXCEPT ![Ev.t] = [op |-> Ev.op, v |-> Ev.v, lin |-> FALSE]]
        /\ UNCHANGED lvars

\* the call of t takes effect.  After the report nothing may raise a number (the guard ~Quiet of Local.tla)
Lin(t) == /\ pend[t] # None /\ ~pend[t].lin /\ UNCHANGED l
          /\ pend' = [pend EXCEPT ![t].lin = TRUE]
          /\ CASE pend[t].op = "addtasks" -> /\ (cbn = 1 => pend[t].v = 0) /\ nbt + pend[t].v >= 0
                                             /\ nbt' = nbt + pend[t].v /\ UNCHANGED <<rdy, nbpa, cbn>>
               [] pend[t].op = "addpa"    -> /\ (cbn = 1 => pend[t].v = 0) /\ nbpa + pend[t].v >= 0
                                             /\ nbpa' = nbpa + pend[t].v /\ UNCHANGED <<rdy, nbt, cbn>>
               [] pend[t].op = "settasks" -> /\ cbn = 0 /\ pend[t].v >= 0
                                             /\ nbt' = pend[t].v /\ UNCHANGED <<rdy, nbpa, cbn>>
               [] pend[t].op = "setpa"    -> /\ cbn = 0 /\ pend[t].v >= 0
                                             /\ nbpa' = pend[t].v /\ UNCHANGED <<rdy, nbt, cbn>>
               [] pend[t].op = "ready"    -> /\ ~rdy /\ rdy' = TRUE /\ UNCHANGED <<nbt, nbpa, cbn>>

\* the callback: Report of Local.tla, run by a thread that is inside a call which has taken effect
TCb == /\ IsEv("cb") /\ Ev.t \in Thr /\ pend[Ev.t] # None /\ pend[Ev.t].lin
       /\ Report
       /\ UNCHANGED pend

SeenOK(s) == /\ s \in States
             /\ s = "TERMINATED" => (cbn = 1 /\ Quiet)
TRes == /\ IsEv("res") /\ Ev.t \in Thr /\ pend[Ev.t] # None /\ pend[Ev.t].lin /\ pend[Ev.t].op = Ev.op
        /\ SeenOK(Ev.st)
        /\ pend' = [pend EXCEPT ![Ev.t] = None]
        /\ UNCHANGED lvars
TSample == /\ IsEv("sample") /\ SeenOK(Ev.st) /\ UNCHANGED <<pend, rdy, nbt, nbpa, cbn>>
TDestroyed == /\ IsEv("destroyed") /\ UNCHANGED <<pend, rdy, nbt, nbpa, cbn>>
TEnd == /\ IsEv("end") /\ \A t \in Thr : pend[t] = None
        /\ Ev.st \in States
        /\ (Ev.st = "TERMINATED" /\ cbn = 1) <=> Quiet
        /\ (cbn = 1) <=> Quiet
        /\ UNCHANGED <<pend, rdy, nbt, nbpa, cbn>>

TNext == TReset \/ TInv \/ TCb \/ TRes \/ TSample \/ TDestroyed \/ TEnd \/ \E t \in Thr : Lin(t)
TSpec == TInit /\ [][TNext]_tvars

AcceptExit == (l > Len(TraceLog)) => (PrintT("VERIF-ACCEPTED") /\ TLCSet("exit", TRUE))
TraceCbOnce == CbOnce
TraceNoEarly == NoEarly
===========================================================================
