SPECIFICATION TSpec
CONSTANTS Ns = {1}
 Variant = "code"
INVARIANT AcceptExit
CHECK_DEADLOCK FALSE
