---------------------------- MODULE UserTriggerTrace ----------------------------
(* Trace validation for C12.  The harness (harness/usertrigger/ut_replay.c) runs N virtual ranks of the real
   user_trigger module in one process, records every parsec_ce.send_am the module issues and delivers the recorded
   messages through the real parsec_termdet_user_trigger_msg_dispatch.  Two kinds of executions:

   (a) event by event (replayed TLC behaviours of UserTrigger.tla):
        {"e":"cfg","n":N}                      new execution with N processes
        {"e":"ready","r":R}                    taskpool_ready on R
        {"e":"trigger","r":R}                  the user calls taskpool_set_nb_tasks(tp,0) on R
        {"e":"send","src":S,"dst":D}           the module called send_am(D) while running on S
        {"e":"deliver","src":S,"dst":D}        the harness delivered that message (msg_dispatch on D)
        {"e":"end","cb":[c0,..],"st":[s0,..]}  nothing in flight any more; callbacks fired / taskpool_state per rank
       executions of the concurrent mode (threads of one process, UserTriggerImpl.tla) have two more events, which carry
       no obligation at the property level (the sends they cause are `send` events):
        {"e":"op","t":T,"op":"add"|"trig"|"msg"|"tsk"|"chk","v":V,"r":R}   thread T's call returned R
        {"e":"cb","r":R}                       the termination callback fired on R
   (b) one line per (N, root, delivery order) for the sweep over large N:
        {"e":"run","n":N,"root":R,"edges":[[S,D,K],..]}   edges in delivery order; K = index (1-based) of the delivery
                                                          that notified S, 0 when S is the root
   The verdict is the statement of C12: every process but the root is notified exactly once, nobody twice
   (a message to the root, or to a rank outside the communicator, is an extra notification). *)
EXTENDS UserTrigger, Json, IOUtils
VARIABLES l, n, tflight, ended
tvars == <<l, n, tflight, ended, root, notified, N, st, delayed, flight, cb>>

TraceLog == ndJsonDeserialize(IOEnv.TRACE)
Ev == TraceLog[l]
IsEv(e) == l <= Len(TraceLog) /\ Ev.e = e /\ l' = l + 1
Procs == 0..(n-1)

\* (the per-process protocol variables of UserTrigger.tla are not used by the property-level validation)
TInit == /\ l = 1 /\ n = 0 /\ tflight = <<>> /\ ended = TRUE /\ root = -1 /\ notified = <<>>
         /\ N = 0 /\ st = <<>> /\ delayed = <<>> /\ flight = <<>> /\ cb = <<>>

TReset == IsEv("Reset") /\ n' = 0 /\ tflight' = <<>> /\ ended' = TRUE /\ root' = -1 /\ notified' = <<>>
TCfg == /\ IsEv("cfg") /\ ended /\ Ev.n >= 1
        /\ n' = Ev.n /\ tflight' = <<>> /\ ended' = FALSE /\ root' = -1 /\ notified' = [r \in 0..(Ev.n-1) |-> 0]
TReady == /\ IsEv("ready") /\ ~ended /\ Ev.r \in Procs /\ UNCHANGED <<n, tflight, ended, root, notified>>
TTrigger == /\ IsEv("trigger") /\ ~ended /\ root = -1 /\ Ev.r \in Procs
            /\ root' = Ev.r /\ UNCHANGED <<n, tflight, ended, notified>>
\* a send to a rank outside the communicator can never be delivered: rejected right here
TSend == /\ IsEv("send") /\ ~ended /\ root # -1 /\ Ev.src \in Procs /\ Ev.dst \in Procs
         /\ tflight' = Append(tflight, <<Ev.src, Ev.dst>>) /\ UNCHANGED <<n, ended, root, notified>>
TDeliver == /\ IsEv("deliver") /\ ~ended
            /\ \E i \in 1..Len(tflight) :
                  /\ tflight[i] = <<Ev.src, Ev.dst>>
                  /\ \A j \in 1..(i-1) : tflight[j] # tflight[i]
                  /\ tflight' = SubSeq(tflight, 1, i-1) \o SubSeq(tflight, i+1, Len(tflight))
            /\ notified' = [notified EXCEPT ![Ev.dst] = @ + 1]
            /\ NoneTwice(n, root, notified')                                   \* no process receives two
            /\ UNCHANGED <<n, ended, root>>
TOp == /\ IsEv("op") /\ ~ended /\ UNCHANGED <<n, tflight, ended, root, notified>>
TCb == /\ IsEv("cb") /\ ~ended /\ root # -1 /\ Ev.r \in Procs /\ UNCHANGED <<n, tflight, ended, root, notified>>
TEnd == /\ IsEv("end") /\ ~ended /\ root # -1 /\ tflight = <<>>
        /\ EveryOtherOnce(n, root, notified)                                   \* every other process exactly one
        /\ ended' = TRUE /\ UNCHANGED <<n, tflight, root, notified>>

\* ---- one-line executions ------------------------------------------------------------------------------------
Dsts(edges) == {edges[i][2] : i \in 1..Len(edges)}
RunOK(nn, rt, edges) ==
    /\ nn >= 1 /\ rt \in 0..(nn-1)
    /\ \A i \in 1..Len(edges) :                                                \* well-formed and causal
          /\ edges[i][1] \in 0..(nn-1)
          /\ IF edges[i][3] = 0 THEN edges[i][1] = rt
             ELSE edges[i][3] \in 1..(i-1) /\ edges[edges[i][3]][2] = edges[i][1]
    /\ Dsts(edges) \subseteq (0..(nn-1)) \ {rt}                                \* nobody outside, not the root
    /\ Cardinality(Dsts(edges)) = Len(edges)                                   \* no process receives two
    /\ (0..(nn-1)) \ {rt} \subseteq Dsts(edges)                                \* every other process receives one
\* ("= TRUE": evaluated as one expression; as an action conjunct TLC would unfold the quantifier recursively)
TRun == /\ IsEv("run") /\ ended /\ (RunOK(Ev.n, Ev.root, Ev.edges) = TRUE)
        /\ UNCHANGED <<n, tflight, ended, root, notified>>

TNext == /\ TReset \/ TCfg \/ TReady \/ TTrigger \/ TSend \/ TDeliver \/ TOp \/ TCb \/ TEnd \/ TRun
         /\ UNCHANGED <<N, st, delayed, flight, cb>>
TSpec == TInit /\ [][TNext]_tvars
AcceptExit == (l > Len(TraceLog)) => (PrintT("VERIF-ACCEPTED") /\ TLCSet("exit", TRUE))
=================================================================================
