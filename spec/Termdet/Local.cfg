SPECIFICATION LSpec
CONSTANTS MaxLoad = 3
INVARIANTS CbOnce NoEarly
PROPERTIES Live
CHECK_DEADLOCK FALSE
