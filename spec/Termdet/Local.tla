---------------------------- MODULE Local ----------------------------
(* Abstract meaning of the local termination detector (property C10), as termdet.h states it:
   the monitor keeps a number of tasks and a number of pending actions; a taskpool that has been declared
   READY and whose two numbers are zero is reported terminated: the termination callback runs, exactly once.
   Environment contract (termdet.h / DESIGN.md C10, E1): once a ready taskpool has no load left nobody can
   add load any more (a counter is only raised by a thread that itself owns load, or before ready). *)
EXTENDS Naturals, Integers
CONSTANTS MaxLoad
VARIABLES rdy, nbt, nbpa, cbn
lvars == <<rdy, nbt, nbpa, cbn>>

Quiet == rdy /\ nbt = 0 /\ nbpa = 0
LInit == rdy = FALSE /\ nbt = 0 /\ nbpa = 0 /\ cbn = 0
AddTasks(v) == /\ ~Quiet /\ nbt + v \in 0..MaxLoad /\ nbt' = nbt + v /\ UNCHANGED <<rdy, nbpa, cbn>>
AddPa(v)    == /\ ~Quiet /\ nbpa + v \in 0..MaxLoad /\ nbpa' = nbpa + v /\ UNCHANGED <<rdy, nbt, cbn>>
SetTasks(v) == /\ ~rdy /\ v \in 0..MaxLoad /\ nbt' = v /\ UNCHANGED <<rdy, nbpa, cbn>>
SetPa(v)    == /\ ~rdy /\ v \in 0..MaxLoad /\ nbpa' = v /\ UNCHANGED <<rdy, nbt, cbn>>
Ready       == /\ ~rdy /\ rdy' = TRUE /\ UNCHANGED <<nbt, nbpa, cbn>>
Report      == /\ Quiet /\ cbn = 0 /\ cbn' = 1 /\ UNCHANGED <<rdy, nbt, nbpa>>      \* the termination callback
LNext == \/ \E v \in {-2, -1, 1, 2} : AddTasks(v) \/ AddPa(v)
         \/ \E v \in 0..MaxLoad : SetTasks(v) \/ SetPa(v)
         \/ Ready \/ Report
LSpec == LInit /\ [][LNext]_lvars /\ WF_lvars(Report)

CbOnce  == cbn <= 1
NoEarly == cbn = 1 => Quiet            \* reported only after ready, with both numbers zero; never non-zero afterwards
Live    == Quiet ~> (cbn = 1)          \* once both numbers stay at zero after readiness, termination is reported
======================================================================
