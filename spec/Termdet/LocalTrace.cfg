SPECIFICATION TSpec
CONSTANTS Thr = {1,2,3,4,5,6,7,8}
 MaxLoad = 64
INVARIANTS AcceptExit TraceCbOnce TraceNoEarly
CHECK_DEADLOCK FALSE
