SPECIFICATION TSpec
CONSTANTS N = 1
 MaxMsgs = 0
 MaxSpawn = 0
 Variants = {"code"}
INVARIANT AcceptExit
CHECK_DEADLOCK FALSE
