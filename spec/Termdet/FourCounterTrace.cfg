SPECIFICATION TSpec
CONSTANTS N = 1
 MaxMsgs = 0
 MaxSpawn = 0
 Variant = "code"
INVARIANT AcceptExit
CHECK_DEADLOCK FALSE
