---------------------------- MODULE FourCounterTrace ----------------------------
(* Trace validation for C11.  harness/fourcounter/fc_replay.c plays the environment of a TLC behaviour of
   FourCounter.tla into N virtual ranks of the real module and logs every environment action BEFORE calling the
   module, and the termination callback when the module fires it:
     {"e":"cfg","n":N}  {"e":"ready","r":R}  {"e":"spawn","r":R}  {"e":"taskdone","r":R}  {"e":"actiondone","r":R}
     {"e":"sendapp","r":R,"q":Q}  {"e":"recvstart","q":Q}  {"e":"recvend","q":Q}  {"e":"deliver","p":P,"q":Q}
     {"e":"recvendtask","q":Q}   the reception completes by releasing a task (no flying-message action)
     {"e":"term","r":R}     the detector of R declared termination (callback)
     {"e":"end"}            the harness made everything quiet and delivered control messages fairly (bounded)
     {"e":"stuck"}          ... and some rank still had not terminated: never accepted
   The harness owns the environment, so the trace carries the TRUE global state (work per process, application
   messages in flight / being received).  The verdict is the statement of C11:
     safety    a term event is accepted only when every process is idle and every message sent has been received
     liveness  at end (permanently quiet, fair bounded delivery) every process has declared termination, once. *)
EXTENDS FourCounter, Json, IOUtils
VARIABLES l, n, ended
tvars == <<l, n, ended, vars>>

TraceLog == ndJsonDeserialize(IOEnv.TRACE)
Ev == TraceLog[l]
IsEv(e) == l <= Len(TraceLog) /\ Ev.e = e /\ l' = l + 1
Procs == 0..(n-1)
Zero == [r \in Procs |-> 0]
\* protocol variables of FourCounter.tla that the property-level validation does not use
Unused == <<sent, recv, accS, accR, left, lastS, lastR, ctl, delayed, budgetM, budgetS, assertFail, variant>>

TInit == /\ l = 1 /\ n = 0 /\ ended = TRUE
         /\ st = <<>> /\ tasks = <<>> /\ pa = <<>> /\ flight = <<>> /\ started = <<>> /\ cb = <<>>
         /\ sent = 0 /\ recv = 0 /\ accS = 0 /\ accR = 0 /\ left = 0 /\ lastS = 0 /\ lastR = 0 /\ ctl = 0 /\ delayed = 0
         /\ budgetM = 0 /\ budgetS = 0 /\ assertFail = FALSE /\ variant = "code"
Keep(v) == UNCHANGED v
TReset == /\ IsEv("Reset") /\ n' = 0 /\ ended' = TRUE
          /\ st' = <<>> /\ tasks' = <<>> /\ pa' = <<>> /\ flight' = <<>> /\ started' = <<>> /\ cb' = <<>>
TCfg == /\ IsEv("cfg") /\ ended /\ Ev.n >= 1 /\ n' = Ev.n /\ ended' = FALSE
        /\ LET P == 0..(Ev.n - 1) IN
           /\ st' = [r \in P |-> "NR"] /\ tasks' = [r \in P |-> 0] /\ pa' = [r \in P |-> 1]       \* start-up action
           /\ flight' = [r \in P |-> 0] /\ started' = [r \in P |-> 0] /\ cb' = [r \in P |-> 0]
Live(r) == ~ended /\ r \in Procs
TReady == /\ IsEv("ready") /\ Live(Ev.r) /\ st[Ev.r] = "NR" /\ st' = [st EXCEPT ![Ev.r] = "RDY"]
          /\ Keep(<<n, ended, tasks, pa, flight, started, cb>>)
TSpawn == /\ IsEv("spawn") /\ Live(Ev.r) /\ tasks' = [tasks EXCEPT ![Ev.r] = @ + 1]
          /\ Keep(<<n, ended, st, pa, flight, started, cb>>)
TTaskDone == /\ IsEv("taskdone") /\ Live(Ev.r) /\ tasks[Ev.r] > 0 /\ tasks' = [tasks EXCEPT ![Ev.r] = @ - 1]
             /\ Keep(<<n, ended, st, pa, flight, started, cb>>)
TActionDone == /\ IsEv("actiondone") /\ Live(Ev.r) /\ pa[Ev.r] > 0 /\ pa' = [pa EXCEPT ![Ev.r] = @ - 1]
               /\ Keep(<<n, ended, st, tasks, flight, started, cb>>)
TSendApp == /\ IsEv("sendapp") /\ Live(Ev.r) /\ Ev.q \in Procs /\ flight' = [flight EXCEPT ![Ev.q] = @ + 1]
            /\ Keep(<<n, ended, st, tasks, pa, started, cb>>)
TRecvStart == /\ IsEv("recvstart") /\ Live(Ev.q) /\ flight[Ev.q] > 0
              /\ flight' = [flight EXCEPT ![Ev.q] = @ - 1] /\ started' = [started EXCEPT ![Ev.q] = @ + 1]
              /\ Keep(<<n, ended, st, tasks, pa, cb>>)
TRecvEnd == /\ IsEv("recvend") /\ Live(Ev.q) /\ started[Ev.q] > 0
            /\ started' = [started EXCEPT ![Ev.q] = @ - 1] /\ pa' = [pa EXCEPT ![Ev.q] = @ + 1]
            /\ Keep(<<n, ended, st, tasks, flight, cb>>)
TRecvEndTask == /\ IsEv("recvendtask") /\ Live(Ev.q) /\ started[Ev.q] > 0
                /\ started' = [started EXCEPT ![Ev.q] = @ - 1] /\ tasks' = [tasks EXCEPT ![Ev.q] = @ + 1]
                /\ Keep(<<n, ended, st, pa, flight, cb>>)
TDeliver == /\ IsEv("deliver") /\ Live(Ev.p) /\ Ev.q \in Procs
            /\ Keep(<<n, ended, st, tasks, pa, flight, started, cb>>)
\* SAFETY: termination may be declared only in a quiet system; and only once per process
TTerm == /\ IsEv("term") /\ Live(Ev.r)
         /\ QuietOf(Procs, tasks, pa, flight, started)
         /\ cb[Ev.r] = 0
         /\ cb' = [cb EXCEPT ![Ev.r] = 1] /\ st' = [st EXCEPT ![Ev.r] = "TERM"]
         /\ Keep(<<n, ended, tasks, pa, flight, started>>)
\* LIVENESS (bounded): quiet for good + fair delivery => everybody has declared termination
TEnd == /\ IsEv("end") /\ ~ended
        /\ QuietOf(Procs, tasks, pa, flight, started)
        /\ \A r \in Procs : cb[r] = 1
        /\ ended' = TRUE /\ Keep(<<n, st, tasks, pa, flight, started, cb>>)
TNext == /\ \/ TReset \/ TCfg \/ TReady \/ TSpawn \/ TTaskDone \/ TActionDone \/ TSendApp \/ TRecvStart \/ TRecvEnd
            \/ TRecvEndTask \/ TDeliver \/ TTerm \/ TEnd
         /\ UNCHANGED Unused
TSpec == TInit /\ [][TNext]_tvars
AcceptExit == (l > Len(TraceLog)) => (PrintT("VERIF-ACCEPTED") /\ TLCSet("exit", TRUE))
=================================================================================
