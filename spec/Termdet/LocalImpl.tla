---------------------------- MODULE LocalImpl ----------------------------
(* Implementation-shaped model of parsec/mca/termdet/local/termdet_local_module.c (property C10): one action
   per segment of code between two yield points of the hooked build (every parsec_atomic_* operation, the
   K_READ hooks in front of the plain reads of tdm.monitor / nb_pending_actions, operation boundaries of the
   harness).  Names follow the C code:

   addto_nb_tasks(v):          ov = fetch_add(nb_tasks, v)                                 FetchAddTasks
                               ov == 0 && v > 0 : nbpa = fetch_inc(nb_pending_actions)+1   IncPa
                               ov+v == 0 && ov>0: nbpa = fetch_dec(nb_pending_actions)-1   DecPa
                               monitor == BUSY && nbpa == 0 ?                              ChkMon
   addto_runtime_actions(v):   ov = fetch_add(nb_pending_actions, v)                       FetchAddPa ; ChkMon (ov+v == 0)
   set_nb_tasks(v):            if(nb_tasks != v) { cas(nb_tasks, ov, v)                    SetTasksCas ; IncPa|DecPa ; ChkMon }
   set_runtime_actions(v):     cas(nb_pending_actions, ov, v)                              SetPaCas ; ChkMon (v == 0)
   taskpool_ready():           cas(monitor, NOT_READY, BUSY)                               ReadyCas
                               PARSEC_OBJ_RETAIN(tp)                                       ReadyRetain
                               nb_pending_actions == 0 ?                                   ReadyRead
   common tail:                cas(monitor, BUSY, TERMINATING) ; callback(tp)              CasTerm
                               cas(monitor, TERMINATING, TERMINATED)                       CasTerminated
                               PARSEC_OBJ_RELEASE(tp)                                      Release

   Environment = fixed programs Prog[t] over load tokens (DESIGN.md C10, contract E1/E2; the check verifies
   statically that a thread only raises a counter while it holds a token or, for Main, before ready):
     [op |-> "setpa", toks |-> <<..>>]     set_runtime_actions(n)   n pending-action tokens, held by the caller
     [op |-> "settasks", toks |-> <<..>>]  set_nb_tasks(n)          n task tokens, available when the call returned
     [op |-> "addtasks", toks |-> <<..>>]  addto_nb_tasks(+n)       n task tokens, available when the call returned (E2)
     [op |-> "endtask", tok |-> j]         addto_nb_tasks(-1)       the caller holds (runs) task j; waits until ready() returned
     [op |-> "addpa", tok |-> j]           addto_runtime_actions(+1), token j held by the caller
     [op |-> "relpa", tok |-> j]           addto_runtime_actions(-1)
     [op |-> "take", tok |-> j]            wait until token j is available, then hold it   (harness only)
     [op |-> "pass", tok |-> j]            make the held token j available                 (harness only)
     [op |-> "ready"]                      taskpool_ready()
   Tokens >= 100 are pending actions, the others tasks.  live = tokens created and not yet given back, both
   counted at the fetch_add / cas that publishes the change. *)
EXTENDS Naturals, Integers, Sequences, FiniteSets, TLC
CONSTANTS Thr, Prog, Mut
VARIABLES mon, tasks, pa, ref, cb, cbBy, destroyed, pc, opi, loc, live, avail, rdyDone, rdyRet
vars == <<mon, tasks, pa, ref, cb, cbBy, destroyed, pc, opi, loc, live, avail, rdyDone, rdyRet>>

IsPa(j) == j >= 100
SeqSet(s) == {s[i] : i \in 1..Len(s)}
CurOp(t) == Prog[t][opi[t]]
HasOp(t) == opi[t] <= Len(Prog[t])
IsOp(t, k) == pc[t] = "idle" /\ HasOp(t) /\ CurOp(t).op = k

Init == /\ mon = "NOT_READY" /\ tasks = 0 /\ pa = 0 /\ ref = 1 /\ cb = 0 /\ cbBy = 0 /\ destroyed = 0
        /\ pc = [t \in Thr |-> "idle"] /\ opi = [t \in Thr |-> 1]
        /\ loc = [t \in Thr |-> [v |-> 0, ov |-> 0, nbpa |-> 1]]
        /\ live = {} /\ avail = {} /\ rdyDone = FALSE /\ rdyRet = FALSE

\* the API call returns: tasks announced by it become runnable (E2); the thread parks at the operation boundary
Fin(t) == /\ pc' = [pc EXCEPT ![t] = "idle"]
          /\ opi' = [opi EXCEPT ![t] = @ + 1]
          /\ avail' = IF CurOp(t).op \in {"addtasks", "settasks"} THEN avail \cup SeqSet(CurOp(t).toks) ELSE avail
          /\ rdyRet' = (rdyRet \/ CurOp(t).op = "ready")
Goto(t, p) == pc' = [pc EXCEPT ![t] = p] /\ UNCHANGED <<opi, avail, rdyRet>>

\* ---------------------------------------------------------------- harness-only operations
Take(t) == /\ IsOp(t, "take") /\ CurOp(t).tok \in avail
           /\ avail' = avail \ {CurOp(t).tok}
           /\ opi' = [opi EXCEPT ![t] = @ + 1]
           /\ UNCHANGED <<mon, tasks, pa, ref, cb, cbBy, destroyed, pc, loc, live, rdyDone, rdyRet>>
Pass(t) == /\ IsOp(t, "pass")
           /\ avail' = avail \cup {CurOp(t).tok}
           /\ opi' = [opi EXCEPT ![t] = @ + 1]
           /\ UNCHANGED <<mon, tasks, pa, ref, cb, cbBy, destroyed, pc, loc, live, rdyDone, rdyRet>>

\* ---------------------------------------------------------------- from the operation boundary to the first yield point
\* a task completes only after taskpool_ready() has returned (tasks are not scheduled earlier)
BeginTasks(t) == /\ (IsOp(t, "addtasks") \/ (IsOp(t, "endtask") /\ rdyRet))
                 /\ loc' = [loc EXCEPT ![t] = [v |-> IF CurOp(t).op = "addtasks" THEN Len(CurOp(t).toks) ELSE -1, ov |-> 0, nbpa |-> 1]]
                 /\ Goto(t, "t_fa")
                 /\ UNCHANGED <<mon, tasks, pa, ref, cb, cbBy, destroyed, live, rdyDone>>
BeginPa(t) == /\ (IsOp(t, "addpa") \/ IsOp(t, "relpa"))
              /\ loc' = [loc EXCEPT ![t] = [v |-> IF CurOp(t).op = "addpa" THEN 1 ELSE -1, ov |-> 0, nbpa |-> 1]]
              /\ Goto(t, "p_fa")
              /\ UNCHANGED <<mon, tasks, pa, ref, cb, cbBy, destroyed, live, rdyDone>>
\* ret = nb_tasks ; if( nb_tasks != v ) { ov = nb_tasks ; -> cas }  else return
BeginSetTasks(t) == /\ IsOp(t, "settasks")
                    /\ loc' = [loc EXCEPT ![t] = [v |-> Len(CurOp(t).toks), ov |-> tasks, nbpa |-> 1]]
                    /\ IF tasks # Len(CurOp(t).toks) THEN Goto(t, "st_cas") ELSE Fin(t)
                    /\ UNCHANGED <<mon, tasks, pa, ref, cb, cbBy, destroyed, live, rdyDone>>
BeginSetPa(t) == /\ IsOp(t, "setpa")
                 /\ loc' = [loc EXCEPT ![t] = [v |-> Len(CurOp(t).toks), ov |-> pa, nbpa |-> 1]]
                 /\ Goto(t, "sp_cas")
                 /\ UNCHANGED <<mon, tasks, pa, ref, cb, cbBy, destroyed, live, rdyDone>>
BeginReady(t) == /\ IsOp(t, "ready")
                 /\ Goto(t, "r_cas")
                 /\ UNCHANGED <<mon, tasks, pa, ref, cb, cbBy, destroyed, loc, live, rdyDone>>

\* ---------------------------------------------------------------- counters
AfterTasks(ov, v) == IF ov = 0 /\ v > 0 THEN "t_inc"
                     ELSE IF (IF Mut = "nozero" THEN FALSE ELSE ov + v = 0) /\ ov > 0 THEN "t_dec" ELSE "chk"
FetchAddTasks(t) == /\ pc[t] = "t_fa"
                    /\ tasks' = tasks + loc[t].v
                    /\ live' = IF loc[t].v > 0 THEN live \cup SeqSet(CurOp(t).toks) ELSE live \ {CurOp(t).tok}
                    /\ loc' = [loc EXCEPT ![t].ov = tasks]
                    /\ Goto(t, AfterTasks(tasks, loc[t].v))
                    /\ UNCHANGED <<mon, pa, ref, cb, cbBy, destroyed, rdyDone>>
SetTasksCas(t) == /\ pc[t] = "st_cas"
                  /\ IF tasks = loc[t].ov
                     THEN /\ tasks' = loc[t].v
                          /\ live' = live \cup SeqSet(CurOp(t).toks)
                          /\ Goto(t, IF loc[t].ov = 0 /\ loc[t].v > 0 THEN "t_inc"
                                     ELSE IF loc[t].ov > 0 /\ loc[t].v = 0 THEN "t_dec" ELSE "chk")
                          /\ UNCHANGED loc
                     ELSE /\ loc' = [loc EXCEPT ![t].ov = tasks]          \* do { ov = nb_tasks } while( !cas )
                          /\ UNCHANGED <<tasks, live, pc, opi, avail, rdyRet>>
                  /\ UNCHANGED <<mon, pa, ref, cb, cbBy, destroyed, rdyDone>>
IncPa(t) == /\ pc[t] = "t_inc"
            /\ pa' = pa + 1
            /\ loc' = [loc EXCEPT ![t].nbpa = pa + 1]
            /\ Goto(t, "chk")
            /\ UNCHANGED <<mon, tasks, ref, cb, cbBy, destroyed, live, rdyDone>>
DecPa(t) == /\ pc[t] = "t_dec"
            /\ pa' = pa - 1
            /\ loc' = [loc EXCEPT ![t].nbpa = pa - 1]
            /\ Goto(t, "chk")
            /\ UNCHANGED <<mon, tasks, ref, cb, cbBy, destroyed, live, rdyDone>>
FetchAddPa(t) == /\ pc[t] = "p_fa"
                 /\ pa' = pa + loc[t].v
                 /\ loc' = [loc EXCEPT ![t].nbpa = pa + loc[t].v]
                 /\ live' = IF loc[t].v > 0 THEN live \cup {CurOp(t).tok} ELSE live \ {CurOp(t).tok}
                 /\ Goto(t, "chk")
                 /\ UNCHANGED <<mon, tasks, ref, cb, cbBy, destroyed, rdyDone>>
SetPaCas(t) == /\ pc[t] = "sp_cas"
               /\ IF pa = loc[t].ov
                  THEN /\ pa' = loc[t].v
                       /\ live' = live \cup SeqSet(CurOp(t).toks)
                       /\ loc' = [loc EXCEPT ![t].nbpa = loc[t].v]
                       /\ Goto(t, "chk")
                  ELSE /\ loc' = [loc EXCEPT ![t].ov = pa]
                       /\ UNCHANGED <<pa, live, pc, opi, avail, rdyRet>>
               /\ UNCHANGED <<mon, tasks, ref, cb, cbBy, destroyed, rdyDone>>

\* ---------------------------------------------------------------- detection
\* if( tp->tdm.monitor == BUSY && nbpa == 0 )  -> cas, else return
ChkMon(t) == /\ pc[t] = "chk"
             /\ IF mon = "BUSY" /\ loc[t].nbpa = 0 THEN Goto(t, "cas") ELSE Fin(t)
             /\ UNCHANGED <<mon, tasks, pa, ref, cb, cbBy, destroyed, loc, live, rdyDone>>
ReadyCas(t) == /\ pc[t] = "r_cas"
               /\ mon' = IF mon = "NOT_READY" THEN "BUSY" ELSE mon
               /\ rdyDone' = TRUE
               /\ Goto(t, "r_ret")
               /\ UNCHANGED <<tasks, pa, ref, cb, cbBy, destroyed, loc, live>>
ReadyRetain(t) == /\ pc[t] = "r_ret"
                  /\ ref' = ref + 1
                  /\ Goto(t, "r_read")
                  /\ UNCHANGED <<mon, tasks, pa, cb, cbBy, destroyed, loc, live, rdyDone>>
ReadyRead(t) == /\ pc[t] = "r_read"
                /\ IF (IF Mut = "readytasks" THEN tasks = 0 ELSE pa = 0) THEN Goto(t, "cas") ELSE Fin(t)
                /\ UNCHANGED <<mon, tasks, pa, ref, cb, cbBy, destroyed, loc, live, rdyDone>>
\* cas(monitor, BUSY, TERMINATING) ; on success termination_detected(): the callback runs
CasTerm(t) == /\ pc[t] = "cas"
              /\ IF mon = "BUSY" \/ (Mut = "nocas" /\ mon # "NOT_READY")
                 THEN /\ mon' = "TERMINATING" /\ cb' = cb + 1 /\ cbBy' = t /\ Goto(t, "cb2")
                 ELSE /\ Fin(t) /\ UNCHANGED <<mon, cb, cbBy>>
              /\ UNCHANGED <<tasks, pa, ref, destroyed, loc, live, rdyDone>>
CasTerminated(t) == /\ pc[t] = "cb2"
                    /\ mon' = IF mon = "TERMINATING" THEN "TERMINATED" ELSE mon
                    /\ Goto(t, "rel")
                    /\ UNCHANGED <<tasks, pa, ref, cb, cbBy, destroyed, loc, live, rdyDone>>
\* PARSEC_OBJ_RELEASE(tp): reaching zero runs the destructors
Release(t) == /\ pc[t] = "rel"
              /\ ref' = ref - 1
              /\ destroyed' = destroyed + (IF ref - 1 = 0 THEN 1 ELSE 0)
              /\ Fin(t)
              /\ UNCHANGED <<mon, tasks, pa, cb, cbBy, loc, live, rdyDone>>

Step(t) == \/ Take(t) \/ Pass(t) \/ BeginTasks(t) \/ BeginPa(t) \/ BeginSetTasks(t) \/ BeginSetPa(t) \/ BeginReady(t)
           \/ FetchAddTasks(t) \/ SetTasksCas(t) \/ IncPa(t) \/ DecPa(t) \/ FetchAddPa(t) \/ SetPaCas(t)
           \/ ChkMon(t) \/ ReadyCas(t) \/ ReadyRetain(t) \/ ReadyRead(t) \/ CasTerm(t) \/ CasTerminated(t) \/ Release(t)
Next == \E t \in Thr : Step(t)
Spec == Init /\ [][Next]_vars
FairSpec == Spec /\ WF_vars(Next)

\* ---------------------------------------------------------------- the property
AllDone == \A t \in Thr : ~HasOp(t)
NoLoad == rdyDone /\ tasks = 0 /\ live = {}
CbOnce == cb <= 1
NoEarly == mon \in {"TERMINATING", "TERMINATED"} => NoLoad
Sane == tasks >= 0 /\ pa >= 0 /\ tasks = Cardinality({j \in live : ~IsPa(j)})
\* when everything has run: reported terminated (callback once, state TERMINATED) iff ready and no load is left
FinalOK == AllDone => ((mon = "TERMINATED" /\ cb = 1) <=> NoLoad)
NoStuck == AllDone \/ ENABLED Next
Terminates == <>AllDone
\* refinement of the abstract detector
Abs == INSTANCE Local WITH MaxLoad <- 16, rdy <- rdyDone, nbt <- tasks,
                           nbpa <- Cardinality({j \in live : IsPa(j)}), cbn <- cb
Refines == Abs!LInit /\ [][Abs!LNext]_(Abs!lvars)
\* observation, not part of C10 (DESIGN.md section 6, D5): the reference taken by ready() comes after the CAS that lets
\* another thread detect termination and drop "its" reference first
RefNeverZero == destroyed = 0
=========================================================================
