---------------------------- MODULE UserTrigger ----------------------------
(* C12: user-triggered termination (parsec/mca/termdet/user_trigger/termdet_user_trigger_module.c).

   One process (the "root", known only when the user calls taskpool_set_nb_tasks(tp, 0) there) terminates and
   broadcasts the termination over a binary tree laid out in the world shifted so that the root is rank 0
   (parsec_termdet_signal_termination).  A process that gets the notification terminates and relays it to its
   own children of the same tree.  A notification that arrives before taskpool_ready() is parked on the
   delayed-message list and dispatched by taskpool_ready().

   Actions are named after the C functions:
     Ready(r)      parsec_termdet_user_trigger_taskpool_ready           (+ delayed messages)
     Trigger(r)    taskpool_set_nb_tasks(tp, 0) by the user on r  -> parsec_termdet_signal_termination
     Deliver(s,d)  parsec_termdet_user_trigger_msg_dispatch on d of a message sent by s (any delivery order)

   The property (statement of C12): every process other than the triggering one receives exactly one termination
   notification and no process receives two; the local trigger is the root's own (single) notification, so a
   message that reaches the root is a second one. *)
EXTENDS UserTriggerTree      \* the tree of parsec_termdet_signal_termination + the property predicates (CONSTANT Variant)
CONSTANTS Ns        \* set of communicator sizes explored (the size is chosen by Init)

VARIABLES N,         \* number of processes of this behaviour (never changes)
          st,        \* st[r] \in {"NR", "BUSY", "TERM"}   monitor->state
          notified,  \* number of notifications (calls of msg_dispatch) received by r
          delayed,   \* notifications parked on the delayed-message list of r
          flight,    \* flight[<<s,d>>] = messages sent by s to d and not yet delivered
          root,      \* triggering process, -1 before the trigger
          cb         \* number of times the termination callback of r fired
vars == <<N, st, notified, delayed, flight, root, cb>>
Rank == 0..(N-1)
\* constant superset of Rank (TLC reports coverage per action only when Next quantifies over constant sets)
AllRank == 0..((CHOOSE m \in Ns : \A k \in Ns : k <= m) - 1)

Init == /\ N \in Ns
        /\ st = [r \in Rank |-> "NR"] /\ notified = [r \in Rank |-> 0] /\ delayed = [r \in Rank |-> 0]
        /\ flight = [p \in Rank \X Rank |-> 0] /\ root = -1 /\ cb = [r \in Rank |-> 0]

\* messages sent by r when it runs parsec_termdet_signal_termination knowing the root rt
Sends(r, rt) == LET cs == ChildSeq(N, r, rt) IN
                [p \in Rank \X Rank |-> Cardinality({i \in DOMAIN cs : p = <<r, cs[i]>>})]
Plus(f, g) == [p \in Rank \X Rank |-> f[p] + g[p]]

Ready(r) == /\ r \in Rank /\ st[r] = "NR"
            /\ IF delayed[r] > 0      \* taskpool_ready dispatches the parked notification(s): the first one terminates
               THEN /\ st' = [st EXCEPT ![r] = "TERM"] /\ cb' = [cb EXCEPT ![r] = @ + 1]
                    /\ flight' = Plus(flight, Sends(r, root)) /\ delayed' = [delayed EXCEPT ![r] = 0]
               ELSE /\ st' = [st EXCEPT ![r] = "BUSY"] /\ UNCHANGED <<cb, flight, delayed>>
            /\ UNCHANGED <<N, notified, root>>

Trigger(r) == /\ r \in Rank /\ root = -1 /\ st[r] = "BUSY"
              /\ root' = r /\ st' = [st EXCEPT ![r] = "TERM"] /\ cb' = [cb EXCEPT ![r] = @ + 1]
              /\ flight' = Plus(flight, Sends(r, r))
              /\ UNCHANGED <<N, notified, delayed>>

Deliver(s, d) == /\ s \in Rank /\ d \in Rank /\ flight[<<s, d>>] > 0
                 /\ notified' = [notified EXCEPT ![d] = @ + 1]
                 /\ LET fl == [flight EXCEPT ![<<s, d>>] = @ - 1] IN
                    CASE st[d] = "NR"   -> /\ delayed' = [delayed EXCEPT ![d] = @ + 1] /\ flight' = fl
                                           /\ UNCHANGED <<st, cb>>
                      [] st[d] = "BUSY" -> /\ st' = [st EXCEPT ![d] = "TERM"] /\ cb' = [cb EXCEPT ![d] = @ + 1]
                                           /\ flight' = Plus(fl, Sends(d, root)) /\ UNCHANGED delayed
                      [] st[d] = "TERM" -> /\ flight' = fl /\ UNCHANGED <<st, cb, delayed>>    \* (asserts compiled out)
                 /\ UNCHANGED <<N, root>>

Next == \/ \E r \in AllRank : Ready(r)
        \/ \E r \in AllRank : Trigger(r)
        \/ \E s, d \in AllRank : Deliver(s, d)
Spec == Init /\ [][Next]_vars

Quiet == /\ root # -1 /\ \A r \in Rank : st[r] # "NR" /\ \A p \in Rank \X Rank : flight[p] = 0

\* ---- invariants -------------------------------------------------------------------------------------------------
TypeOK == /\ N \in Ns
          /\ \A r \in Rank : st[r] \in {"NR", "BUSY", "TERM"} /\ notified[r] \in 0..N /\ delayed[r] \in 0..N
          /\ root \in Rank \cup {-1}
AtMostOnce == root # -1 => NoneTwice(N, root, notified)                 \* "no process receives two"
AllNotified == Quiet => EveryOtherOnce(N, root, notified)               \* "every other process receives exactly one"
CbOnce == /\ \A r \in Rank : cb[r] <= 1
          /\ Quiet => \A r \in Rank : cb[r] = 1 /\ st[r] = "TERM"
\* the only states without a successor are the quiet ones: the broadcast always completes
Completes == (~ ENABLED Next) => Quiet
=============================================================================
