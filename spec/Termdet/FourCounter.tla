---------------------------- MODULE FourCounter ----------------------------
(* C11: the four-counter distributed termination detector
   (parsec/mca/termdet/fourcounter/termdet_fourcounter_module.c).

   N processes on a binary tree rooted at 0 (child = 2r+1, 2r+2).  Per process the monitor holds the state
   (NOT_READY, BUSY/IDLE x WAITING_FOR_CHILDREN/PARENT, TERMINATED), the application message counters
   messages_sent / messages_received, the wave accumulators acc_sent / acc_received and nb_child_left; the root
   also last_acc_*_at_root.  An idle process whose children have all contributed sends UP(acc) to its parent
   (parsec_termdet_fourcounter_send_up_messages); the root decides: terminated iff two consecutive waves carry the
   same counts and sent = received, and broadcasts DOWN(result).

   Actions, named after the module functions the environment (runtime + application) calls:
     TaskpoolReady(r)     taskpool_ready (dispatches the messages parked before ready)
     Spawn(r)/TaskDone(r) taskpool_addto_nb_tasks(+1 / -1)            -> check_state_workload_changed
     ActionDone(r)        taskpool_addto_runtime_actions(-1)          -> check_state_workload_changed
     SendApp(r,q)         outgoing_message_start on r (an application message r -> q leaves)
     RecvStart(q)         incoming_message_start on q (the message arrives; idle -> busy)
     RecvEnd(q)           taskpool_addto_runtime_actions(+1) (remote_dep_inc_flying_messages) ; incoming_message_end
     MsgUp/MsgDown(p,r)   parsec_termdet_fourcounter_msg_dispatch of the head of the FIFO control channel p -> r
     MsgDelay(p,r)        the same while r is NOT_READY: parked on the delayed-message list
   Environment contract: every process holds one pending action when taskpool_ready is called (the runtime's start-up
   action); tasks are spawned / messages sent only by a process that has work.

   Safety (statement of C11): no process declares termination unless every process is idle and every application
   message sent has been received.  Liveness: once all processes are permanently idle and nothing is in transit, every
   process eventually declares termination (per-action weak fairness: every enabled delivery / completion
   eventually happens). *)
EXTENDS Naturals, Integers, Sequences, FiniteSets, TLC
CONSTANTS N, MaxMsgs, MaxSpawn,
          Variant      \* "code" | sensitivity self-test "nolast": the root decides without the last_acc_* equality
Rank == 0..(N-1)
NbCh(r) == IF 2*r + 2 < N THEN 2 ELSE IF 2*r + 1 < N THEN 1 ELSE 0      \* topology_nb_children
ChildSeq(r) == [i \in 1..NbCh(r) |-> 2*r + i]                             \* topology_child(i-1)
Parent(r) == (r - 1) \div 2                                                \* topology_parent

VARIABLES st, tasks, pa, sent, recv, accS, accR, left, lastS, lastR,
          ctl,      \* ctl[<<p,q>>]: FIFO of control messages p -> q
          delayed,  \* delayed[r]: control messages parked while r was NOT_READY
          flight,   \* flight[q]: application messages on their way to q
          started,  \* started[q]: application messages between incoming_message_start and incoming_message_end on q
          budgetM, budgetS, cb, assertFail
vars == <<st, tasks, pa, sent, recv, accS, accR, left, lastS, lastR, ctl, delayed, flight, started, budgetM, budgetS, cb, assertFail>>

Init == /\ st = [r \in Rank |-> "NR"] /\ tasks = [r \in Rank |-> 0] /\ pa = [r \in Rank |-> 1]
        /\ sent = [r \in Rank |-> 0] /\ recv = [r \in Rank |-> 0]
        /\ accS = [r \in Rank |-> 0] /\ accR = [r \in Rank |-> 0]
        /\ left = [r \in Rank |-> -1] /\ lastS = -1 /\ lastR = -1
        /\ ctl = [p \in Rank \X Rank |-> <<>>] /\ delayed = [r \in Rank |-> <<>>]
        /\ flight = [r \in Rank |-> 0] /\ started = [r \in Rank |-> 0]
        /\ budgetM = MaxMsgs /\ budgetS = MaxSpawn /\ cb = [r \in Rank |-> 0] /\ assertFail = FALSE

\* ---- the module, as functions on a record w of the protocol variables ----------------------------------------------
World == [st |-> st, accS |-> accS, accR |-> accR, left |-> left, lastS |-> lastS, lastR |-> lastR, ctl |-> ctl,
          cb |-> cb, af |-> assertFail]
Push(c, p, q, m) == [c EXCEPT ![<<p, q>>] = Append(@, m)]
RECURSIVE PushAll(_, _, _, _)
PushAll(c, p, qs, m) == IF qs = <<>> THEN c ELSE PushAll(Push(c, p, Head(qs), m), p, Tail(qs), m)

\* parsec_termdet_fourcounter_send_up_messages
SendUp(w, r) ==
    LET nS == w.accS[r] + sent[r]
        nR == w.accR[r] + recv[r]
        w1 == [w EXCEPT !.accS[r] = nS, !.accR[r] = nR, !.left[r] = NbCh(r)] IN
    IF r = 0 THEN
        LET res == IF NbCh(0) = 0 THEN TRUE
                   ELSE IF Variant = "nolast" THEN nS = nR
                   ELSE (w.lastS = nS /\ w.lastR = nR /\ nS = nR)
            w2 == [w1 EXCEPT !.ctl = PushAll(@, 0, ChildSeq(0), [t |-> "DOWN", res |-> res]),
                             !.lastS = nS, !.lastR = nR,
                             !.af = @ \/ (NbCh(0) = 0 /\ nS # nR)] IN
        IF res THEN [w2 EXCEPT !.st[0] = "TERM", !.cb[0] = @ + 1]
        ELSE [w2 EXCEPT !.accS[0] = 0, !.accR[0] = 0]
    ELSE [w1 EXCEPT !.st[r] = "IWP", !.ctl = Push(@, r, Parent(r), [t |-> "UP", s |-> nS, r |-> nR])]

\* parsec_termdet_fourcounter_check_state_workload_changed, with the new values of nb_tasks / nb_pending_actions
WorkloadChanged(w, r, t, p) ==
    IF t = 0 /\ p = 0
    THEN IF w.st[r] = "BWP" THEN [w EXCEPT !.st[r] = "IWP"]
         ELSE IF w.st[r] = "BWC" THEN LET w1 == [w EXCEPT !.st[r] = "IWC"] IN
                                      IF w1.left[r] = 0 THEN SendUp(w1, r) ELSE w1
         ELSE w
    ELSE IF w.st[r] = "IWC" THEN [w EXCEPT !.st[r] = "BWC"]
         ELSE IF w.st[r] = "IWP" THEN [w EXCEPT !.st[r] = "BWP"]
         ELSE w

\* parsec_termdet_fourcounter_check_state_message_received
MessageReceived(w, r) ==
    IF tasks[r] = 0 /\ pa[r] = 0 /\ w.st[r] = "IWC" /\ w.left[r] = 0 THEN SendUp(w, r) ELSE w

\* parsec_termdet_fourcounter_msg_up
OnUp(w, r, m) ==
    LET w1 == [w EXCEPT !.accS[r] = @ + m.s, !.accR[r] = @ + m.r, !.left[r] = @ - 1,
                        !.af = @ \/ w.left[r] <= 0 \/ w.st[r] = "TERM"] IN
    MessageReceived(w1, r)

\* parsec_termdet_fourcounter_msg_down (what the code does when its asserts are compiled out)
OnDown(w, r, m) ==
    LET w1 == [w EXCEPT !.ctl = PushAll(@, r, ChildSeq(r), m),
                        !.af = @ \/ w.st[r] \notin {"BWP", "IWP"} \/ w.left[r] # NbCh(r) \/ (m.res /\ w.st[r] # "IWP")] IN
    IF m.res THEN [w1 EXCEPT !.st[r] = "TERM", !.cb[r] = @ + 1]
    ELSE LET w2 == [w1 EXCEPT !.accS[r] = 0, !.accR[r] = 0] IN
         IF w2.st[r] = "IWP" THEN MessageReceived([w2 EXCEPT !.st[r] = "IWC"], r)
         ELSE [w2 EXCEPT !.st[r] = "BWC"]

RECURSIVE OnAll(_, _, _)
OnAll(w, r, ms) == IF ms = <<>> THEN w
                   ELSE OnAll(IF Head(ms).t = "UP" THEN OnUp(w, r, Head(ms)) ELSE OnDown(w, r, Head(ms)), r, Tail(ms))

Commit(w) == /\ st' = w.st /\ accS' = w.accS /\ accR' = w.accR /\ left' = w.left /\ lastS' = w.lastS /\ lastR' = w.lastR
             /\ ctl' = w.ctl /\ cb' = w.cb /\ assertFail' = w.af

\* ---- actions ----------------------------------------------------------------------------------------------------------
Busy(r) == tasks[r] + pa[r] > 0

TaskpoolReady(r) ==
    /\ st[r] = "NR" /\ Busy(r)
    /\ Commit(OnAll([World EXCEPT !.st[r] = "BWC", !.left[r] = NbCh(r)], r, delayed[r]))
    /\ delayed' = [delayed EXCEPT ![r] = <<>>]
    /\ UNCHANGED <<tasks, pa, sent, recv, flight, started, budgetM, budgetS>>

Spawn(r) ==
    /\ st[r] \notin {"NR", "TERM"} /\ Busy(r) /\ budgetS > 0
    /\ tasks' = [tasks EXCEPT ![r] = @ + 1] /\ budgetS' = budgetS - 1
    /\ Commit(IF tasks[r] = 0 THEN WorkloadChanged(World, r, 1, pa[r]) ELSE World)
    /\ UNCHANGED <<pa, sent, recv, delayed, flight, started, budgetM>>

TaskDone(r) ==
    /\ st[r] # "NR" /\ tasks[r] > 0
    /\ tasks' = [tasks EXCEPT ![r] = @ - 1]
    /\ Commit(IF tasks[r] = 1 THEN WorkloadChanged(World, r, 0, pa[r]) ELSE World)
    /\ UNCHANGED <<pa, sent, recv, delayed, flight, started, budgetM, budgetS>>

ActionDone(r) ==
    /\ st[r] # "NR" /\ pa[r] > 0
    /\ pa' = [pa EXCEPT ![r] = @ - 1]
    /\ Commit(IF pa[r] = 1 THEN WorkloadChanged(World, r, tasks[r], 0) ELSE World)
    /\ UNCHANGED <<tasks, sent, recv, delayed, flight, started, budgetM, budgetS>>

SendApp(r, q) ==
    /\ st[r] \notin {"NR", "TERM"} /\ tasks[r] > 0 /\ budgetM > 0 /\ r # q
    /\ sent' = [sent EXCEPT ![r] = @ + 1] /\ flight' = [flight EXCEPT ![q] = @ + 1] /\ budgetM' = budgetM - 1
    /\ UNCHANGED <<st, tasks, pa, recv, accS, accR, left, lastS, lastR, ctl, delayed, started, budgetS, cb, assertFail>>

RecvStart(q) ==
    /\ flight[q] > 0 /\ st[q] # "NR"
    /\ flight' = [flight EXCEPT ![q] = @ - 1] /\ started' = [started EXCEPT ![q] = @ + 1]
    /\ st' = [st EXCEPT ![q] = IF @ = "IWC" THEN "BWC" ELSE IF @ = "IWP" THEN "BWP" ELSE @]
    /\ assertFail' = (assertFail \/ st[q] = "TERM")
    /\ UNCHANGED <<tasks, pa, sent, recv, accS, accR, left, lastS, lastR, ctl, delayed, budgetM, budgetS, cb>>

RecvEnd(q) ==
    /\ started[q] > 0
    /\ started' = [started EXCEPT ![q] = @ - 1]
    /\ pa' = [pa EXCEPT ![q] = @ + 1] /\ recv' = [recv EXCEPT ![q] = @ + 1]
    /\ Commit(IF pa[q] = 0 THEN WorkloadChanged(World, q, tasks[q], 1) ELSE World)
    /\ UNCHANGED <<tasks, sent, delayed, flight, budgetM, budgetS>>

HeadIs(p, r, t) == ctl[<<p, r>>] # <<>> /\ Head(ctl[<<p, r>>]).t = t
Popped(p, r) == [World EXCEPT !.ctl[<<p, r>>] = Tail(@)]
MsgUp(p, r) ==
    /\ HeadIs(p, r, "UP") /\ st[r] # "NR"
    /\ Commit(OnUp(Popped(p, r), r, Head(ctl[<<p, r>>])))
    /\ UNCHANGED <<tasks, pa, sent, recv, delayed, flight, started, budgetM, budgetS>>
MsgDown(p, r) ==
    /\ HeadIs(p, r, "DOWN") /\ st[r] # "NR"
    /\ Commit(OnDown(Popped(p, r), r, Head(ctl[<<p, r>>])))
    /\ UNCHANGED <<tasks, pa, sent, recv, delayed, flight, started, budgetM, budgetS>>
MsgDelay(p, r) ==
    /\ ctl[<<p, r>>] # <<>> /\ st[r] = "NR"
    /\ delayed' = [delayed EXCEPT ![r] = Append(@, Head(ctl[<<p, r>>]))]
    /\ ctl' = [ctl EXCEPT ![<<p, r>>] = Tail(@)]
    /\ UNCHANGED <<st, tasks, pa, sent, recv, accS, accR, left, lastS, lastR, flight, started, budgetM, budgetS, cb, assertFail>>

Next == \/ \E r \in Rank : TaskpoolReady(r)
        \/ \E r \in Rank : Spawn(r)
        \/ \E r \in Rank : TaskDone(r)
        \/ \E r \in Rank : ActionDone(r)
        \/ \E r, q \in Rank : SendApp(r, q)
        \/ \E q \in Rank : RecvStart(q)
        \/ \E q \in Rank : RecvEnd(q)
        \/ \E p, r \in Rank : MsgUp(p, r)
        \/ \E p, r \in Rank : MsgDown(p, r)
        \/ \E p, r \in Rank : MsgDelay(p, r)
\* every enabled completion / delivery eventually happens (Spawn and SendApp are choices of the application)
Fair == \A r \in Rank : /\ WF_vars(TaskpoolReady(r)) /\ WF_vars(TaskDone(r)) /\ WF_vars(ActionDone(r))
                         /\ WF_vars(RecvStart(r)) /\ WF_vars(RecvEnd(r))
                         /\ \A p \in Rank : WF_vars(MsgUp(p, r)) /\ WF_vars(MsgDown(p, r)) /\ WF_vars(MsgDelay(p, r))
Spec == Init /\ [][Next]_vars
FairSpec == Spec /\ Fair

\* ---- properties ---------------------------------------------------------------------------------------------------------
\* "every process is idle and every application message sent has been received"
QuietOf(R, t, p, f, s) == \A q \in R : t[q] = 0 /\ p[q] = 0 /\ f[q] = 0 /\ s[q] = 0
Quiet == QuietOf(Rank, tasks, pa, flight, started)
TypeOK == /\ \A r \in Rank : /\ st[r] \in {"NR", "BWC", "BWP", "IWC", "IWP", "TERM"}
                             /\ tasks[r] \in 0..(MaxSpawn + 1) /\ pa[r] \in 0..(MaxMsgs + 1)
                             /\ sent[r] \in 0..MaxMsgs /\ recv[r] \in 0..MaxMsgs
          /\ budgetM \in 0..MaxMsgs /\ budgetS \in 0..MaxSpawn
Safe == \A r \in Rank : st[r] = "TERM" => Quiet                       \* the statement's safety half
Sticky == \A r \in Rank : st[r] = "TERM" => cb[r] = 1                \* declared once
CbOnce == \A r \in Rank : cb[r] <= 1
NoAssert == ~assertFail                                               \* none of the module's asserts would fire
AllTerm == <>(\A r \in Rank : st[r] = "TERM")                        \* the statement's liveness half (under Fair)
Agreement == (\E r \in Rank : st[r] = "TERM") ~> (\A r \in Rank : st[r] = "TERM")
=============================================================================
