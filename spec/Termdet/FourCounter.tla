---------------------------- MODULE FourCounter ----------------------------
(* C11: the four-counter distributed termination detector
   (parsec/mca/termdet/fourcounter/termdet_fourcounter_module.c).

   N processes on a binary tree rooted at 0 (child = 2r+1, 2r+2).  Per process the monitor holds the state
   (NOT_READY, BUSY/IDLE x WAITING_FOR_CHILDREN/PARENT, TERMINATED), the application message counters
   messages_sent / messages_received, the wave accumulators acc_sent / acc_received and nb_child_left; the root
   also last_acc_*_at_root.  An idle process whose children have all contributed sends UP(acc) to its parent
   (parsec_termdet_fourcounter_send_up_messages); the root decides: terminated iff two consecutive waves carry the
   same counts and sent = received, and broadcasts DOWN(result).

   Actions, named after the module functions the environment (runtime + application) calls:
     TaskpoolReady(r)     taskpool_ready (dispatches the messages parked before ready)
     Spawn(r)/TaskDone(r) taskpool_addto_nb_tasks(+1 / -1)            -> check_state_workload_changed
     ActionDone(r)        taskpool_addto_runtime_actions(-1)          -> check_state_workload_changed
     SendApp(r,q)         outgoing_message_start on r (an application message r -> q leaves)
     RecvStart(q)         incoming_message_start on q (the message arrives; idle -> busy)
     RecvEnd(q)           taskpool_addto_runtime_actions(+1) (remote_dep_inc_flying_messages) ; incoming_message_end
                          (remote_dep_release_incoming, last piece of a PTG message, PARSEC_DIST_COLLECTIVES)
     RecvEndTask(q)       taskpool_addto_nb_tasks(+1) ; incoming_message_end: the completion of the message releases a
                          task and takes no flying-message action (remote_dep_release_incoming -> release_deps of the
                          generated code counts the released tasks, then incoming_message_end)
     Spawn(q) while a message is being received: release_deps of a piece that is not the last one of its message
                          (remote_dep_release_incoming with incoming_mask # 0 afterwards) counts the tasks it released
     MsgUp/MsgDown(p,r)   parsec_termdet_fourcounter_msg_dispatch of the head of the FIFO control channel p -> r
     MsgDelay(p,r)        the same while r is NOT_READY: parked on the delayed-message list
   Environment contract: every process holds one pending action when taskpool_ready is called (the runtime's start-up
   action); tasks are spawned only by a process that has work or is receiving a message, messages are sent only by
   a running task.

   variant: "code" = the module as written.  Every other value weakens ONE clause of the module (sensitivity
   self-tests and directed behaviours of C11: TLC hands over the shortest behaviour that ends in an unsafe or a
   stranded state of the weakened protocol, which is then replayed on the real code, see FourCounterSim.tla).
   Found by TLC with <= 2 messages and <= 2 spawned tasks: unsafe or stranded with 2 processes: nolast nolastR noeq su_noleft
   wc_noBWP wc_noBWC wc_noIWC wc_noIWP wc_nosend nt_nozero nt_noret pa_nozero pa_noret up_nocheck down_nocheck; with 3:
   mr_noleft; needs a grandchild (4): down_nofwd.  Neither unsafe nor stranded with 3 processes (redundant clauses): nolastS
   (Mattern: received(previous wave) = sent(this wave) is already sufficient), mr_notasks mr_nopa mr_nost (implied by the
   state), rs_noIWC rs_noIWP (the busy mark of incoming_message_start is re-established by the workload change).

   Safety (statement of C11): no process declares termination unless every process is idle and every application
   message sent has been received.  Liveness: once all processes are permanently idle and nothing is in transit, every
   process eventually declares termination (per-action weak fairness: every enabled delivery / completion
   eventually happens). *)
EXTENDS Naturals, Integers, Sequences, FiniteSets, TLC
CONSTANTS N, MaxMsgs, MaxSpawn,
          Variants     \* the set of protocol variants explored ({"code"} = the module as written)
Rank == 0..(N-1)
NbCh(r) == IF 2*r + 2 < N THEN 2 ELSE IF 2*r + 1 < N THEN 1 ELSE 0      \* topology_nb_children
ChildSeq(r) == [i \in 1..NbCh(r) |-> 2*r + i]                             \* topology_child(i-1)
Parent(r) == (r - 1) \div 2                                                \* topology_parent

VARIABLES st, tasks, pa, sent, recv, accS, accR, left, lastS, lastR,
          ctl,      \* ctl[<<p,q>>]: FIFO of control messages p -> q
          delayed,  \* delayed[r]: control messages parked while r was NOT_READY
          flight,   \* flight[q]: application messages on their way to q
          started,  \* started[q]: application messages between incoming_message_start and incoming_message_end on q
          budgetM, budgetS, cb, assertFail,
          variant   \* which clause of the module is weakened (constant along a behaviour)
vars == <<st, tasks, pa, sent, recv, accS, accR, left, lastS, lastR, ctl, delayed, flight, started, budgetM, budgetS, cb, assertFail,
          variant>>
V(x) == variant = x

Init == /\ st = [r \in Rank |-> "NR"] /\ tasks = [r \in Rank |-> 0] /\ pa = [r \in Rank |-> 1]
        /\ sent = [r \in Rank |-> 0] /\ recv = [r \in Rank |-> 0]
        /\ accS = [r \in Rank |-> 0] /\ accR = [r \in Rank |-> 0]
        /\ left = [r \in Rank |-> -1] /\ lastS = -1 /\ lastR = -1
        /\ ctl = [p \in Rank \X Rank |-> <<>>] /\ delayed = [r \in Rank |-> <<>>]
        /\ flight = [r \in Rank |-> 0] /\ started = [r \in Rank |-> 0]
        /\ budgetM = MaxMsgs /\ budgetS = MaxSpawn /\ cb = [r \in Rank |-> 0] /\ assertFail = FALSE
        /\ variant \in Variants

\* ---- the module, as functions on a record w of the protocol variables ----------------------------------------------
World == [st |-> st, accS |-> accS, accR |-> accR, left |-> left, lastS |-> lastS, lastR |-> lastR, ctl |-> ctl,
          cb |-> cb, af |-> assertFail]
Push(c, p, q, m) == [c EXCEPT ![<<p, q>>] = Append(@, m)]
RECURSIVE PushAll(_, _, _, _)
PushAll(c, p, qs, m) == IF qs = <<>> THEN c ELSE PushAll(Push(c, p, Head(qs), m), p, Tail(qs), m)

\* parsec_termdet_fourcounter_send_up_messages
\*   variants: nolast / nolastS / nolastR / noeq   a conjunct of the root decision dropped (nolast: both last_acc_*)
\*             su_noleft                          nb_child_left is not re-armed
SendUp(w, r) ==
    LET nS == w.accS[r] + sent[r]
        nR == w.accR[r] + recv[r]
        w1 == [w EXCEPT !.accS[r] = nS, !.accR[r] = nR, !.left[r] = IF V("su_noleft") THEN @ ELSE NbCh(r)] IN
    IF r = 0 THEN
        LET res == IF NbCh(0) = 0 THEN TRUE
                   ELSE /\ (V("nolast") \/ V("nolastS") \/ w.lastS = nS)
                        /\ (V("nolast") \/ V("nolastR") \/ w.lastR = nR)
                        /\ (V("noeq") \/ nS = nR)
            w2 == [w1 EXCEPT !.ctl = PushAll(@, 0, ChildSeq(0), [t |-> "DOWN", res |-> res]),
                             !.lastS = nS, !.lastR = nR,
                             !.af = @ \/ (NbCh(0) = 0 /\ nS # nR)] IN
        IF res THEN [w2 EXCEPT !.st[0] = "TERM", !.cb[0] = @ + 1]
        ELSE [w2 EXCEPT !.accS[0] = 0, !.accR[0] = 0]
    ELSE [w1 EXCEPT !.st[r] = "IWP", !.ctl = Push(@, r, Parent(r), [t |-> "UP", s |-> nS, r |-> nR])]

\* parsec_termdet_fourcounter_check_state_workload_changed, with the new values of nb_tasks / nb_pending_actions
\*   variants: wc_noBWP / wc_noBWC / wc_noIWC / wc_noIWP   one of the four state changes dropped
\*             wc_nosend                                  no contribution when the last child already reported
WorkloadChanged(w, r, t, p) ==
    IF t = 0 /\ p = 0
    THEN IF w.st[r] = "BWP" /\ ~V("wc_noBWP") THEN [w EXCEPT !.st[r] = "IWP"]
         ELSE IF w.st[r] = "BWC" /\ ~V("wc_noBWC")
              THEN LET w1 == [w EXCEPT !.st[r] = "IWC"] IN
                   IF w1.left[r] = 0 /\ ~V("wc_nosend") THEN SendUp(w1, r) ELSE w1
         ELSE w
    ELSE IF w.st[r] = "IWC" /\ ~V("wc_noIWC") THEN [w EXCEPT !.st[r] = "BWC"]
         ELSE IF w.st[r] = "IWP" /\ ~V("wc_noIWP") THEN [w EXCEPT !.st[r] = "BWP"]
         ELSE w

\* the slow-path tests of taskpool_addto_nb_tasks / taskpool_addto_runtime_actions: `if (tmp == 0 || ret == 0)`
\*   variants: nt_nozero / nt_noret (nb_tasks), pa_nozero / pa_noret (nb_pending_actions): one disjunct dropped
TasksChanged(w, r, old, new) ==
    IF (old = 0 /\ ~V("nt_nozero")) \/ (new = 0 /\ ~V("nt_noret")) THEN WorkloadChanged(w, r, new, pa[r]) ELSE w
ActionsChanged(w, r, old, new) ==
    IF (old = 0 /\ ~V("pa_nozero")) \/ (new = 0 /\ ~V("pa_noret")) THEN WorkloadChanged(w, r, tasks[r], new) ELSE w

\* parsec_termdet_fourcounter_check_state_message_received
\*   variants: mr_notasks / mr_nopa / mr_nost / mr_noleft   one conjunct dropped
MessageReceived(w, r) ==
    IF /\ (V("mr_notasks") \/ tasks[r] = 0) /\ (V("mr_nopa") \/ pa[r] = 0)
       /\ (V("mr_nost") \/ w.st[r] = "IWC") /\ (V("mr_noleft") \/ w.left[r] = 0)
    THEN SendUp(w, r) ELSE w

\* parsec_termdet_fourcounter_msg_up          variant up_nocheck: the state is not re-examined
OnUp(w, r, m) ==
    LET w1 == [w EXCEPT !.accS[r] = @ + m.s, !.accR[r] = @ + m.r, !.left[r] = @ - 1,
                        !.af = @ \/ w.left[r] <= 0 \/ w.st[r] = "TERM"] IN
    IF V("up_nocheck") THEN w1 ELSE MessageReceived(w1, r)

\* parsec_termdet_fourcounter_msg_down (what the code does when its asserts are compiled out)
\*   variants: down_nocheck (no contribution of an idle process whose children already reported), down_nofwd (DOWN not
\*             forwarded to the children)
OnDown(w, r, m) ==
    LET w1 == [w EXCEPT !.ctl = IF V("down_nofwd") THEN @ ELSE PushAll(@, r, ChildSeq(r), m),
                        !.af = @ \/ w.st[r] \notin {"BWP", "IWP"} \/ w.left[r] # NbCh(r) \/ (m.res /\ w.st[r] # "IWP")] IN
    IF m.res THEN [w1 EXCEPT !.st[r] = "TERM", !.cb[r] = @ + 1]
    ELSE LET w2 == [w1 EXCEPT !.accS[r] = 0, !.accR[r] = 0] IN
         IF w2.st[r] = "IWP" THEN IF V("down_nocheck") THEN [w2 EXCEPT !.st[r] = "IWC"]
                                  ELSE MessageReceived([w2 EXCEPT !.st[r] = "IWC"], r)
         ELSE [w2 EXCEPT !.st[r] = "BWC"]

RECURSIVE OnAll(_, _, _)
OnAll(w, r, ms) == IF ms = <<>> THEN w
                   ELSE OnAll(IF Head(ms).t = "UP" THEN OnUp(w, r, Head(ms)) ELSE OnDown(w, r, Head(ms)), r, Tail(ms))

Commit(w) == /\ st' = w.st /\ accS' = w.accS /\ accR' = w.accR /\ left' = w.left /\ lastS' = w.lastS /\ lastR' = w.lastR
             /\ ctl' = w.ctl /\ cb' = w.cb /\ assertFail' = w.af

\* ---- actions ----------------------------------------------------------------------------------------------------------
Busy(r) == tasks[r] + pa[r] > 0

TaskpoolReady(r) ==
    /\ st[r] = "NR" /\ Busy(r)
    /\ Commit(OnAll([World EXCEPT !.st[r] = "BWC", !.left[r] = NbCh(r)], r, delayed[r]))
    /\ delayed' = [delayed EXCEPT ![r] = <<>>]
    /\ UNCHANGED <<tasks, pa, sent, recv, flight, started, budgetM, budgetS, variant>>

\* a running task or runtime action discovers a task, or a piece of a message that is being received releases one
Spawn(r) ==
    /\ st[r] \notin {"NR", "TERM"} /\ (Busy(r) \/ started[r] > 0) /\ budgetS > 0
    /\ tasks' = [tasks EXCEPT ![r] = @ + 1] /\ budgetS' = budgetS - 1
    /\ Commit(TasksChanged(World, r, tasks[r], tasks[r] + 1))
    /\ UNCHANGED <<pa, sent, recv, delayed, flight, started, budgetM, variant>>

TaskDone(r) ==
    /\ st[r] # "NR" /\ tasks[r] > 0
    /\ tasks' = [tasks EXCEPT ![r] = @ - 1]
    /\ Commit(TasksChanged(World, r, tasks[r], tasks[r] - 1))
    /\ UNCHANGED <<pa, sent, recv, delayed, flight, started, budgetM, budgetS, variant>>

ActionDone(r) ==
    /\ st[r] # "NR" /\ pa[r] > 0
    /\ pa' = [pa EXCEPT ![r] = @ - 1]
    /\ Commit(ActionsChanged(World, r, pa[r], pa[r] - 1))
    /\ UNCHANGED <<tasks, sent, recv, delayed, flight, started, budgetM, budgetS, variant>>

SendApp(r, q) ==
    /\ st[r] \notin {"NR", "TERM"} /\ tasks[r] > 0 /\ budgetM > 0 /\ r # q
    /\ sent' = [sent EXCEPT ![r] = @ + 1] /\ flight' = [flight EXCEPT ![q] = @ + 1] /\ budgetM' = budgetM - 1
    /\ UNCHANGED <<st, tasks, pa, recv, accS, accR, left, lastS, lastR, ctl, delayed, started, budgetS, cb, assertFail, variant>>

\* incoming_message_start            variants rs_noIWC / rs_noIWP: one of the two idle -> busy changes dropped
RecvStart(q) ==
    /\ flight[q] > 0 /\ st[q] # "NR"
    /\ flight' = [flight EXCEPT ![q] = @ - 1] /\ started' = [started EXCEPT ![q] = @ + 1]
    /\ st' = [st EXCEPT ![q] = IF @ = "IWC" /\ ~V("rs_noIWC") THEN "BWC"
                               ELSE IF @ = "IWP" /\ ~V("rs_noIWP") THEN "BWP" ELSE @]
    /\ assertFail' = (assertFail \/ st[q] = "TERM")
    /\ UNCHANGED <<tasks, pa, sent, recv, accS, accR, left, lastS, lastR, ctl, delayed, budgetM, budgetS, cb, variant>>

RecvEnd(q) ==
    /\ started[q] > 0
    /\ started' = [started EXCEPT ![q] = @ - 1]
    /\ pa' = [pa EXCEPT ![q] = @ + 1] /\ recv' = [recv EXCEPT ![q] = @ + 1]
    /\ Commit(ActionsChanged(World, q, pa[q], pa[q] + 1))
    /\ UNCHANGED <<tasks, sent, delayed, flight, budgetM, budgetS, variant>>

RecvEndTask(q) ==
    /\ started[q] > 0 /\ budgetS > 0
    /\ started' = [started EXCEPT ![q] = @ - 1] /\ budgetS' = budgetS - 1
    /\ tasks' = [tasks EXCEPT ![q] = @ + 1] /\ recv' = [recv EXCEPT ![q] = @ + 1]
    /\ Commit(TasksChanged(World, q, tasks[q], tasks[q] + 1))
    /\ UNCHANGED <<pa, sent, delayed, flight, budgetM, variant>>

HeadIs(p, r, t) == ctl[<<p, r>>] # <<>> /\ Head(ctl[<<p, r>>]).t = t
Popped(p, r) == [World EXCEPT !.ctl[<<p, r>>] = Tail(@)]
MsgUp(p, r) ==
    /\ HeadIs(p, r, "UP") /\ st[r] # "NR"
    /\ Commit(OnUp(Popped(p, r), r, Head(ctl[<<p, r>>])))
    /\ UNCHANGED <<tasks, pa, sent, recv, delayed, flight, started, budgetM, budgetS, variant>>
MsgDown(p, r) ==
    /\ HeadIs(p, r, "DOWN") /\ st[r] # "NR"
    /\ Commit(OnDown(Popped(p, r), r, Head(ctl[<<p, r>>])))
    /\ UNCHANGED <<tasks, pa, sent, recv, delayed, flight, started, budgetM, budgetS, variant>>
MsgDelay(p, r) ==
    /\ ctl[<<p, r>>] # <<>> /\ st[r] = "NR"
    /\ delayed' = [delayed EXCEPT ![r] = Append(@, Head(ctl[<<p, r>>]))]
    /\ ctl' = [ctl EXCEPT ![<<p, r>>] = Tail(@)]
    /\ UNCHANGED <<st, tasks, pa, sent, recv, accS, accR, left, lastS, lastR, flight, started, budgetM, budgetS, cb, assertFail, variant>>

Next == \/ \E r \in Rank : TaskpoolReady(r)
        \/ \E r \in Rank : Spawn(r)
        \/ \E r \in Rank : TaskDone(r)
        \/ \E r \in Rank : ActionDone(r)
        \/ \E r, q \in Rank : SendApp(r, q)
        \/ \E q \in Rank : RecvStart(q)
        \/ \E q \in Rank : RecvEnd(q)
        \/ \E q \in Rank : RecvEndTask(q)
        \/ \E p, r \in Rank : MsgUp(p, r)
        \/ \E p, r \in Rank : MsgDown(p, r)
        \/ \E p, r \in Rank : MsgDelay(p, r)
\* every enabled completion / delivery eventually happens (Spawn, SendApp and the way a reception completes are choices
\* of the application; a reception that started eventually completes one way or the other)
RecvCompletes(q) == RecvEnd(q) \/ RecvEndTask(q)
Fair == \A r \in Rank : /\ WF_vars(TaskpoolReady(r)) /\ WF_vars(TaskDone(r)) /\ WF_vars(ActionDone(r))
                         /\ WF_vars(RecvStart(r)) /\ WF_vars(RecvCompletes(r))
                         /\ \A p \in Rank : WF_vars(MsgUp(p, r)) /\ WF_vars(MsgDown(p, r)) /\ WF_vars(MsgDelay(p, r))
Spec == Init /\ [][Next]_vars
FairSpec == Spec /\ Fair

\* ---- properties ---------------------------------------------------------------------------------------------------------
\* "every process is idle and every application message sent has been received"
QuietOf(R, t, p, f, s) == \A q \in R : t[q] = 0 /\ p[q] = 0 /\ f[q] = 0 /\ s[q] = 0
Quiet == QuietOf(Rank, tasks, pa, flight, started)
TypeOK == /\ \A r \in Rank : /\ st[r] \in {"NR", "BWC", "BWP", "IWC", "IWP", "TERM"}
                             /\ tasks[r] \in 0..(MaxSpawn + 1) /\ pa[r] \in 0..(MaxMsgs + 1)
                             /\ sent[r] \in 0..MaxMsgs /\ recv[r] \in 0..MaxMsgs
          /\ budgetM \in 0..MaxMsgs /\ budgetS \in 0..MaxSpawn
Safe == \A r \in Rank : st[r] = "TERM" => Quiet                       \* the statement's safety half
Sticky == \A r \in Rank : st[r] = "TERM" => cb[r] = 1                \* declared once
CbOnce == \A r \in Rank : cb[r] <= 1
NoAssert == ~assertFail                                               \* none of the module's asserts would fire
\* the monitor says busy whenever the process has work (taskpool_state is what the runtime polls)
BusyShown == \A r \in Rank : (Busy(r) /\ st[r] # "NR") => st[r] \in {"BWC", "BWP"}
AllTerm == <>(\A r \in Rank : st[r] = "TERM")                        \* the statement's liveness half (under Fair)
Agreement == (\E r \in Rank : st[r] = "TERM") ~> (\A r \in Rank : st[r] = "TERM")
\* a stranded system: quiet for good, no control message left anywhere, and somebody has not terminated.  Nothing is
\* enabled in such a state, so AllTerm implies NoStrand; weakened variants whose liveness failure is a lost wave
\* (not an endless one) are caught by this invariant with a finite behaviour that can be replayed on the code.
Strand == /\ Quiet /\ \A r \in Rank : st[r] # "NR" /\ delayed[r] = <<>>
          /\ \A c \in Rank \X Rank : ctl[c] = <<>>
          /\ \E r \in Rank : st[r] # "TERM"
NoStrand == ~Strand
=============================================================================
