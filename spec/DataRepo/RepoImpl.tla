---------------------------- MODULE RepoImpl ----------------------------
(* Implementation-shaped model of parsec/datarepo.c (property C25) at the granularity at which its operations can
   interleave: every access to an entry happens inside the critical section of the hash-table bucket lock, so an
   action = one critical section (the harness schedules at exactly these boundaries: operation boundaries and the
   window inside __data_repo_lookup_entry_and_create).
     __data_repo_lookup_entry_and_create:  lock ; find ; hit: retained++ ; unlock ; return          CreateFind (hit)
                                           miss: unlock ; allocate e from the mempool                CreateFind (miss)
                                           lock ; find again ; hit: free e, retained++ | insert e    CreateInsert
     __data_repo_entry_addto_usage_limit:  lock ; usagelmt += n ; retained-- ;
                                           usagelmt == usagecnt && retained == 0: remove, free       AddLimit
     __data_repo_entry_used_once:          lock ; r = ++usagecnt ;
                                           usagelmt == r && retained == 0: remove, free              UsedOnce
     data_repo_lookup_entry:               lock ; find ; unlock                                      Lookup
   Environment = thread programs; a Create/AddLimit pair has an identity c:
     [op |-> "create", c |-> c, k |-> key]    [op |-> "addlimit", c |-> c, k |-> key, n |-> uses announced]
     [op |-> "use", c |-> c, k |-> key]       one of the n uses announced by pair c: waits until create c has returned
     [op |-> "lookup", k |-> key]             observation: is the entry findable ? *)
EXTENDS Naturals, Integers, Sequences, FiniteSets, TLC
CONSTANTS Thr, Prog, Keys, Mut
VARIABLES present, cnt, lmt, ret, rec, pc, opi, created, seen, crashed
vars == <<present, cnt, lmt, ret, rec, pc, opi, created, seen, crashed>>

CurOp(t) == Prog[t][opi[t]]
HasOp(t) == opi[t] <= Len(Prog[t])
IsOp(t, o) == pc[t] = "idle" /\ HasOp(t) /\ CurOp(t).op = o

Init == /\ present = [k \in Keys |-> FALSE] /\ cnt = [k \in Keys |-> 0] /\ lmt = [k \in Keys |-> 0]
        /\ ret = [k \in Keys |-> 0] /\ rec = [k \in Keys |-> 0]
        /\ pc = [t \in Thr |-> "idle"] /\ opi = [t \in Thr |-> 1]
        /\ created = {} /\ seen = [t \in Thr |-> <<>>] /\ crashed = FALSE

Fin(t) == pc' = [pc EXCEPT ![t] = "idle"] /\ opi' = [opi EXCEPT ![t] = @ + 1]
Retain(k) == /\ present' = [present EXCEPT ![k] = TRUE] /\ ret' = [ret EXCEPT ![k] = @ + 1]
             /\ UNCHANGED <<cnt, lmt, rec>>
CreateFind(t) == /\ IsOp(t, "create")
                 /\ IF present[CurOp(t).k]
                    THEN /\ Retain(CurOp(t).k) /\ created' = created \cup {CurOp(t).c} /\ Fin(t)
                    ELSE /\ pc' = [pc EXCEPT ![t] = "window"] /\ UNCHANGED <<present, cnt, lmt, ret, rec, opi, created>>
                 /\ UNCHANGED <<seen, crashed>>
CreateInsert(t) == /\ pc[t] = "window"
                   /\ IF Mut = "norecheck" /\ present[CurOp(t).k]
                      THEN \* a second entry for the key shadows the first: the counts of the first one are lost
                           /\ cnt' = [cnt EXCEPT ![CurOp(t).k] = 0] /\ lmt' = [lmt EXCEPT ![CurOp(t).k] = 0]
                           /\ ret' = [ret EXCEPT ![CurOp(t).k] = 1] /\ UNCHANGED <<present, rec>>
                      ELSE Retain(CurOp(t).k)
                   /\ created' = created \cup {CurOp(t).c} /\ Fin(t)
                   /\ UNCHANGED <<seen, crashed>>
Settle(k, c, l, r) == IF c = l /\ (r = 0 \/ Mut = "noretained")
                      THEN /\ present' = [present EXCEPT ![k] = FALSE] /\ rec' = [rec EXCEPT ![k] = @ + 1]
                           /\ cnt' = [cnt EXCEPT ![k] = 0] /\ lmt' = [lmt EXCEPT ![k] = 0] /\ ret' = [ret EXCEPT ![k] = 0]
                      ELSE /\ cnt' = [cnt EXCEPT ![k] = c] /\ lmt' = [lmt EXCEPT ![k] = l] /\ ret' = [ret EXCEPT ![k] = r]
                           /\ UNCHANGED <<present, rec>>
\* the real functions dereference the entry they expect to find: absent = crash
Crash(t) == crashed' = TRUE /\ Fin(t) /\ UNCHANGED <<present, cnt, lmt, ret, rec, created, seen>>
AddLimit(t) == /\ IsOp(t, "addlimit")
               /\ IF present[CurOp(t).k]
                  THEN /\ Settle(CurOp(t).k, cnt[CurOp(t).k], lmt[CurOp(t).k] + CurOp(t).n, ret[CurOp(t).k] - 1)
                       /\ Fin(t) /\ UNCHANGED <<created, seen, crashed>>
                  ELSE Crash(t)
UsedOnce(t) == /\ IsOp(t, "use") /\ CurOp(t).c \in created
               /\ IF present[CurOp(t).k]
                  THEN /\ Settle(CurOp(t).k, cnt[CurOp(t).k] + 1, lmt[CurOp(t).k], ret[CurOp(t).k])
                       /\ Fin(t) /\ UNCHANGED <<created, seen, crashed>>
                  ELSE Crash(t)
Lookup(t) == /\ IsOp(t, "lookup")
             /\ seen' = [seen EXCEPT ![t] = Append(@, IF present[CurOp(t).k] THEN 1 ELSE 0)]
             /\ Fin(t) /\ UNCHANGED <<present, cnt, lmt, ret, rec, created, crashed>>

Step(t) == CreateFind(t) \/ CreateInsert(t) \/ AddLimit(t) \/ UsedOnce(t) \/ Lookup(t)
Next == \E t \in Thr : Step(t)
Spec == Init /\ [][Next]_vars

AllDone == \A t \in Thr : ~HasOp(t)
NoStuck == AllDone \/ ENABLED Next
NoCrash == ~crashed
Abs == INSTANCE Repo WITH MaxUse <- 64
PresentIff == Abs!PresentIff
Refines == Abs!RInit /\ [][\E k \in Keys : Abs!Create(k) \/ Abs!UsedOnce(k) \/ \E n \in 0..8 : Abs!AddLimit(k, n)]_(Abs!rvars)
=========================================================================
