SPECIFICATION TSpec
CONSTANTS Thr = {1,2,3,4,5,6,7,8}
 Keys = {1,2,3,4}
 MaxUse = 64
INVARIANTS AcceptExit TracePresentIff
CHECK_DEADLOCK FALSE
