SPECIFICATION RSpec
CONSTANTS Keys = {1, 2}
 MaxUse = 3
INVARIANTS PresentIff
CHECK_DEADLOCK FALSE
