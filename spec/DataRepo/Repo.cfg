SPECIFICATION RSpec
CONSTANTS Keys = {1, 2}
 MaxUse = 2
INVARIANTS PresentIff
CHECK_DEADLOCK FALSE
