---------------------------- MODULE RepoTrace ----------------------------
(* Trace validation for C25: is a recorded history of concurrent calls of the real data repository functions a
   behaviour of Repo.tla ?   Events (ndjson, in stamp order):
     {"e":"inv","t":T,"op":"create"|"addlimit"|"use"|"lookup","k":K,"n":N}
     {"e":"res","t":T,"op":..,"k":K,"found":F}     F: lookup result (1 = an entry was found), 1 for create
     {"e":"reclaim","t":T,"k":K}                   the entry of key K is removed from the table and freed (hook at the
                                                   two reclamation sites of datarepo.c, under the bucket lock), in a call of T
     {"e":"end","present":[K,..]}                  keys still findable when every thread has finished
     {"e":"Reset"}
   Between inv and res the silent action Lin(t) applies the call to the abstract repository.  The call whose effect
   makes "no creator holds it and all announced uses happened" true must reclaim the entry before it returns, no other
   call may; a lookup must find the entry exactly when it is present. *)
EXTENDS Repo, Sequences, Json, IOUtils, TLC
CONSTANTS Thr
VARIABLES l, pend
tvars == <<present, cnt, lmt, ret, rec, l, pend>>

TraceLog == ndJsonDeserialize(IOEnv.TRACE)
Ev == TraceLog[l]
IsEv(e) == l <= Len(TraceLog) /\ Ev.e = e /\ l' = l + 1
None == [op |-> "none", k |-> 0, n |-> 0, lin |-> FALSE, found |-> 0, rc |-> 0]      \* rc: 0 no reclaim, 1 owed, 2 seen

TInit == RInit /\ l = 1 /\ pend = [t \in Thr |-> None]
TReset == /\ IsEv("Reset")
          /\ present' = [k \in Keys |-> FALSE] /\ cnt' = [k \in Keys |-> 0] /\ lmt' = [k \in Keys |-> 0]
          /\ ret' = [k \in Keys |-> 0] /\ rec' = [k \in Keys |-> 0] /\ pend' = [t \in Thr |-> None]
TInv == /\ IsEv("inv") /\ Ev.t \in Thr /\ pend[Ev.t] = None /\ Ev.k \in Keys
        /\ Ev.op \in {"create", "addlimit", "use", "lookup"}
        /\ pend' = [pend EXCEPT ![Ev.t] = [op |-> Ev.op, k |-> Ev.k, n |-> Ev.n, lin |-> FALSE, found |-> 0, rc |-> 0]]
        /\ UNCHANGED rvars
Lin(t) == /\ pend[t] # None /\ ~pend[t].lin /\ UNCHANGED l
          /\ LET k == pend[t].k IN
             CASE pend[t].op = "create"   -> /\ Create(k)
                                             /\ pend' = [pend EXCEPT ![t].lin = TRUE, ![t].found = 1]
               [] pend[t].op = "addlimit" -> /\ AddLimit(k, pend[t].n)
                                             /\ pend' = [pend EXCEPT ![t].lin = TRUE, ![t].rc = IF present'[k] THEN 0 ELSE 1]
               [] pend[t].op = "use"      -> /\ UsedOnce(k)
                                             /\ pend' = [pend EXCEPT ![t].lin = TRUE, ![t].rc = IF present'[k] THEN 0 ELSE 1]
               [] pend[t].op = "lookup"   -> /\ UNCHANGED rvars
                                             /\ pend' = [pend EXCEPT ![t].lin = TRUE, ![t].found = IF present[k] THEN 1 ELSE 0]
TReclaim == /\ IsEv("reclaim") /\ Ev.t \in Thr /\ pend[Ev.t] # None /\ pend[Ev.t].lin
            /\ pend[Ev.t].k = Ev.k /\ pend[Ev.t].rc = 1
            /\ pend' = [pend EXCEPT ![Ev.t].rc = 2]
            /\ UNCHANGED rvars
TRes == /\ IsEv("res") /\ Ev.t \in Thr /\ pend[Ev.t] # None /\ pend[Ev.t].lin /\ pend[Ev.t].op = Ev.op /\ pend[Ev.t].k = Ev.k
        /\ pend[Ev.t].rc # 1                                   \* a reclamation owed by this call has happened
        /\ Ev.op \in {"lookup", "create"} => Ev.found = pend[Ev.t].found
        /\ pend' = [pend EXCEPT ![Ev.t] = None]
        /\ UNCHANGED rvars
SeqSet(s) == {s[i] : i \in 1..Len(s)}
TEnd == /\ IsEv("end") /\ \A t \in Thr : pend[t] = None
        /\ SeqSet(Ev.present) = {k \in Keys : present[k]}
        /\ UNCHANGED <<rvars, pend>>

TNext == TReset \/ TInv \/ TReclaim \/ TRes \/ TEnd \/ \E t \in Thr : Lin(t)
TSpec == TInit /\ [][TNext]_tvars

AcceptExit == (l > Len(TraceLog)) => (PrintT("VERIF-ACCEPTED") /\ TLCSet("exit", TRUE))
TracePresentIff == PresentIff
===========================================================================
