---------------------------- MODULE Repo ----------------------------
(* Abstract meaning of a data repository (property C25), as the header comment of parsec/datarepo.h states it.
   Per key: the entry is present or not; while present it counts the uses seen (cnt), the uses announced (lmt) and
   the creators that have not announced their limit yet (ret).
     Create(k)       finds the entry or inserts a fresh one; the caller retains it (ret + 1)
     AddLimit(k, n)  the creator announces n uses and drops its retain (lmt + n, ret - 1)
     UsedOnce(k)     one use happened (cnt + 1)
   The operation that makes  ret = 0 /\ cnt = lmt  true reclaims the entry (never earlier, never later); a later
   Create starts a new incarnation.  rec[k] counts reclamations.
   Environment contract: AddLimit only by a creator that retains the entry; UsedOnce only on a present entry, for
   a use that is announced or will be announced by a creator still retaining it. *)
EXTENDS Naturals
CONSTANTS Keys, MaxUse
VARIABLES present, cnt, lmt, ret, rec
rvars == <<present, cnt, lmt, ret, rec>>

RInit == /\ present = [k \in Keys |-> FALSE] /\ cnt = [k \in Keys |-> 0] /\ lmt = [k \in Keys |-> 0]
         /\ ret = [k \in Keys |-> 0] /\ rec = [k \in Keys |-> 0]
Create(k) == /\ present' = [present EXCEPT ![k] = TRUE]
             /\ ret' = [ret EXCEPT ![k] = @ + 1]
             /\ UNCHANGED <<cnt, lmt, rec>>           \* a fresh entry starts with cnt = lmt = ret = 0: the values kept while absent
Done(k, c, l, r) == c = l /\ r = 0
Settle(k, c, l, r) == IF Done(k, c, l, r)
                      THEN /\ present' = [present EXCEPT ![k] = FALSE] /\ rec' = [rec EXCEPT ![k] = @ + 1]
                           /\ cnt' = [cnt EXCEPT ![k] = 0] /\ lmt' = [lmt EXCEPT ![k] = 0] /\ ret' = [ret EXCEPT ![k] = 0]
                      ELSE /\ cnt' = [cnt EXCEPT ![k] = c] /\ lmt' = [lmt EXCEPT ![k] = l] /\ ret' = [ret EXCEPT ![k] = r]
                           /\ UNCHANGED <<present, rec>>
AddLimit(k, n) == /\ present[k] /\ ret[k] > 0
                  /\ Settle(k, cnt[k], lmt[k] + n, ret[k] - 1)
UsedOnce(k) == /\ present[k]
               /\ Settle(k, cnt[k] + 1, lmt[k], ret[k])
\* bounded (two creators at a time, two incarnations), for model checking the abstract repository alone
RNext == \E k \in Keys : \/ (ret[k] < 2 /\ rec[k] < 2 /\ Create(k))
                         \/ \E n \in 0..MaxUse : lmt[k] + n <= MaxUse /\ AddLimit(k, n)
                         \/ ((ret[k] > 0 \/ cnt[k] < lmt[k]) /\ cnt[k] < MaxUse /\ UsedOnce(k))
RSpec == RInit /\ [][RNext]_rvars

\* findable exactly while a creator holds it or announced uses are missing
PresentIff == \A k \in Keys : present[k] <=> (ret[k] > 0 \/ cnt[k] # lmt[k])
======================================================================
