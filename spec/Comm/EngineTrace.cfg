SPECIFICATION TSpec
CONSTANTS NP = 1
 Tags = {0}
 AmSizes = {0}
 XferSizes = {0}
 MaxOps = 0
 Mixed = TRUE
INVARIANT AcceptExit
CHECK_DEADLOCK FALSE
