---------------------------- MODULE BcastTrace ----------------------------
(* Trace validation for C13.  harness/bcast/bcast_replay.c simulates the whole propagation of one configuration by
   calling the real parsec_remote_dep_activate / parsec_remote_dep_propagate from every virtual rank's point of view
   and logs, per configuration, one line
     {"e":"bcast","topo":T,"n":N,"root":R,"dest":[[ranks of output 1],..],"edges":[[sender,target,[outputs]],..]}
   with the activation messages in the order they were sent (payload = outputs selected as remote_dep_mpi_pack_dep
   selects them).  A line is accepted iff the recorded messages satisfy the statement of C13:
     ExactlyOnce  every destination is the target of exactly one activation, nobody else is,
     DataAvail    (when CheckData) every activation carries every output its target consumes,
   and the log is causal (a sender is the root or was activated before). *)
EXTENDS Bcast, IOUtils
CONSTANTS CheckData
VARIABLES l
tvars == <<l, cfg, pending, elog, nact, done>>

TraceLog == ndJsonDeserialize(IOEnv.TRACE)
Ev == TraceLog[l]
IsEv(e) == l <= Len(TraceLog) /\ Ev.e = e /\ l' = l + 1

CfgOf(ev) == [topo |-> ev.topo, n |-> ev.n, root |-> ev.root, dest |-> [o \in DOMAIN ev.dest |-> ToSet(ev.dest[o])]]
EdgesOf(ev) == [i \in DOMAIN ev.edges |-> <<ev.edges[i][1], ev.edges[i][2], ToSet(ev.edges[i][3])>>]
Causal(c, E) == \A i \in DOMAIN E : E[i][1] = c.root \/ \E j \in 1..(i-1) : E[j][2] = E[i][1]
WellFormed(c) == /\ c.n >= 2 /\ c.root \in 0..(c.n-1)
                 /\ \A o \in DOMAIN c.dest : c.dest[o] \subseteq (0..(c.n-1)) \ {c.root}
LineOK(ev) == LET c == CfgOf(ev)  E == EdgesOf(ev) IN
              /\ WellFormed(c) /\ Causal(c, E)
              /\ ExactlyOnce(c, E)
              /\ (CheckData => DataAvail(c, E))

TInit == l = 1 /\ cfg = <<>> /\ pending = <<>> /\ elog = <<>> /\ nact = 0 /\ done = FALSE
TReset == IsEv("Reset") /\ UNCHANGED <<cfg, pending, elog, nact, done>>
\* ("= TRUE": evaluated as one expression, not unfolded as an action)
TBcast == IsEv("bcast") /\ (LineOK(Ev) = TRUE) /\ UNCHANGED <<cfg, pending, elog, nact, done>>
TNext == TReset \/ TBcast
TSpec == TInit /\ [][TNext]_tvars
AcceptExit == (l > Len(TraceLog)) => (PrintT("VERIF-ACCEPTED") /\ TLCSet("exit", TRUE))
===========================================================================
