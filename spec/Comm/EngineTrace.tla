---------------------------- MODULE EngineTrace ----------------------------
(* Trace validation for C14.  harness/commengine/ce_mpi.c runs on P MPI processes and drives the real engine through
   the parsec_ce table; every process writes its own log.  The check concatenates, per execution,
       {"e":"exec","np":P,"lens":[n0,..]}   followed by the n0 lines of process 0, the n1 lines of process 1, ...
   and this module keeps one cursor per process: the logs are interleaved nondeterministically, constrained only by
   causality (a delivery / completion is enabled once the matching send / issue has been consumed).  No clock is used.

   Events (p = the process that logged the line):
     send(seq,dst,tag,len,sum)            SendAM          deliver(src,seq,tag,len,hlen,sum)   DeliverAM
     put(seq,dst,len,sum)                 Put             putlocal(seq) / putremote(src,seq,len,sum)
     get(seq,src,len,want)                Get             getlocal(seq,len,sum) / getremote(src,seq)
     done                                 end of the workload on p
   Accepted iff every delivery matches exactly one message in flight to that process on that tag with identical length
   and checksum (exactly once, intact), every put/get completion matches one issued transfer with the bytes of the
   source region, and at the end of the execution nothing is left undelivered / incomplete.
   garbage / timeout / Crash lines are never enabled. *)
EXTENDS Engine, IOUtils
VARIABLES base,   \* index of the "exec" line of the current execution
          c       \* c[p]: number of lines of process p consumed
tvars == <<base, c, am, xf, nseq, hist>>

TraceLog == ndJsonDeserialize(IOEnv.TRACE)
Hd == TraceLog[base]
P == 0..(Hd.np - 1)
RECURSIVE SumTo(_, _)
SumTo(s, k) == IF k = 0 THEN 0 ELSE s[k] + SumTo(s, k - 1)
Off(p) == base + SumTo(Hd.lens, p)                   \* line before the first line of process p
EvOf(p) == TraceLog[Off(p) + c[p] + 1]
Has(p) == c[p] < Hd.lens[p + 1] /\ Off(p) + c[p] + 1 <= Len(TraceLog)       \* (truncated logs just get stuck)
EndIdx == base + SumTo(Hd.lens, Hd.np)               \* last line of the execution

TInit == /\ base = 1 /\ TraceLog[1].e = "exec" /\ c = [p \in 0..(TraceLog[1].np - 1) |-> 0]
         /\ am = <<>> /\ xf = <<>> /\ nseq = <<>> /\ hist = <<>>

Step(p) ==
    /\ Has(p)
    /\ LET ev == EvOf(p) IN
       /\ ev.p = p
       /\ CASE ev.e = "send" ->
                 /\ <<p, ev.seq>> \notin DOMAIN am \cup DOMAIN xf /\ ev.dst \in P /\ ev.dst # p
                 /\ am' = Ext(am, <<p, ev.seq>>, [dst |-> ev.dst, tag |-> ev.tag, len |-> ev.len, sum |-> ev.sum, state |-> "flight"])
                 /\ UNCHANGED xf
            [] ev.e = "deliver" ->
                 LET id == <<ev.src, ev.seq>> IN
                 /\ id \in DOMAIN am /\ am[id].state = "flight" /\ am[id].dst = p              \* once, to the right process
                 /\ am[id].tag = ev.tag /\ am[id].len = ev.len /\ ev.hlen = ev.len /\ am[id].sum = ev.sum   \* intact
                 /\ am' = [am EXCEPT ![id].state = "delivered"] /\ UNCHANGED xf
            [] ev.e = "put" ->
                 /\ <<p, ev.seq>> \notin DOMAIN am \cup DOMAIN xf /\ ev.dst \in P
                 /\ xf' = Ext(xf, <<p, ev.seq>>, [kind |-> "put", peer |-> ev.dst, len |-> ev.len, sum |-> ev.sum,
                                                  remote |-> FALSE, local |-> FALSE])
                 /\ UNCHANGED am
            [] ev.e = "get" ->
                 /\ <<p, ev.seq>> \notin DOMAIN am \cup DOMAIN xf /\ ev.src \in P
                 /\ xf' = Ext(xf, <<p, ev.seq>>, [kind |-> "get", peer |-> ev.src, len |-> ev.len, sum |-> ev.want,
                                                  remote |-> FALSE, local |-> FALSE])
                 /\ UNCHANGED am
            [] ev.e = "putlocal" ->
                 LET id == <<p, ev.seq>> IN
                 /\ id \in DOMAIN xf /\ xf[id].kind = "put" /\ ~xf[id].local
                 /\ xf' = [xf EXCEPT ![id].local = TRUE] /\ UNCHANGED am
            [] ev.e = "putremote" ->
                 LET id == <<ev.src, ev.seq>> IN
                 /\ id \in DOMAIN xf /\ xf[id].kind = "put" /\ xf[id].peer = p /\ ~xf[id].remote
                 /\ xf[id].len = ev.len /\ xf[id].sum = ev.sum                                \* exactly the requested bytes
                 /\ xf' = [xf EXCEPT ![id].remote = TRUE] /\ UNCHANGED am
            [] ev.e = "getlocal" ->
                 LET id == <<p, ev.seq>> IN
                 /\ id \in DOMAIN xf /\ xf[id].kind = "get" /\ ~xf[id].local
                 /\ xf[id].len = ev.len /\ xf[id].sum = ev.sum
                 /\ xf' = [xf EXCEPT ![id].local = TRUE] /\ UNCHANGED am
            [] ev.e = "getremote" ->
                 LET id == <<ev.src, ev.seq>> IN
                 /\ id \in DOMAIN xf /\ xf[id].kind = "get" /\ xf[id].peer = p /\ ~xf[id].remote
                 /\ xf' = [xf EXCEPT ![id].remote = TRUE] /\ UNCHANGED am
            [] ev.e = "done" -> UNCHANGED <<am, xf>>
            [] OTHER -> FALSE
    /\ c' = [c EXCEPT ![p] = @ + 1]
    /\ UNCHANGED <<base, nseq, hist>>

\* every process consumed, everything delivered / completed: go to the next execution (or past the end of the log)
TEndExec == /\ \A p \in P : c[p] = Hd.lens[p + 1]
            /\ AllDone
            /\ IF EndIdx + 2 <= Len(TraceLog)
               THEN /\ TraceLog[EndIdx + 1].e = "Reset" /\ TraceLog[EndIdx + 2].e = "exec"
                    /\ base' = EndIdx + 2 /\ c' = [p \in 0..(TraceLog[EndIdx + 2].np - 1) |-> 0]
               ELSE /\ base' = Len(TraceLog) + 1 /\ c' = <<>>
            /\ am' = <<>> /\ xf' = <<>> /\ UNCHANGED <<nseq, hist>>
Finished == base > Len(TraceLog)
TNext == (~Finished /\ \E p \in P : Step(p)) \/ (~Finished /\ TEndExec)
TSpec == TInit /\ [][TNext]_tvars
AcceptExit == Finished => (PrintT("VERIF-ACCEPTED") /\ TLCSet("exit", TRUE))
=============================================================================
