---------------------------- MODULE Engine ----------------------------
(* C14: the communication engine behind the parsec_ce function table (parsec/parsec_mpi_funnelled.c).

   Abstract view (this IS the property): processes exchange
     - active messages: send_am(tag, dst, bytes) on a registered tag; the engine calls the tag's callback on dst with
       exactly those bytes, exactly once;
     - one-sided transfers between registered memory regions: put(lreg -> rreg on dst) and get(lreg <- rreg on dst);
       each moves exactly the bytes of the region and then fires the local completion callback on the origin and the
       remote completion callback on the target, each exactly once.
   A message / transfer is identified by (origin, per-origin sequence number); its content by (len, sum), sum being
   a checksum of the bytes.

   Actions:  SendAM, DeliverAM (callback on the destination), Put / Get (issue), XferRemote (data has moved, remote
   callback), XferLocal (local completion callback).  The workload part (SendAM / Put / Get with size classes) is what
   TLC -simulate hands to the MPI harness; deliveries are the engine's. *)
EXTENDS Naturals, Integers, Sequences, FiniteSets, TLC, Json
CONSTANTS NP,        \* number of processes
          Tags,      \* registered application tags
          AmSizes,   \* size classes of active messages (bytes)
          XferSizes, \* size classes of put/get regions (bytes)
          MaxOps,
          Mixed      \* TRUE: any workload; FALSE: only workloads outside the class MixedDirection (below)
Proc == 0..(NP-1)

VARIABLES am,     \* am[id] for id = <<origin, seq>>: [dst, tag, len, state \in {"flight","delivered"}]
          xf,     \* xf[id]: [kind \in {"put","get"}, peer, len, remote \in BOOLEAN, local \in BOOLEAN]
          nseq,   \* nseq[p]: next sequence number of p
          hist    \* workload issued so far (handed to the harness)
vars == <<am, xf, nseq, hist>>

Init == am = <<>> /\ xf = <<>> /\ nseq = [p \in Proc |-> 0] /\ hist = <<>>
Ext(f, k, v) == [x \in DOMAIN f \cup {k} |-> IF x = k THEN v ELSE f[x]]

\* class of workloads in which the data of a put (p -> q) and of a get issued by q from p travel in the same direction
\* between the same two processes (the two transfers are set up by different initiators)
MixedDirection(h) == \E i, j \in DOMAIN h : /\ h[i].op = "put" /\ h[j].op = "get"
                                              /\ h[i].p = h[j].q /\ h[i].q = h[j].p

SendAM(p, q, t, n) ==
    /\ Len(hist) < MaxOps /\ p # q
    /\ am' = Ext(am, <<p, nseq[p]>>, [dst |-> q, tag |-> t, len |-> n, state |-> "flight"])
    /\ nseq' = [nseq EXCEPT ![p] = @ + 1]
    /\ hist' = Append(hist, [op |-> "am", p |-> p, q |-> q, tag |-> t, len |-> n])
    /\ UNCHANGED xf
DeliverAM(id) ==
    /\ id \in DOMAIN am /\ am[id].state = "flight"
    /\ am' = [am EXCEPT ![id].state = "delivered"]
    /\ UNCHANGED <<xf, nseq, hist>>
Xfer(kind, p, q, n) ==
    /\ Len(hist) < MaxOps /\ p # q
    /\ Mixed \/ ~MixedDirection(Append(hist, [op |-> kind, p |-> p, q |-> q, tag |-> 0, len |-> n]))
    /\ xf' = Ext(xf, <<p, nseq[p]>>, [kind |-> kind, peer |-> q, len |-> n, remote |-> FALSE, local |-> FALSE])
    /\ nseq' = [nseq EXCEPT ![p] = @ + 1]
    /\ hist' = Append(hist, [op |-> kind, p |-> p, q |-> q, tag |-> 0, len |-> n])
    /\ UNCHANGED am
Put(p, q, n) == Xfer("put", p, q, n)
Get(p, q, n) == Xfer("get", p, q, n)
\* the data has moved: callback on the other side (put: the target has the bytes; get: the target served them)
XferRemote(id) == /\ id \in DOMAIN xf /\ ~xf[id].remote /\ xf' = [xf EXCEPT ![id].remote = TRUE]
                  /\ UNCHANGED <<am, nseq, hist>>
\* completion callback on the origin (for a get: the bytes are in the local region)
XferLocal(id) == /\ id \in DOMAIN xf /\ ~xf[id].local /\ xf' = [xf EXCEPT ![id].local = TRUE]
                 /\ UNCHANGED <<am, nseq, hist>>

Ids == {<<p, s>> : p \in Proc, s \in 0..MaxOps}
Next == \/ \E p, q \in Proc, t \in Tags, n \in AmSizes : SendAM(p, q, t, n)
        \/ \E id \in Ids : DeliverAM(id)
        \/ \E p, q \in Proc, n \in XferSizes : Put(p, q, n)
        \/ \E p, q \in Proc, n \in XferSizes : Get(p, q, n)
        \/ \E id \in Ids : XferRemote(id)
        \/ \E id \in Ids : XferLocal(id)
Spec == Init /\ [][Next]_vars

\* ---- the property ---------------------------------------------------------------------------------------------------------
TypeOK == /\ \A id \in DOMAIN am : am[id].state \in {"flight", "delivered"} /\ am[id].dst \in Proc
          /\ \A id \in DOMAIN xf : xf[id].kind \in {"put", "get"} /\ xf[id].peer \in Proc
AllDone == /\ \A id \in DOMAIN am : am[id].state = "delivered"
           /\ \A id \in DOMAIN xf : xf[id].remote /\ xf[id].local
\* every behaviour can be completed: nothing sent stays undelivered for ever (checked as: the only deadlocks are AllDone)
Completes == (~ ENABLED Next) => AllDone
Emit == (Len(hist) = MaxOps) => PrintT(<<"VH", ToJson([ops |-> hist, mixed |-> MixedDirection(hist)])>>)
=======================================================================
