---------------------------- MODULE Bcast ----------------------------
(* C13: collective activation (parsec/remote_dep.c: parsec_remote_dep_activate, the three child predicates;
   parsec/remote_dep.h: remote_dep_rank_to_bit / remote_dep_bit_to_rank; parsec/remote_dep_mpi.c:
   remote_dep_mpi_pack_dep payload selection).

   A task on process `root` has outputs 1..K; output o must reach the set of processes dest[o] (root \notin dest[o]).
   The root calls parsec_remote_dep_activate; every process that receives the activation rebuilds the same
   description (parsec_gather_collective_pattern) and calls parsec_remote_dep_activate from its own point of view
   (parsec_remote_dep_propagate).  Each call walks, output by output, the ranks of dest[o] in bit order (bit
   position = rank relative to the root), numbers the ranks that are not yet marked in the forwarded mask
   (idx), finds its own number (my_idx) and sends to the ranks whose number is a child of my_idx in the configured
   topology.  The forwarded mask (remote_dep_fw_mask) is reset once per call and SHARED by the outputs.
   An activation message from s to d carries the outputs that s holds and d consumes (remote_dep_mpi_pack_dep:
   outgoing_mask of s, rank bit of d).

   The property (statement of C13), as two predicates over the set of activation messages:
     ExactlyOnce : every member of the union of the dest sets is the target of exactly one activation, nobody else is
     DataAvail   : every activation carries every output its target consumes
   (together: each destination receives every output it consumes exactly once, no output twice).

   A configuration is a record [topo, n, root, dest]; TLC runs the propagation of every configuration in Configs. *)
EXTENDS Naturals, Integers, Sequences, FiniteSets, TLC, Json, SequencesExt
CONSTANTS Configs

\* ---- remote_dep.h -------------------------------------------------------------------------------------------
BitOfRank(n, rt, r) == (r + n - rt) % n           \* remote_dep_rank_to_bit (bank*32 + bit)
RankOfBit(n, rt, b) == (b + rt) % n               \* remote_dep_bit_to_rank

\* ---- remote_dep.c: child predicates (me = my_idx, him = idx; -1 = "I do not know my index yet") ---------------
RECURSIVE HighBit(_)
HighBit(x) == IF x <= 1 THEN x ELSE 2 * HighBit(x \div 2)                  \* leftmost one bit of x
Child(topo, me, him) ==
    CASE topo = "star"     -> me = 0                                         \* remote_dep_bcast_star_child
      [] topo = "chain"    -> me # -1 /\ him = me + 1                       \* remote_dep_bcast_chainpipeline_child
      [] topo = "binomial" -> IF him = 0 \/ me = -1 THEN FALSE ELSE him - HighBit(him) = me   \* _binomial_child

\* ---- parsec_remote_dep_activate from the point of view of process `me` -----------------------------------------
Outs(c) == DOMAIN c.dest
PropMask(c) == {o \in Outs(c) : c.dest[o] # {}}          \* propagation_mask: outputs with at least one remote target
\* the bit walk of one output o; acc = [fw |-> forwarded ranks, idx, my, sends |-> sequence of ranks sent to]
RECURSIVE Inner(_, _, _, _, _)
Inner(c, me, o, b, acc) ==
    IF b > c.n - 1 THEN acc
    ELSE LET r == RankOfBit(c.n, c.root, b) IN
         IF r \notin c.dest[o] \/ r \in acc.fw THEN Inner(c, me, o, b + 1, acc)       \* no bit / already forwarded
         ELSE LET idx == acc.idx + 1 IN
              IF acc.my = -1                                                           \* "skip", maybe it is me
              THEN Inner(c, me, o, b + 1, [acc EXCEPT !.idx = idx, !.my = IF r = me THEN idx ELSE -1,
                                                      !.fw = @ \cup {r}])
              ELSE Inner(c, me, o, b + 1, [acc EXCEPT !.idx = idx, !.fw = @ \cup {r},
                                                      !.sends = IF Child(c.topo, acc.my, idx) THEN Append(@, r) ELSE @])
RECURSIVE Outer(_, _, _, _)
Outer(c, me, o, acc) ==
    IF o > Len(c.dest) THEN acc.sends
    ELSE IF o \notin PropMask(c) THEN Outer(c, me, o + 1, acc)
    ELSE Outer(c, me, o + 1, Inner(c, me, o, 0, [acc EXCEPT !.idx = 0, !.my = IF me = c.root THEN 0 ELSE -1]))
\* ranks `me` sends the activation to, in order (the forwarded mask starts with the root and is never reset)
SendsOf(c, me) == Outer(c, me, 1, [fw |-> {c.root}, idx |-> 0, my |-> -1, sends |-> <<>>])

\* ---- who holds / needs what ---------------------------------------------------------------------------------
AllDest(c) == UNION {c.dest[o] : o \in Outs(c)}
Need(c, r) == {o \in Outs(c) : r \in c.dest[o]}                 \* outputs r consumes (= outgoing_mask of a relay)
Has(c, p) == IF p = c.root THEN PropMask(c) ELSE Need(c, p)
Payload(c, s, d) == {o \in Has(c, s) : d \in c.dest[o]}         \* remote_dep_mpi_pack_dep

\* ---- the property, over a sequence E of activations <<sender, target, payload>> ----------------------------------
ExactlyOnce(c, E) == /\ \A r \in AllDest(c) : Cardinality({i \in DOMAIN E : E[i][2] = r}) = 1
                     /\ \A i \in DOMAIN E : E[i][2] \in AllDest(c)
DataAvail(c, E) == \A i \in DOMAIN E : Need(c, E[i][2]) \subseteq E[i][3]
\* the class of known finding D8 ("relay-lacks-output"): some rank is reached through a relay that does not
\* consume an output the rank needs
RelayLacksOutput(c, E) == \E i \in DOMAIN E : E[i][1] # c.root /\ ~(Need(c, E[i][2]) \subseteq Need(c, E[i][1]))

\* ---- the propagation as a state machine ------------------------------------------------------------------------
VARIABLES cfg,      \* the configuration of this behaviour
          pending,  \* FIFO of processes that hold an activation and have not run parsec_remote_dep_activate yet
          elog,     \* activations sent so far
          nact,     \* calls of parsec_remote_dep_activate
          done
vars == <<cfg, pending, elog, nact, done>>

Init == /\ cfg \in Configs /\ pending = <<cfg.root>> /\ elog = <<>> /\ nact = 0 /\ done = FALSE
\* the next process runs parsec_remote_dep_activate (the set of messages does not depend on the order: canonical FIFO)
Activate == /\ pending # <<>> /\ nact <= 2 * cfg.n
            /\ LET me == Head(pending)
                   s == SendsOf(cfg, me) IN
               /\ elog' = elog \o [i \in DOMAIN s |-> <<me, s[i], Payload(cfg, me, s[i])>>]
               /\ pending' = Tail(pending) \o s
            /\ nact' = nact + 1 /\ UNCHANGED <<cfg, done>>
Finish == /\ pending = <<>> /\ ~done /\ done' = TRUE /\ UNCHANGED <<cfg, pending, elog, nact>>
Next == Activate \/ Finish
Spec == Init /\ [][Next]_vars

\* ---- invariants ---------------------------------------------------------------------------------------------------
AllEqual(c) == \A o1, o2 \in PropMask(c) : c.dest[o1] = c.dest[o2]
Terminates == nact <= cfg.n                                                   \* nobody activates twice
ExactlyOnceInv == done => ExactlyOnce(cfg, elog)
DataAvailInv == done => DataAvail(cfg, elog)                  \* NOT an invariant of the code as it is: see D8
StarOK == (done /\ cfg.topo = "star") => DataAvail(cfg, elog)
EqualSetsOK == (done /\ AllEqual(cfg)) => DataAvail(cfg, elog)             \* one output, or coinciding dest sets
ClassIsDataFailure == done => (RelayLacksOutput(cfg, elog) <=> ~DataAvail(cfg, elog))

\* hand every configuration with its verdicts and its predicted messages to the check
Sorted(S) == SetToSortSeq(S, LAMBDA a, b : a < b)
Emit == done => PrintT(<<"VH", ToJson([topo |-> cfg.topo, n |-> cfg.n, root |-> cfg.root,
                                        dest |-> [o \in Outs(cfg) |-> Sorted(cfg.dest[o])],
                                        eo |-> ExactlyOnce(cfg, elog), da |-> DataAvail(cfg, elog),
                                        cls |-> RelayLacksOutput(cfg, elog),
                                        edges |-> [i \in DOMAIN elog |-> <<elog[i][1], elog[i][2], Sorted(elog[i][3])>>]])>>)
=======================================================================
