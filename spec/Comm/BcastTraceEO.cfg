SPECIFICATION TSpec
CONSTANTS Configs = {}
 CheckData = FALSE
INVARIANT AcceptExit
CHECK_DEADLOCK FALSE
