---------------------------- MODULE EngineImpl ----------------------------
(* C14, implementation-shaped model of the DYNAMIC REQUEST WINDOW of the funnelled MPI engine
   (parsec/parsec_mpi_funnelled.c): the part of array_of_requests behind mpi_funnelled_static_req_idx that holds the
   Isend / Irecv of the one-sided transfers and is handed to MPI_Testsome.

   Parameters (mpi_funnelled_normalize_params):  runtime_comm_mpi_dynamic_requests = pd,
   runtime_comm_mpi_dynamic_recv_requests = pr  ->  D slots in total, at most R of them may hold receives.
       pd <= 0 -> 30;  pd < 2 -> 2;  pr <= 0 -> max(1, D/2);  pr >= D -> D-1      ("always keep one slot for sends")

   A transfer is a 3-message handshake:
     get by o from t:  mpi_no_thread_get on o: send_am(GET_TAG_INTERNAL) to t, MPI_Irecv on o (the request is installed in
                       a free slot if mpi_funnelled_can_post_dynamic_recv(), else parked in dynamic_recvreq_fifo);
                       mpi_funnelled_internal_get_am_callback on t: MPI_Isend in a free slot, else the send is parked in
                       dynamic_sendreq_fifo (NOT posted to MPI);
                       completion of the Isend on t = remote callback, completion of the Irecv on o = local callback.
     put by o to t:    mpi_no_thread_put on o: send_am(PUT_TAG_INTERNAL) to t, MPI_Isend in a free slot else parked;
                       mpi_funnelled_internal_put_am_callback on t: MPI_Irecv, installed if can_post_dynamic_recv() else parked;
                       completion of the Isend on o = local callback, completion of the Irecv on t = remote callback.
   A request is seen complete by MPI_Testsome only while it sits in a slot.  A receive completes once the matching
   Isend has been posted; a send completes once the matching Irecv exists (rendezvous) - a small one (class "s") may also
   complete before that (eager).  After the callbacks of a round mpi_no_thread_progress compacts the region and calls
   mpi_no_thread_push_posted_req while a slot is free: a parked receive first if fewer than R receives are installed
   (R > num_recv_req_in_arr), else a parked send.

   variant (sensitivity: the weakened models MUST deadlock; their stuck behaviours are also used as workloads):
     "ok"      the code as it is
     "nocap"   normalize_params as it was before commit 8b92ffd: pr is only capped to D (defect E2: R = D possible)
     "pushge"  push_posted_req admits a parked receive when R >= num_recv_req_in_arr (one receive more than R)

   Checked by TLC: TypeOK, WindowOK (at most D requests installed, at most R receives, R < D) and NoDeadlock: while a
   transfer is incomplete some engine step is possible - for EVERY workload within the bound and every order of message
   arrival / completion.  The same module, in simulation mode, generates the workloads that load the window most
   (history variable peak) for the replay on the real engine. *)
EXTENDS Naturals, Integers, Sequences, FiniteSets, TLC, Json
CONSTANTS NP,        \* number of processes
          Settings,  \* set of <<pd, pr>>: values of the two runtime parameters
          MaxOps,    \* total number of operations of a workload
          MaxPer,    \* ... per process
          Kinds,     \* subset of {"get", "put", "am"}
          Classes,   \* subset of {"s", "l"}: small (eager) / large (rendezvous) payload
          Variants   \* subset of {"ok", "nocap", "pushge"}: the code as it is / weakened models (below)
Proc == 0..(NP-1)

VARIABLES variant,   \* which model of the window logic this behaviour follows
          pd, pr,    \* the parameters of this run
          xs,        \* xs[p][k]: the k-th operation issued by p: [kind, o, t, cls, am, snd, rcv]; its id is <<p, k>>
          rq, sq,    \* per process: dynamic_recvreq_fifo, dynamic_sendreq_fifo (ids)
          ord,       \* history: the processes in the order in which they issued (the workload = xs read in this order)
          peak       \* history: deepest simultaneous overflow seen (second largest queue depth over the processes)
vars == <<variant, pd, pr, xs, rq, sq, ord, peak>>

\* ---- mpi_funnelled_normalize_params --------------------------------------------------------------------------------------
NormD(d0) == LET d == IF d0 <= 0 THEN 30 ELSE d0 IN IF variant # "nocap" /\ d < 2 THEN 2 ELSE d
NormR(d0, r0) == LET d == NormD(d0)
                     h == IF d \div 2 <= 0 THEN 1 ELSE d \div 2
                     r == IF r0 <= 0 THEN h ELSE r0
                 IN  IF variant = "nocap" THEN (IF r > d THEN d ELSE r) ELSE (IF r >= d THEN d - 1 ELSE r)
D == NormD(pd)
R == NormR(pd, pr)

\* ---- the window ------------------------------------------------------------------------------------------------------------
Ids == {<<p, k>> : p \in Proc, k \in 1..MaxPer}
IdsOf(X) == {id \in Ids : id[2] <= Len(X[id[1]])}
At(X, id) == X[id[1]][id[2]]
Sender(x)   == IF x.kind = "get" THEN x.t ELSE x.o
Receiver(x) == IF x.kind = "get" THEN x.o ELSE x.t
Installed(X, p) == {id \in IdsOf(X) : \/ Sender(At(X, id)) = p /\ At(X, id).snd = "slot"
                                      \/ Receiver(At(X, id)) = p /\ At(X, id).rcv = "slot"}
NumRecv(X, p) == Cardinality({id \in IdsOf(X) : Receiver(At(X, id)) = p /\ At(X, id).rcv = "slot"})   \* num_recv_req_in_arr
Free(X, p) == Cardinality(Installed(X, p)) < D                          \* last_active_req < current_size_of_total_reqs
CanPostRecv(X, p) == Free(X, p) /\ NumRecv(X, p) < R                   \* mpi_funnelled_can_post_dynamic_recv
SetSnd(X, id, v) == [X EXCEPT ![id[1]][id[2]].snd = v]
SetRcv(X, id, v) == [X EXCEPT ![id[1]][id[2]].rcv = v]

\* the loop at feed_more_work in mpi_no_thread_progress: mpi_no_thread_push_posted_req while a slot is free
RECURSIVE PushLoop(_, _)
PushLoop(st, p) ==
    IF ~Free(st.xs, p) \/ (st.rq[p] = <<>> /\ st.sq[p] = <<>>) THEN st
    ELSE LET n == NumRecv(st.xs, p)
             admit == IF variant = "pushge" THEN R >= n ELSE R > n
         IN IF admit /\ st.rq[p] # <<>>
            THEN PushLoop([xs |-> SetRcv(st.xs, Head(st.rq[p]), "slot"), rq |-> [st.rq EXCEPT ![p] = Tail(@)], sq |-> st.sq], p)
            ELSE IF st.sq[p] # <<>>
            THEN PushLoop([xs |-> SetSnd(st.xs, Head(st.sq[p]), "slot"), rq |-> st.rq, sq |-> [st.sq EXCEPT ![p] = Tail(@)]], p)
            ELSE st
Second(f) == LET m == CHOOSE p \in Proc : \A q \in Proc : f[p] >= f[q]
                 q == CHOOSE q \in Proc \ {m} : \A r \in Proc \ {m} : f[q] >= f[r]
             IN  f[q]
Commit(st) == /\ xs' = st.xs /\ rq' = st.rq /\ sq' = st.sq
              /\ LET s == Second([p \in Proc |-> Len(st.rq[p]) + Len(st.sq[p])]) IN peak' = IF s > peak THEN s ELSE peak
              /\ UNCHANGED <<variant, pd, pr>>

Init == /\ variant \in Variants
        /\ \E s \in Settings : pd = s[1] /\ pr = s[2]
        /\ xs = [p \in Proc |-> <<>>] /\ rq = [p \in Proc |-> <<>>] /\ sq = [p \in Proc |-> <<>>] /\ ord = <<>> /\ peak = 0

\* mpi_no_thread_get / mpi_no_thread_put / send_am called by the user of the engine on process p
Issue(p, q, k, c) ==
    /\ Len(ord) < MaxOps /\ Len(xs[p]) < MaxPer /\ p # q
    /\ ord' = Append(ord, p)
    /\ LET id == <<p, Len(xs[p]) + 1>>
           x0 == [kind |-> k, o |-> p, t |-> q, cls |-> c, am |-> "flight", snd |-> "none", rcv |-> "none"]
           Add(x) == [xs EXCEPT ![p] = Append(@, x)]
       IN CASE k = "get" ->
                 IF CanPostRecv(xs, p)
                 THEN Commit([xs |-> Add([x0 EXCEPT !.rcv = "slot"]), rq |-> rq, sq |-> sq])
                 ELSE Commit([xs |-> Add([x0 EXCEPT !.rcv = "queued"]), rq |-> [rq EXCEPT ![p] = Append(@, id)], sq |-> sq])
            [] k = "put" ->
                 IF Free(xs, p)
                 THEN Commit([xs |-> Add([x0 EXCEPT !.snd = "slot"]), rq |-> rq, sq |-> sq])
                 ELSE Commit([xs |-> Add([x0 EXCEPT !.snd = "queued"]), rq |-> rq, sq |-> [sq EXCEPT ![p] = Append(@, id)]])
            [] OTHER ->           \* "am": an application active message, no dynamic request
                 Commit([xs |-> Add([x0 EXCEPT !.snd = "done", !.rcv = "done"]), rq |-> rq, sq |-> sq])
\* the handshake message reaches the target: internal get / put callback (messages of one kind between two processes
\* arrive in order); an application message is delivered
AmEn(id) == /\ id \in IdsOf(xs) /\ At(xs, id).am = "flight"
            /\ \A j \in 1..(id[2]-1) : LET y == xs[id[1]][j] IN
                     (y.t = At(xs, id).t /\ y.kind = At(xs, id).kind) => y.am = "done"
AmArrive(id) ==
    /\ AmEn(id)
    /\ LET x == At(xs, id)
           q == x.t
           X == [xs EXCEPT ![id[1]][id[2]].am = "done"]
       IN CASE x.kind = "get" ->
                 IF Free(xs, q) THEN Commit([xs |-> SetSnd(X, id, "slot"), rq |-> rq, sq |-> sq])
                 ELSE Commit([xs |-> SetSnd(X, id, "queued"), rq |-> rq, sq |-> [sq EXCEPT ![q] = Append(@, id)]])
            [] x.kind = "put" ->
                 IF CanPostRecv(xs, q) THEN Commit([xs |-> SetRcv(X, id, "slot"), rq |-> rq, sq |-> sq])
                 ELSE Commit([xs |-> SetRcv(X, id, "queued"), rq |-> [rq EXCEPT ![q] = Append(@, id)], sq |-> sq])
            [] OTHER -> Commit([xs |-> X, rq |-> rq, sq |-> sq])
    /\ UNCHANGED ord
\* MPI_Testsome reports the Isend of transfer id complete: callback (put: local, get: remote), slot freed, queues fed
SendEn(id) == id \in IdsOf(xs) /\ At(xs, id).snd = "slot" /\ (At(xs, id).cls = "s" \/ At(xs, id).rcv # "none")
SendDone(id) ==
    /\ SendEn(id)
    /\ Commit(PushLoop([xs |-> SetSnd(xs, id, "done"), rq |-> rq, sq |-> sq], Sender(At(xs, id))))
    /\ UNCHANGED ord
\* MPI_Testsome reports the Irecv of transfer id complete: callback (get: local, put: remote), slot freed, queues fed
RecvEn(id) == id \in IdsOf(xs) /\ At(xs, id).rcv = "slot" /\ At(xs, id).snd \in {"slot", "done"}
RecvDone(id) ==
    /\ RecvEn(id)
    /\ Commit(PushLoop([xs |-> SetRcv(xs, id, "done"), rq |-> rq, sq |-> sq], Receiver(At(xs, id))))
    /\ UNCHANGED ord
\* a call of progress in which nothing completed still runs the loop at feed_more_work
FeedEn(p) == PushLoop([xs |-> xs, rq |-> rq, sq |-> sq], p).xs # xs
Feed(p) == FeedEn(p) /\ Commit(PushLoop([xs |-> xs, rq |-> rq, sq |-> sq], p)) /\ UNCHANGED ord

Next == \/ \E p, q \in Proc, k \in Kinds, c \in Classes : Issue(p, q, k, c)
        \/ \E id \in Ids : AmArrive(id)
        \/ \E id \in Ids : SendDone(id)
        \/ \E id \in Ids : RecvDone(id)
        \/ \E p \in Proc : Feed(p)
Spec == Init /\ [][Next]_vars

\* ---- properties --------------------------------------------------------------------------------------------------------------
States == {"none", "queued", "slot", "done"}
TypeOK == /\ \A id \in IdsOf(xs) : At(xs, id).snd \in States /\ At(xs, id).rcv \in States /\ At(xs, id).am \in {"flight", "done"}
          /\ \A p \in Proc : /\ \A k \in 1..Len(rq[p]) : At(xs, rq[p][k]).rcv = "queued" /\ Receiver(At(xs, rq[p][k])) = p
                             /\ \A k \in 1..Len(sq[p]) : At(xs, sq[p][k]).snd = "queued" /\ Sender(At(xs, sq[p][k])) = p
\* what normalize_params and the two admission tests are there for
WindowOK == /\ 1 <= R /\ R < D
            /\ \A p \in Proc : Cardinality(Installed(xs, p)) <= D /\ NumRecv(xs, p) <= R
            \* a parked send always finds the window full (sends are never held back by the receive share)
            /\ \A p \in Proc : sq[p] # <<>> => ~Free(xs, p)
Complete(x) == x.am = "done" /\ x.snd = "done" /\ x.rcv = "done"
AllDone == \A id \in IdsOf(xs) : Complete(At(xs, id))
EngineCanMove == \/ \E id \in IdsOf(xs) : AmEn(id) \/ SendEn(id) \/ RecvEn(id)
                 \/ \E p \in Proc : FeedEn(p)
\* no workload, however it is interleaved with the engine, gets stuck: every transfer can still complete
NoDeadlock == AllDone \/ EngineCanMove

\* ---- refinement: the window model implements the abstract engine (Engine.tla = the property) ---------------------------------------
\* get: Isend done on the owner = remote completion, Irecv done on the origin = local completion; put: the other way round;
\* the arrival of a handshake message and the feeding of the queues are invisible
LenOf(k, c) == IF c = "s" THEN 8 ELSE IF k = "am" THEN 1000 ELSE 65536
AbsIds(isAm) == {<<id[1], id[2] - 1>> : id \in {i \in IdsOf(xs) : (At(xs, i).kind = "am") = isAm}}
AbsAm == [a \in AbsIds(TRUE) |-> LET x == xs[a[1]][a[2] + 1] IN
             [dst |-> x.t, tag |-> 0, len |-> LenOf("am", x.cls), state |-> IF x.am = "done" THEN "delivered" ELSE "flight"]]
AbsXf == [a \in AbsIds(FALSE) |-> LET x == xs[a[1]][a[2] + 1] IN
             [kind |-> x.kind, peer |-> x.t, len |-> LenOf(x.kind, x.cls),
              remote |-> IF x.kind = "get" THEN x.snd = "done" ELSE x.rcv = "done",
              local  |-> IF x.kind = "get" THEN x.rcv = "done" ELSE x.snd = "done"]]
RECURSIVE AbsMerge(_, _)
AbsMerge(o, cnt) == IF o = <<>> THEN <<>>
                    ELSE LET p == Head(o)
                             x == xs[p][cnt[p] + 1]
                         IN <<[op |-> x.kind, p |-> x.o, q |-> x.t, tag |-> 0, len |-> LenOf(x.kind, x.cls)]>>
                            \o AbsMerge(Tail(o), [cnt EXCEPT ![p] = @ + 1])
Abs == INSTANCE Engine WITH Tags <- {0}, AmSizes <- {LenOf("am", c) : c \in Classes}, XferSizes <- {LenOf("get", c) : c \in Classes},
                            Mixed <- TRUE,
                            am <- AbsAm, xf <- AbsXf, nseq <- [p \in Proc |-> Len(xs[p])],
                            hist <- AbsMerge(ord, [p \in Proc |-> 0])
Refines == Abs!Spec

\* ---- workloads for the real engine (simulation mode) -----------------------------------------------------------------------------
RECURSIVE Merge(_, _)
Merge(o, cnt) == IF o = <<>> THEN <<>>
                 ELSE LET p == Head(o)
                          x == xs[p][cnt[p] + 1]
                      IN <<[op |-> x.kind, p |-> x.o, q |-> x.t, cls |-> x.cls]>> \o Merge(Tail(o), [cnt EXCEPT ![p] = @ + 1])
Ops == Merge(ord, [p \in Proc |-> 0])
\* a complete workload: everything finished, or (weakened models) the engine is stuck for ever
Emit == (Len(ord) = MaxOps /\ (AllDone \/ ~EngineCanMove)) =>
            PrintT(<<"VH", ToJson([ops |-> Ops, peak |-> peak, pd |-> pd, pr |-> pr, np |-> NP, variant |-> variant,
                                   stuck |-> ~AllDone])>>)
NoHist == <<variant, pd, pr, xs, rq, sq>>
=======================================================================
