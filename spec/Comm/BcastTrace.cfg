SPECIFICATION TSpec
CONSTANTS Configs = {}
 CheckData = TRUE
INVARIANT AcceptExit
CHECK_DEADLOCK FALSE
