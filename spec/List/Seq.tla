---------------------------- MODULE Seq ----------------------------
(* Abstract meaning of parsec/class/list.h, list_item.h, dequeue.h, fifo.h (property C31).
     lst    the list, head first; items are positive integers with a fixed priority Prio[i]
     ring   a ring of items outside any list (parsec_list_item_ring_push_sorted), the returned head first
   dequeue.h and fifo.h are thin wrappers of the list functions (fifo push = push_back, fifo pop = pop_front):
   the harness maps them onto the same operations (the operation names keep the prefix).
   `hist` records the operations; it is the behaviour handed to the replay harness. *)
EXTENDS Naturals, Integers, Sequences, FiniteSets, TLC, Json
CONSTANTS Items, Prio, MaxLen, MaxChain,
          Ops,      \* the operations a configuration uses (names as in hist)
          Canon     \* TRUE: items are interchangeable (equal priorities): free items are taken in increasing order
VARIABLES lst, ring, hist
vars == <<lst, ring, hist>>

Elems(s) == {s[i] : i \in 1..Len(s)}
NoDup(s) == \A i, j \in 1..Len(s) : i # j => s[i] # s[j]
Free == Items \ (Elems(lst) \cup Elems(ring))
\* non-increasing / non-decreasing priority
Desc(s) == \A i, j \in 1..Len(s) : i < j => Prio[s[i]] >= Prio[s[j]]
Asc(s) == \A i, j \in 1..Len(s) : i < j => Prio[s[i]] <= Prio[s[j]]
\* sorted insertion: after every element of higher or EQUAL priority (s is Desc)
InsSorted(s, x) == LET k == Cardinality({i \in 1..Len(s) : Prio[s[i]] >= Prio[x]})
                   IN SubSeq(s, 1, k) \o <<x>> \o SubSeq(s, k + 1, Len(s))
RECURSIVE InsAll(_, _)
InsAll(s, r) == IF r = <<>> THEN s ELSE InsAll(InsSorted(s, Head(r)), Tail(r))
\* s with x inserted somewhere (old elements keep their relative order)
IsInsertion(t, s, x) == \E k \in 0..Len(s) : t = SubSeq(s, 1, k) \o <<x>> \o SubSeq(s, k + 1, Len(s))
IsPerm(t, s) == Len(t) = Len(s) /\ Elems(t) = Elems(s) /\ NoDup(t)
RemoveAt(s, k) == SubSeq(s, 1, k - 1) \o SubSeq(s, k + 1, Len(s))
PosOf(s, x) == CHOOSE k \in 1..Len(s) : s[k] = x
\* ring sorted insertion of info.c's kind: before the first element that is not of higher priority
RingIns(s, x) == LET k == Cardinality({i \in 1..Len(s) : \A j \in 1..i : Prio[s[j]] > Prio[x]})
                 IN SubSeq(s, 1, k) \o <<x>> \o SubSeq(s, k + 1, Len(s))
\* sequences of distinct free items of length 1..MaxChain
Chains(F) == UNION {{r \in [1..n -> F] : NoDup(r)} : n \in 1..MaxChain}

\* candidates for a new item / a new chain
Cand == IF Canon THEN {x \in Free : \A y \in Free : x <= y} ELSE Free
CandChains == IF Canon THEN {r \in Chains(Free) : r[1] \in Cand /\ \A i \in 1..(Len(r) - 1) : r[i] < r[i + 1] /\ ~\E y \in Free : r[i] < y /\ y < r[i + 1]}
              ELSE Chains(Free)
Rec(op, x, r) == [op |-> op, x |-> x, r |-> r]
Init == lst = <<>> /\ ring = <<>> /\ hist = <<>>
Step(op, x, r) == op \in Ops /\ Len(hist) < MaxLen /\ hist' = Append(hist, Rec(op, x, r))

PushFront(x) == x \in Cand /\ Step("push_front", x, <<>>) /\ lst' = <<x>> \o lst /\ UNCHANGED ring
PushBack(x)  == x \in Cand /\ Step("push_back", x, <<>>) /\ lst' = Append(lst, x) /\ UNCHANGED ring
PopFront == Step("pop_front", 0, <<>>) /\ lst' = (IF lst = <<>> THEN lst ELSE Tail(lst)) /\ UNCHANGED ring
PopBack  == Step("pop_back", 0, <<>>) /\ lst' = (IF lst = <<>> THEN lst ELSE SubSeq(lst, 1, Len(lst) - 1)) /\ UNCHANGED ring
ChainFront(r) == Step("chain_front", 0, r) /\ lst' = r \o lst /\ UNCHANGED ring
ChainBack(r)  == Step("chain_back", 0, r) /\ lst' = lst \o r /\ UNCHANGED ring
Unchain == lst # <<>> /\ Step("unchain", 0, <<>>) /\ lst' = <<>> /\ UNCHANGED ring
Remove(x) == x \in Elems(lst) /\ Step("remove", x, <<>>) /\ lst' = RemoveAt(lst, PosOf(lst, x)) /\ UNCHANGED ring
AddBefore(p, x) == /\ x \in Cand /\ p \in Elems(lst) /\ Step("add_before", x, <<p>>)
                   /\ lst' = SubSeq(lst, 1, PosOf(lst, p) - 1) \o <<x>> \o SubSeq(lst, PosOf(lst, p), Len(lst))
                   /\ UNCHANGED ring
\* the sorted functions are specified on lists in non-increasing order
PushSorted(x) == x \in Cand /\ Desc(lst) /\ Step("push_sorted", x, <<>>) /\ lst' = InsSorted(lst, x) /\ UNCHANGED ring
ChainSorted(r) == Desc(lst) /\ Step("chain_sorted", 0, r) /\ lst' = InsAll(lst, r) /\ UNCHANGED ring
\* sort: a permutation in priority order (the property accepts either direction)
SortResults(s) == {t \in [1..Len(s) -> Elems(s)] : IsPerm(t, s) /\ (Desc(t) \/ Asc(t))}
Sort == /\ Len(lst) >= 2 /\ Step("sort", 0, <<>>)
        /\ lst' \in SortResults(lst) /\ UNCHANGED ring
RingPushSorted(x) == x \in Cand /\ Step("ring_push_sorted", x, <<>>) /\ ring' = RingIns(ring, x) /\ UNCHANGED lst

Next == \/ \E x \in Items : PushFront(x)
        \/ \E x \in Items : PushBack(x)
        \/ PopFront
        \/ PopBack
        \/ \E r \in (IF "chain_front" \in Ops THEN CandChains ELSE {}) : ChainFront(r)
        \/ \E r \in (IF "chain_back" \in Ops THEN CandChains ELSE {}) : ChainBack(r)
        \/ Unchain
        \/ \E x \in Items : Remove(x)
        \/ \E p, x \in Items : AddBefore(p, x)
        \/ \E x \in Items : PushSorted(x)
        \/ \E r \in (IF "chain_sorted" \in Ops THEN CandChains ELSE {}) : ChainSorted(r)
        \/ Sort
        \/ \E x \in Items : RingPushSorted(x)
Spec == Init /\ [][Next]_vars

TypeOK == NoDup(lst \o ring) /\ Elems(lst \o ring) \subseteq Items
RingOrdered == Desc(ring)
\* sorted insertion into a sorted list keeps it sorted (checked on every transition by TLC)
SortedKept == [][(Desc(lst) /\ hist' # hist /\ hist'[Len(hist')].op \in {"push_sorted", "chain_sorted"}) => Desc(lst')]_vars
Emit == (Len(hist) = MaxLen) => PrintT(<<"VH", ToJson(hist)>>)
====================================================================
