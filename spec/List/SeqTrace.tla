---------------------------- MODULE SeqTrace ----------------------------
(* Trace validation for C31, sequential part.  After every operation the harness logs
     {"e":"op","op":OP,"x":X,"r":[ring or position],"ret":popped item|0,"out":[unchained items],"via":"<real function>",
      "fwd":[list walked by list_next],"bwd":[list walked by list_prev],
      "ring":[free-standing ring walked by list_next from the returned head],"rbwd":[... by list_prev from the last]}
   TLC checks that the real list after the operation is the one Seq.tla prescribes and that the backward links
   describe the same sequence:
     - push/pop/chain/unchain/remove/add: exact content and order, pops return the end element or NULL when empty;
     - push_sorted / chain_sorted on a list in non-increasing order: every new element after the existing ones of
       higher or EQUAL priority (and after the equal ones chained before it); on a list that is not sorted the
       property is silent: only "old order kept, new elements inserted" is demanded;
     - sort: a permutation of the old content in priority order (either direction, as the property says);
     - ring_push_sorted: old ring order kept, new element inserted, ring in non-increasing order from its head. *)
EXTENDS Seq, IOUtils
VARIABLES l
TraceLog == ndJsonDeserialize(IOEnv.TRACE)
Ev == TraceLog[l]
IsEv(e) == l <= Len(TraceLog) /\ Ev.e = e /\ l' = l + 1
Rev(s) == [i \in 1..Len(s) |-> s[Len(s) + 1 - i]]
FreeOK(x) == x \in Items /\ x \notin Elems(lst) \cup Elems(ring)
ChainOK(r) == Len(r) >= 1 /\ NoDup(r) /\ \A i \in 1..Len(r) : FreeOK(r[i])
\* t is s with the elements of r inserted (old elements keep their order, the elements of r too)
RECURSIVE IsMerge(_, _, _)
IsMerge(t, s, r) == IF t = <<>> THEN s = <<>> /\ r = <<>>
                    ELSE \/ (s # <<>> /\ Head(t) = Head(s) /\ IsMerge(Tail(t), Tail(s), r))
                         \/ (r # <<>> /\ Head(t) = Head(r) /\ IsMerge(Tail(t), s, Tail(r)))

TInit == Init /\ l = 1
TReset == IsEv("Reset") /\ lst' = <<>> /\ ring' = <<>> /\ UNCHANGED hist
TOp == /\ IsEv("op")
       /\ CASE Ev.op = "push_front" -> FreeOK(Ev.x) /\ lst' = <<Ev.x>> \o lst /\ UNCHANGED ring
            [] Ev.op = "push_back" -> FreeOK(Ev.x) /\ lst' = Append(lst, Ev.x) /\ UNCHANGED ring
            [] Ev.op = "pop_front" -> /\ Ev.ret = (IF lst = <<>> THEN 0 ELSE Head(lst))
                                      /\ lst' = (IF lst = <<>> THEN lst ELSE Tail(lst)) /\ UNCHANGED ring
            [] Ev.op = "pop_back" -> /\ Ev.ret = (IF lst = <<>> THEN 0 ELSE lst[Len(lst)])
                                     /\ lst' = (IF lst = <<>> THEN lst ELSE SubSeq(lst, 1, Len(lst) - 1)) /\ UNCHANGED ring
            [] Ev.op = "chain_front" -> ChainOK(Ev.r) /\ lst' = Ev.r \o lst /\ UNCHANGED ring
            [] Ev.op = "chain_back" -> ChainOK(Ev.r) /\ lst' = lst \o Ev.r /\ UNCHANGED ring
            [] Ev.op = "unchain" -> Ev.out = lst /\ lst' = <<>> /\ UNCHANGED ring
            [] Ev.op = "remove" -> Ev.x \in Elems(lst) /\ lst' = RemoveAt(lst, PosOf(lst, Ev.x)) /\ UNCHANGED ring
            [] Ev.op = "add_before" ->
                   /\ FreeOK(Ev.x) /\ Len(Ev.r) = 1 /\ Ev.r[1] \in Elems(lst)
                   /\ lst' = SubSeq(lst, 1, PosOf(lst, Ev.r[1]) - 1) \o <<Ev.x>> \o SubSeq(lst, PosOf(lst, Ev.r[1]), Len(lst))
                   /\ UNCHANGED ring
            [] Ev.op = "push_sorted" ->
                   /\ FreeOK(Ev.x) /\ UNCHANGED ring
                   /\ IF Desc(lst) THEN lst' = InsSorted(lst, Ev.x)
                      ELSE lst' = Ev.fwd /\ IsInsertion(Ev.fwd, lst, Ev.x)
            [] Ev.op = "chain_sorted" ->
                   /\ ChainOK(Ev.r) /\ UNCHANGED ring
                   /\ IF Desc(lst) THEN lst' = InsAll(lst, Ev.r)
                      ELSE lst' = Ev.fwd /\ Len(Ev.fwd) = Len(lst) + Len(Ev.r) /\ NoDup(Ev.fwd)
                           /\ Elems(Ev.fwd) = Elems(lst) \cup Elems(Ev.r) /\ IsMerge(Ev.fwd, lst, SelectSeq(Ev.fwd, LAMBDA y : y \in Elems(Ev.r)))
            [] Ev.op = "sort" -> /\ lst' = Ev.fwd /\ IsPerm(Ev.fwd, lst) /\ (Desc(Ev.fwd) \/ Asc(Ev.fwd)) /\ UNCHANGED ring
            [] Ev.op = "ring_push_sorted" ->
                   /\ FreeOK(Ev.x) /\ ring' = Ev.ring /\ IsInsertion(Ev.ring, ring, Ev.x) /\ Desc(Ev.ring) /\ UNCHANGED lst
       /\ Ev.fwd = lst' /\ Ev.bwd = Rev(lst')                     \* both link directions describe the list
       /\ Ev.ring = ring' /\ Ev.rbwd = Rev(ring')
       /\ UNCHANGED hist
TNext == TReset \/ TOp
TSpec == TInit /\ [][TNext]_<<vars, l>>
AcceptExit == (l > Len(TraceLog)) => (PrintT("VERIF-ACCEPTED") /\ TLCSet("exit", TRUE))
=========================================================================
