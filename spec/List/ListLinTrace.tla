---------------------------- MODULE ListLinTrace ----------------------------
(* Trace validation for C31, concurrent part: is a recorded inv/res history of the LOCKED list functions
   (parsec_list_push_front/back/sorted, pop_front/back, try_pop_front/back, chain_front/back/sorted, sort, unchain,
   is_empty) linearizable with respect to Seq.tla ?   Events (ndjson, in stamp order):
     {"e":"init","lst":[..]}                                  initial content, head first
     {"e":"inv","t":T,"op":OP,"x":X,"r":[..]}
     {"e":"res","t":T,"op":OP,"ret":R,"out":[..]}             ret: popped item / 0 = NULL / is_empty result
     {"e":"Reset"}
   Between a call's inv and res the silent action Lin(t) applies its effect to the abstract list.
   try_pop may return NULL on a non-empty list only if another call overlapped it (its trylock fails only then). *)
EXTENDS Seq, IOUtils
CONSTANTS Thr
VARIABLES l, pend
tvars == <<lst, ring, hist, l, pend>>

TraceLog == ndJsonDeserialize(IOEnv.TRACE)
None == [op |-> "none"]
Ev == TraceLog[l]
IsEv(e) == l <= Len(TraceLog) /\ Ev.e = e /\ l' = l + 1
FreeOK(x) == x \in Items /\ x \notin Elems(lst)
ChainOK(r) == Len(r) >= 1 /\ NoDup(r) /\ \A i \in 1..Len(r) : FreeOK(r[i])
RECURSIVE IsMerge(_, _, _)
IsMerge(t, s, r) == IF t = <<>> THEN s = <<>> /\ r = <<>>
                    ELSE \/ (s # <<>> /\ Head(t) = Head(s) /\ IsMerge(Tail(t), Tail(s), r))
                         \/ (r # <<>> /\ Head(t) = Head(r) /\ IsMerge(Tail(t), s, Tail(r)))

TInit == Init /\ l = 1 /\ pend = [t \in Thr |-> None]
TSetInit == /\ IsEv("init") /\ \A t \in Thr : pend[t] = None
            /\ lst' = Ev.lst /\ UNCHANGED <<ring, hist, pend>>
TReset == /\ IsEv("Reset") /\ lst' = <<>> /\ pend' = [t \in Thr |-> None] /\ UNCHANGED <<ring, hist>>

\* a new call overlaps every pending call (and is overlapped by them)
TInv == /\ IsEv("inv") /\ Ev.t \in Thr /\ pend[Ev.t] = None
        /\ pend' = [u \in Thr |->
                      IF u = Ev.t THEN [op |-> Ev.op, x |-> Ev.x, r |-> Ev.r, lin |-> FALSE, ret |-> 0, out |-> <<>>,
                                        ovl |-> \E w \in Thr : pend[w] # None]
                      ELSE IF pend[u] # None THEN [pend[u] EXCEPT !.ovl = TRUE] ELSE pend[u]]
        /\ UNCHANGED <<lst, ring, hist>>

Done(t, ret, o) == pend' = [pend EXCEPT ![t].lin = TRUE, ![t].ret = ret, ![t].out = o]
PopF(t) == /\ Done(t, IF lst = <<>> THEN 0 ELSE Head(lst), <<>>) /\ lst' = (IF lst = <<>> THEN lst ELSE Tail(lst))
PopB(t) == /\ Done(t, IF lst = <<>> THEN 0 ELSE lst[Len(lst)], <<>>)
           /\ lst' = (IF lst = <<>> THEN lst ELSE SubSeq(lst, 1, Len(lst) - 1))
Lin(t) ==
    /\ pend[t] # None /\ ~pend[t].lin /\ UNCHANGED <<l, ring, hist>>
    /\ LET p == pend[t] IN
       CASE p.op = "push_front" -> FreeOK(p.x) /\ lst' = <<p.x>> \o lst /\ Done(t, 0, <<>>)
         [] p.op = "push_back" -> FreeOK(p.x) /\ lst' = Append(lst, p.x) /\ Done(t, 0, <<>>)
         [] p.op = "push_sorted" ->
                /\ FreeOK(p.x) /\ Done(t, 0, <<>>)
                /\ IF Desc(lst) THEN lst' = InsSorted(lst, p.x)
                   ELSE \E k \in 0..Len(lst) : lst' = SubSeq(lst, 1, k) \o <<p.x>> \o SubSeq(lst, k + 1, Len(lst))
         [] p.op = "pop_front" -> PopF(t)
         [] p.op = "pop_back" -> PopB(t)
         [] p.op = "try_pop_front" -> PopF(t) \/ (p.ovl /\ UNCHANGED lst /\ Done(t, 0, <<>>))
         [] p.op = "try_pop_back" -> PopB(t) \/ (p.ovl /\ UNCHANGED lst /\ Done(t, 0, <<>>))
         [] p.op = "chain_front" -> ChainOK(p.r) /\ lst' = p.r \o lst /\ Done(t, 0, <<>>)
         [] p.op = "chain_back" -> ChainOK(p.r) /\ lst' = lst \o p.r /\ Done(t, 0, <<>>)
         [] p.op = "chain_sorted" -> ChainOK(p.r) /\ Desc(lst) /\ lst' = InsAll(lst, p.r) /\ Done(t, 0, <<>>)
         [] p.op = "sort" -> /\ Done(t, 0, <<>>)
                             /\ IF Len(lst) < 2 THEN UNCHANGED lst ELSE lst' \in SortResults(lst)
         [] p.op = "unchain" -> lst' = <<>> /\ Done(t, 0, lst)
         [] p.op = "is_empty" -> UNCHANGED lst /\ Done(t, IF lst = <<>> THEN 1 ELSE 0, <<>>)

TRes == /\ IsEv("res") /\ Ev.t \in Thr /\ pend[Ev.t] # None /\ pend[Ev.t].lin
        /\ pend[Ev.t].op = Ev.op /\ pend[Ev.t].ret = Ev.ret /\ pend[Ev.t].out = Ev.out
        /\ pend' = [pend EXCEPT ![Ev.t] = None]
        /\ UNCHANGED <<lst, ring, hist>>

TNext == TSetInit \/ TReset \/ TInv \/ TRes \/ \E t \in Thr : Lin(t)
TSpec == TInit /\ [][TNext]_tvars
AcceptExit == (l > Len(TraceLog)) => (PrintT("VERIF-ACCEPTED") /\ TLCSet("exit", TRUE))
NoElementTwice == NoDup(lst)
=============================================================================
