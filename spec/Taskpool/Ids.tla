---------------------------- MODULE Ids ----------------------------
(* Abstract taskpool identifier registry of one process (parsec.c: parsec_taskpool_reserve_id / _register / _unregister /
   _lookup / _sync_ids), property C37.  Taskpools are positive naturals, 0 stands for NULL.
   `last` = the last identifier handed out; reg = the taskpool registered under an identifier (0 = none). *)
EXTENDS Naturals, FiniteSets
VARIABLES last, reg, idOf       \* idOf: taskpool -> identifier it holds (function over the taskpools that reserved one)
ivars == <<last, reg, idOf>>

IInit(n) == last = n /\ reg = [i \in {} |-> 0] /\ idOf = [p \in {} |-> 0]
Ext(f, k, v) == [x \in DOMAIN f \cup {k} |-> IF x = k THEN v ELSE f[x]]
RegOf(i) == IF i \in DOMAIN reg THEN reg[i] ELSE 0

\* identifiers reserved (even concurrently) are distinct: each reservation takes the next one
Reserve(p) == /\ last' = last + 1 /\ idOf' = Ext(idOf, p, last + 1) /\ UNCHANGED reg
ReserveRes == last + 1
Register(p) == /\ p \in DOMAIN idOf
               /\ reg' = Ext(reg, idOf[p], p) /\ UNCHANGED <<last, idOf>>
Unregister(p) == /\ p \in DOMAIN idOf /\ RegOf(idOf[p]) = p
                 /\ reg' = Ext(reg, idOf[p], 0) /\ UNCHANGED <<last, idOf>>
\* while a taskpool is registered, looking up its identifier returns it; after unregistration (or before
\* registration) nothing; only identifiers that were handed out are looked up
LookupOK(i) == i \in 1..last
LookupRes(i) == RegOf(i)
\* after a synchronization every process continues from the largest identifier handed out anywhere
SyncTo(m) == /\ m >= last /\ last' = m /\ UNCHANGED <<reg, idOf>>
=====================================================================
