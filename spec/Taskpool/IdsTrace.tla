---------------------------- MODULE IdsTrace ----------------------------
(* Trace validation for C37: is a recorded history of the real registry linearizable with respect to Ids.tla ?
   Events (ndjson, in stamp order):
     {"e":"init","last":N}                           the registry's last identifier when the history starts
     {"e":"inv","t":T,"op":"reserve"|"register"|"unregister","tp":P}  |  {"e":"inv","t":T,"op":"lookup","id":I}
     {"e":"res","t":T,"op":..,"r":R}                 reserve/register: the identifier; lookup: the taskpool or 0
     {"e":"sync","before":[..],"after":[..]}         one entry per process: last identifier reserved before
                                                     parsec_taskpool_sync_ids (0 = none), identifier of the next reservation
     {"e":"Reset"}
   Between inv and res the silent action Lin(t) applies the call to the abstract registry. *)
EXTENDS Ids, Sequences, Json, IOUtils, TLC
CONSTANTS Thr
VARIABLES l, pend
tvars == <<last, reg, idOf, l, pend>>
TraceLog == ndJsonDeserialize(IOEnv.TRACE)
None == [op |-> "none"]
Ev == TraceLog[l]
IsEv(e) == l <= Len(TraceLog) /\ Ev.e = e /\ l' = l + 1

TInit == IInit(0) /\ l = 1 /\ pend = [t \in Thr |-> None]
TSetInit == /\ IsEv("init") /\ \A t \in Thr : pend[t] = None
            /\ last' = Ev.last /\ reg' = [i \in {} |-> 0] /\ idOf' = [p \in {} |-> 0] /\ UNCHANGED pend
TReset == /\ IsEv("Reset")
          /\ last' = 0 /\ reg' = [i \in {} |-> 0] /\ idOf' = [p \in {} |-> 0] /\ pend' = [t \in Thr |-> None]
TInv == /\ IsEv("inv") /\ Ev.t \in Thr /\ pend[Ev.t] = None
        /\ pend' = [pend EXCEPT ![Ev.t] = [op |-> Ev.op, a |-> IF Ev.op = "lookup" THEN Ev.id ELSE Ev.tp, lin |-> FALSE, r |-> 0]]
        /\ UNCHANGED ivars
Lin(t) == /\ pend[t] # None /\ ~pend[t].lin /\ UNCHANGED l
          /\ CASE pend[t].op = "reserve"    -> Reserve(pend[t].a) /\ pend' = [pend EXCEPT ![t].lin = TRUE, ![t].r = ReserveRes]
               [] pend[t].op = "register"   -> Register(pend[t].a) /\ pend' = [pend EXCEPT ![t].lin = TRUE, ![t].r = idOf[pend[t].a]]
               [] pend[t].op = "unregister" -> Unregister(pend[t].a) /\ pend' = [pend EXCEPT ![t].lin = TRUE]
               [] pend[t].op = "lookup"     -> /\ LookupOK(pend[t].a) /\ UNCHANGED ivars
                                               /\ pend' = [pend EXCEPT ![t].lin = TRUE, ![t].r = LookupRes(pend[t].a)]
TRes == /\ IsEv("res") /\ Ev.t \in Thr /\ pend[Ev.t] # None /\ pend[Ev.t].lin
        /\ pend[Ev.t].op = Ev.op /\ pend[Ev.t].r = Ev.r
        /\ pend' = [pend EXCEPT ![Ev.t] = None] /\ UNCHANGED ivars
\* after identifier synchronization all processes assign the same identifier to their next taskpool: the one after
\* the largest identifier handed out anywhere
Max(s) == CHOOSE m \in {s[i] : i \in 1..Len(s)} : \A i \in 1..Len(s) : s[i] <= m
TSync == /\ IsEv("sync") /\ Len(Ev.before) = Len(Ev.after) /\ Len(Ev.before) >= 1
         /\ \A i \in 1..Len(Ev.after) : Ev.after[i] = Max(Ev.before) + 1
         /\ UNCHANGED <<ivars, pend>>
TNext == TSetInit \/ TReset \/ TInv \/ TRes \/ TSync \/ \E t \in Thr : Lin(t)
TSpec == TInit /\ [][TNext]_tvars
AcceptExit == (l > Len(TraceLog)) => (PrintT("VERIF-ACCEPTED") /\ TLCSet("exit", TRUE))
=========================================================================
