---------------------------- MODULE IdsImpl ----------------------------
(* Implementation-shaped model of the registry array of parsec.c: taskpool_array (NULL at start), taskpool_array_size
   (1 at start), taskpool_array_pos; every function body runs under taskpool_array_lock (one action per function).
   Slots hold a taskpool (> 0), 0 = none (NOTASKPOOL) or -1 = junk (memory that realloc returned and nobody initialised).
   Also the source of behaviours: `hist` records the operations applied, Emit prints complete ones.

   reserve_id:  idx = ++pos ; array = NULL or idx >= size => { size <<= 1 ; realloc ; slots size/2 .. size-1 = none } ; return idx
   register:    idx = tp->taskpool_id ; array = NULL or idx >= size => (same growth, once) ; array[idx] = tp
   unregister:  array[tp->taskpool_id] = none
   lookup:      id <= pos ? array[id] : none
   sync_ids:    idx = max over the processes of pos ; msz = size ; while idx >= msz : msz <<= 1 ;
                msz > size => { realloc ; slots size .. msz-1 = none } ; size = msz ; pos = idx
   Refinement of Ids.tla: Agree (slot of every handed-out identifier = the abstract registration, never junk, inside the
   array). *)
EXTENDS Integers, Sequences, FiniteSets, TLC, Json
CONSTANTS Tps, MaxLen, MaxJump,
          NoFill            \* TRUE = variant whose growth does not initialise the new slots (sensitivity self-test)
VARIABLES arr, size, pos,          \* the implementation (arr = <<>> models NULL; arr[i+1] = slot i)
          last, reg, idOf,         \* the abstract registry (Ids.tla)
          hist
vars == <<arr, size, pos, last, reg, idOf, hist>>
A == INSTANCE Ids

Init == arr = <<>> /\ size = 1 /\ pos = 0 /\ A!IInit(0) /\ hist = <<>>
Slot(i) == IF i + 1 <= Len(arr) THEN arr[i + 1] ELSE -2
\* realloc to n slots: old content kept, new slots are junk; then slots lo..n-1 are set to none
Grow(a, n, lo) == [i \in 1..n |-> IF i - 1 >= lo /\ ~NoFill THEN 0 ELSE IF i <= Len(a) THEN a[i] ELSE -1]
Set(a, i, v) == [a EXCEPT ![i + 1] = v]
More == Len(hist) < MaxLen

ReserveId(p) == /\ More /\ p \notin DOMAIN idOf
                /\ LET idx == pos + 1
                       grow == arr = <<>> \/ idx >= size
                   IN /\ pos' = idx
                      /\ size' = IF grow THEN 2 * size ELSE size
                      /\ arr' = IF grow THEN Grow(arr, 2 * size, size) ELSE arr
                      /\ hist' = Append(hist, [op |-> "reserve", a |-> p, r |-> idx])
                /\ A!Reserve(p)
Register(p) == /\ More /\ p \in DOMAIN idOf /\ A!RegOf(idOf[p]) = 0
               /\ LET idx == idOf[p]
                      grow == arr = <<>> \/ idx >= size
                      a2 == IF grow THEN Grow(arr, 2 * size, size) ELSE arr
                  IN /\ size' = IF grow THEN 2 * size ELSE size
                     /\ arr' = Set(a2, idx, p)
                     /\ hist' = Append(hist, [op |-> "register", a |-> p, r |-> idx])
               /\ UNCHANGED pos /\ A!Register(p)
Unregister(p) == /\ More /\ p \in DOMAIN idOf /\ A!RegOf(idOf[p]) = p
                 /\ arr' = Set(arr, idOf[p], 0)
                 /\ hist' = Append(hist, [op |-> "unregister", a |-> p, r |-> 0])
                 /\ UNCHANGED <<size, pos>> /\ A!Unregister(p)
Lookup(i) == /\ More /\ A!LookupOK(i)
             /\ hist' = Append(hist, [op |-> "lookup", a |-> i,
                                      r |-> IF i > pos THEN 0 ELSE IF Slot(i) >= 0 THEN Slot(i) ELSE -1])
             /\ UNCHANGED <<arr, size, pos, last, reg, idOf>>
\* the other processes are ahead by j identifiers (j = 0: alone, what a single-process replay executes)
RECURSIVE Msz(_, _)
Msz(idx, m) == IF idx >= m THEN Msz(idx, 2 * m) ELSE m
Sync(j) == /\ More
           /\ LET idx == pos + j
                  msz == Msz(idx, size)
              IN /\ arr' = IF msz > size THEN Grow(arr, msz, size) ELSE arr
                 /\ size' = msz /\ pos' = idx
                 /\ hist' = Append(hist, [op |-> "sync", a |-> j, r |-> idx])
           /\ A!SyncTo(pos + j)
Next == \/ \E p \in Tps : ReserveId(p) \/ Register(p) \/ Unregister(p)
        \/ \E i \in 1..(Cardinality(Tps) + 2 * MaxJump) : Lookup(i)
        \/ \E j \in 0..MaxJump : Sync(j)
Spec == Init /\ [][Next]_vars

Agree == /\ pos = last
         /\ \A i \in 1..pos : /\ i < size /\ i + 1 <= Len(arr)
                              /\ Slot(i) = A!RegOf(i)
NoJunkSeen == \A k \in 1..Len(hist) : hist[k].r # -1
Emit == (Len(hist) = MaxLen) => PrintT(<<"VH", ToJson(hist)>>)
=========================================================================
