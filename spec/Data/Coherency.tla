---------------------------- MODULE Coherency ----------------------------
(* C26  Data copy ownership transfers (parsec/data.c).

   State = one parsec_data_t with N device copies:  coh[c] (coherency_state), ver[c] (version), rd[c] (readers),
   owner (owner_device, -1 = none).

   Start(dev, mode) / End(dev, mode) transcribe parsec_data_start_transfer_ownership_to_copy and
   parsec_data_end_transfer_ownership_to_copy statement by statement (asserts are compiled out: NDEBUG build).

   One access of the client = Access(dev, mode, bump):
        src = Start(dev, mode)
        if src # -1 : the client moves the data,  ver[dev] := ver[src]
        End(dev, mode)
        if bump     : the write completes,        ver[dev] := (newest version) + 1
   Client discipline (what the runtime's callers do; see the assumptions of the check):
        a write-only access always completes with a bump (the content is new);
        a read-write access may or may not bump (ownership migration without modification);
        a read access never bumps.

   The property (properties.jsonl C26), evaluated on every access:
     OneOwner        at most one copy is OWNED, and it is the copy of owner_device
     TransferIff     an access that reads requests a transfer exactly when the target copy is not up to date
                     (INVALID, or older than the newest version); an access that does not read requests none
     SourceNewest    the copy named as the source of a transfer holds the newest version (and is valid)
     WriteOwns       after an access that writes, the target is the owner (owner_device and OWNED)
   hist = the access sequence, handed to the replay harness. *)
EXTENDS Naturals, Integers, Sequences, FiniteSets, TLC, Json
CONSTANTS N,          \* number of device copies (devices 0..N-1)
          Kinds,      \* initial data kinds, subset of {"own", "exc"}
          MaxLen,     \* accesses per behaviour
          MaxVer,     \* no bump beyond this version (bounds the state graph when the history is not kept)
          KeepHist,
          EndKeepsOwned  \* FALSE: end_transfer as in the pinned commit (a read turns the target SHARED, even the owner);
                         \* TRUE: a read leaves an OWNED target OWNED (proposed repair)
VARIABLES kind, coh, ver, rd, owner, last, hist
vars == <<kind, coh, ver, rd, owner, last, hist>>
Dev == 0..(N - 1)
Modes == {"R", "W", "RW"}
Reads(m) == m \in {"R", "RW"}
Writes(m) == m \in {"W", "RW"}

SetMax(S) == CHOOSE x \in S : \A y \in S : y <= x
Newest(v) == SetMax({v[c] : c \in Dev})

\* ---- parsec_data_start_transfer_ownership_to_copy -------------------------------------------------------------
\* returns [coh, rd, owner, ret]; ret = -1 (no transfer) or the source device
\* last non-INVALID copy (the loop overwrites valid_copy at every hit), -1 when there is none
LastValid(c) == IF \E i \in Dev : c[i] # "INV" THEN SetMax({i \in Dev : c[i] # "INV"}) ELSE -1
Start(c, v, r, o, dev, mode) ==
    IF o = dev
    THEN \* "already has ownership": goto bookkeeping
         [coh |-> c, rd |-> IF Reads(mode) THEN [r EXCEPT ![dev] = @ + 1] ELSE r,
          owner |-> IF Writes(mode) THEN dev ELSE o, ret |-> -1]
    ELSE LET \* switch( copy->coherency_state )
             tr0 == CASE c[dev] = "INV" -> TRUE
                      [] c[dev] = "SHA" -> \E i \in Dev : c[i] = "OWN" /\ v[i] > v[dev]
                      [] OTHER -> FALSE
             valid == IF c[dev] = "INV" /\ o = -1 THEN LastValid(c) ELSE o
             \* if( READ & access_mode ): loop over the other valid copies
             ownedRO == c[dev] = "OWN" /\ ~Writes(mode)
             others == {i \in Dev : i # dev /\ c[i] # "INV"}
             c1 == IF Reads(mode)
                   THEN [i \in Dev |->
                           IF i \notin others THEN c[i]
                           ELSE IF ownedRO /\ v[i] < v[dev] THEN "INV"      \* (an INVALID copy is not EXCLUSIVE)
                           ELSE IF c[i] = "EXC" THEN "SHA" ELSE c[i]]
                   ELSE c
             o1 == IF Reads(mode) /\ ownedRO /\ others # {} THEN -1 ELSE o
             tr1 == IF Reads(mode) THEN tr0 ELSE FALSE                      \* "finally we'll just overwrite w/o read"
             \* if( WRITE & access_mode ): every valid copy becomes SHARED
             c2 == IF Writes(mode) THEN [i \in Dev |-> IF c1[i] # "INV" THEN "SHA" ELSE c1[i]] ELSE c1
             \* bookkeeping
             r2 == IF Reads(mode) THEN [r EXCEPT ![dev] = @ + 1] ELSE r
             o2 == IF Writes(mode) THEN dev ELSE o1
         IN IF ~tr1
            THEN [coh |-> c2, rd |-> r2, owner |-> o2, ret |-> -1]
            ELSE [coh |-> [c2 EXCEPT ![dev] = "INV"], rd |-> r2, owner |-> o2, ret |-> valid]

\* ---- parsec_data_end_transfer_ownership_to_copy ---------------------------------------------------------------
End(c, dev, mode) == [c EXCEPT ![dev] = IF Writes(mode) THEN "OWN"
                                         ELSE IF EndKeepsOwned /\ c[dev] = "OWN" THEN "OWN" ELSE "SHA"]

\* ---- one access of the client -----------------------------------------------------------------------------------
Legal(dev, mode, bump) ==
    /\ (mode = "W" => bump) /\ (mode = "R" => ~bump)
    /\ (bump => Newest(ver) < MaxVer)
\* initial data: "own" = parsec_data_create (the host copy is OWNED, owner_device = 0);
\*               "exc" = the host copy is EXCLUSIVE and nobody owns the data (exercises the search for a valid source)
InitCoh(k) == [c \in Dev |-> IF c # 0 THEN "INV" ELSE IF k = "own" THEN "OWN" ELSE "EXC"]
InitOwner(k) == IF k = "own" THEN 0 ELSE -1
NoLast == [dev |-> -1, mode |-> "R", ret |-> -1, uptodate |-> TRUE, srcnewest |-> TRUE, srcvalid |-> TRUE]
Init == /\ kind \in Kinds /\ coh = InitCoh(kind) /\ owner = InitOwner(kind)
        /\ ver = [c \in Dev |-> 0] /\ rd = [c \in Dev |-> 0]
        /\ last = NoLast /\ hist = <<>>
\* versions after the client's part of an access whose start returned ret
ClientVer(v, dev, ret, bump) ==
    LET v1 == IF ret # -1 THEN [v EXCEPT ![dev] = v[ret]] ELSE v
    IN IF bump THEN [v1 EXCEPT ![dev] = Newest(v) + 1] ELSE v1
\* what the property looks at: the access, its result, and facts about the state before it
Observed(c, v, dev, mode, ret) ==
    [dev |-> dev, mode |-> mode, ret |-> ret,
     uptodate |-> c[dev] # "INV" /\ v[dev] = Newest(v),
     srcnewest |-> ret \in Dev => v[ret] = Newest(v),
     srcvalid |-> ret # -1 => (ret \in Dev /\ c[ret] # "INV")]
\* (integer-coded arguments mi, b: they appear in the edge labels of TLC's state-graph dump)
ModeName == <<"R", "W", "RW">>
Access(dev, mi, b) ==
    /\ (KeepHist => Len(hist) < MaxLen)
    /\ Legal(dev, ModeName[mi], b = 1)
    /\ LET mode == ModeName[mi]
           s == Start(coh, ver, rd, owner, dev, mode)
       IN /\ coh' = End(s.coh, dev, mode) /\ ver' = ClientVer(ver, dev, s.ret, b = 1) /\ owner' = s.owner
          /\ rd' = IF KeepHist THEN s.rd ELSE rd             \* (readers only grow: kept out of the bare state graph)
          /\ last' = Observed(coh, ver, dev, mode, s.ret)
    /\ hist' = IF KeepHist THEN Append(hist, [dev |-> dev, mode |-> ModeName[mi], bump |-> (b = 1)]) ELSE hist
    /\ UNCHANGED kind
Next == \E dev \in Dev, mi \in 1..3, b \in 0..1 : Access(dev, mi, b)
Spec == Init /\ [][Next]_vars

\* ---- the property ---------------------------------------------------------------------------------------------
TypeOK == /\ coh \in [Dev -> {"INV", "OWN", "EXC", "SHA"}] /\ owner \in (Dev \cup {-1})
OneOwner == /\ Cardinality({c \in Dev : coh[c] = "OWN"}) <= 1
            /\ \A c \in Dev : coh[c] = "OWN" => owner = c
TransferIff == last.dev # -1 => ((last.ret # -1) <=> (Reads(last.mode) /\ ~last.uptodate))
SourceNewest == last.srcnewest /\ last.srcvalid
WriteOwns == (last.dev # -1 /\ Writes(last.mode)) => (owner = last.dev /\ coh[last.dev] = "OWN")
Emit == (KeepHist /\ Len(hist) = MaxLen) => PrintT(<<"VH", ToJson([k |-> kind, ops |-> hist])>>)
==========================================================================
