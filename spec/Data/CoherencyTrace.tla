---------------------------- MODULE CoherencyTrace ----------------------------
(* Trace validation for C26 (harness/data/data_replay.c): every access executed on the real
   parsec_data_start/end_transfer_ownership_to_copy, with the complete state of the data logged after it.
     {"e":"init","kind":"own"|"exc","n":N}
     {"e":"acc","dev":D,"mode":"R"|"W"|"RW","bump":0|1,"ret":SRC,"coh":[..],"ver":[..],"rd":[..],"owner":O}
     {"e":"Reset"}
   Level = "prop": the state is taken from the log (coh, owner: the real functions; ver: must be what the client
                   discipline of Coherency.tla yields for the logged result) and the four clauses of the property are
                   demanded of every access (the verdict).
   Level = "code": the logged result and state must equal what the transcription Start/End computes (conformance;
                   counts divergences and recognises the known defect class, never a verdict).
   Level = "report": as "prop", but an access that breaks a clause does not stop the validation; the numbers of the
                   executions concerned are printed at the end. *)
EXTENDS Coherency, IOUtils
CONSTANTS Level
VARIABLES l, nex, rej, nrej, flagged
tvars == <<kind, coh, ver, rd, owner, last, hist, l, nex, rej, nrej, flagged>>
TraceLog == ndJsonDeserialize(IOEnv.TRACE)
Ev == TraceLog[l]
IsEv(e) == l <= Len(TraceLog) /\ Ev.e = e /\ l' = l + 1
\* JSON arrays are 1-based sequences, devices are 0-based
Fn(seq) == [c \in Dev |-> seq[c + 1]]

TInit == /\ kind = "none" /\ coh = InitCoh("own") /\ owner = 0 /\ ver = [c \in Dev |-> 0] /\ rd = [c \in Dev |-> 0]
         /\ last = NoLast /\ hist = <<>> /\ l = 1 /\ nex = 1 /\ rej = {} /\ nrej = 0 /\ flagged = FALSE
TStart == /\ IsEv("init") /\ kind = "none" /\ Ev.kind \in {"own", "exc"} /\ Ev.n = N
          /\ kind' = Ev.kind /\ coh' = InitCoh(Ev.kind) /\ owner' = InitOwner(Ev.kind)
          /\ ver' = [c \in Dev |-> 0] /\ rd' = [c \in Dev |-> 0] /\ last' = NoLast
          /\ UNCHANGED <<hist, nex, rej, nrej, flagged>>
TReset == /\ IsEv("Reset") /\ kind' = "none" /\ nex' = nex + 1 /\ flagged' = FALSE
          /\ UNCHANGED <<coh, ver, rd, owner, last, hist, rej, nrej>>
\* the four clauses, on the access just executed (last') and the state after it
Clauses(c2, o2, obs) ==
    /\ Cardinality({c \in Dev : c2[c] = "OWN"}) <= 1 /\ (\A c \in Dev : c2[c] = "OWN" => o2 = c)
    /\ (obs.ret # -1) <=> (Reads(obs.mode) /\ ~obs.uptodate)
    /\ obs.srcnewest /\ obs.srcvalid
    /\ Writes(obs.mode) => (o2 = obs.dev /\ c2[obs.dev] = "OWN")
TAccess ==
    /\ IsEv("acc") /\ kind # "none" /\ Ev.dev \in Dev /\ Ev.mode \in Modes /\ Ev.bump \in {0, 1}
    /\ Len(Ev.coh) = N /\ Len(Ev.ver) = N /\ Len(Ev.rd) = N
    /\ LET bump == Ev.bump = 1
           s == Start(coh, ver, rd, owner, Ev.dev, Ev.mode)
           obs == Observed(coh, ver, Ev.dev, Ev.mode, Ev.ret)
           c2 == Fn(Ev.coh)
           bad == ~Clauses(c2, Ev.owner, obs)
       IN /\ (Ev.ret = -1 \/ Ev.ret \in Dev)
          /\ \A c \in Dev : c2[c] \in {"INV", "OWN", "EXC", "SHA"}
          /\ Ev.owner \in (Dev \cup {-1})
          /\ Fn(Ev.ver) = ClientVer(ver, Ev.dev, Ev.ret, bump)                   \* the harness played the client
          /\ Level = "prop" => ~bad
          /\ Level = "code" => /\ Ev.ret = s.ret /\ c2 = End(s.coh, Ev.dev, Ev.mode)
                               /\ Ev.owner = s.owner /\ Fn(Ev.rd) = s.rd
          /\ coh' = c2 /\ ver' = Fn(Ev.ver) /\ rd' = Fn(Ev.rd) /\ owner' = Ev.owner /\ last' = obs
          /\ LET new == Level = "report" /\ bad /\ ~flagged
             IN /\ rej' = IF new /\ nrej < 40 THEN rej \cup {nex} ELSE rej
                /\ nrej' = IF new THEN nrej + 1 ELSE nrej
                /\ flagged' = (flagged \/ new)
    /\ UNCHANGED <<kind, hist, nex>>
TNext == TStart \/ TReset \/ TAccess
TSpec == TInit /\ [][TNext]_tvars
AcceptExit == (l > Len(TraceLog)) =>
                 (PrintT("VERIF-REJECTS " \o ToJson([n |-> nrej, first |-> rej])) /\ PrintT("VERIF-ACCEPTED") /\ TLCSet("exit", TRUE))
===============================================================================
