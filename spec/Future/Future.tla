---------------------------- MODULE Future ----------------------------
(* Abstract meaning of the three future classes of parsec/class/parsec_future.c and parsec_datacopy_future.c
   (property C29).  Values / shapes are positive naturals, 0 stands for NULL / "no specification".

   base future       : accepts ONE value (the first set wins, later sets are ignored), becomes ready, runs its
                       completion callback once; every get (blocking) returns the accepted value.
                       A set has two abstract steps, as in the code: Accept (the value is decided) and Publish
                       (readiness becomes visible); is_ready observes Publish, not Accept.
   countable future  : ready exactly when `count` sets have been accepted; callback once, by that set.
   datacopy future   : a tree of depth <= 1: the root tracks shape Root, one nested future per other requested
                       shape; each future's fulfilment callback runs at most once; get_or_trigger(s) returns the
                       data of shape s or NULL, never the data of another shape. *)
EXTENDS Naturals, Sequences, FiniteSets
CONSTANTS Shapes                 \* shapes that may be requested from the datacopy future
VARIABLES val, ready, cbs,       \* base / countable: accepted value, published, number of callback runs
          left,                  \* countable: sets still missing (-: not a countable future => 0 unused)
          created, fulfils, done \* datacopy: futures that exist (by shape), fulfilment runs per shape, data set

fvars == <<val, ready, cbs, left, created, fulfils, done>>
Root == 1

FInit(n) == /\ val = 0 /\ ready = FALSE /\ cbs = 0 /\ left = n
            /\ created = {Root} /\ fulfils = [s \in Shapes |-> 0] /\ done = {}

\* ---- base future: returns TRUE iff this set won
BaseAccept(v)  == /\ v # 0
                  /\ val' = IF val = 0 THEN v ELSE val
                  /\ UNCHANGED <<ready, cbs, left, created, fulfils, done>>
Won(v)         == val = 0
\* ---- countable future
CountAccept    == /\ left' = IF left > 0 THEN left - 1 ELSE 0
                  /\ UNCHANGED <<val, ready, cbs, created, fulfils, done>>
Hits           == left = 1
\* ---- both: the winning set publishes, then runs the callback
Publish        == ready' = TRUE /\ UNCHANGED <<val, cbs, left, created, fulfils, done>>
Callback       == /\ ready /\ cbs = 0
                  /\ cbs' = 1 /\ UNCHANGED <<val, ready, left, created, fulfils, done>>
GetEnabled     == ready
\* ---- datacopy future
Setup(s)       == /\ s \in Shapes /\ s \notin created              \* at most one nested future per shape
                  /\ created' = created \cup {s}
                  /\ UNCHANGED <<val, ready, cbs, left, fulfils, done>>
Fulfil(s)      == /\ s \in created /\ fulfils[s] = 0               \* at most one fulfilment per shape
                  /\ fulfils' = [fulfils EXCEPT ![s] = 1]
                  /\ UNCHANGED <<val, ready, cbs, left, created, done>>
Complete(s)    == /\ s \in created /\ fulfils[s] = 1 /\ s \notin done
                  /\ done' = done \cup {s}
                  /\ UNCHANGED <<val, ready, cbs, left, created, fulfils>>
Target(s)      == IF s = 0 THEN Root ELSE s                        \* no specification = the root's own shape
GotOK(s, r)    == r = 0 \/ (r = Target(s) /\ r \in done)

\* bounded "all sequential histories" model used to model-check the abstract invariants
FNext == \/ \E v \in 1..2 : BaseAccept(v) \/ (Won(v) /\ BaseAccept(v))
         \/ CountAccept \/ (val # 0 /\ ~ready /\ Publish) \/ (left = 0 /\ ~ready /\ Publish) \/ Callback
         \/ \E s \in Shapes : Setup(s) \/ Fulfil(s) \/ Complete(s)
FSpec == FInit(2) /\ [][FNext]_fvars
TypeOK == /\ cbs \in 0..1 /\ (cbs = 1 => ready)
          /\ done \subseteq created /\ \A s \in Shapes : fulfils[s] \in 0..1 /\ (s \in done => fulfils[s] = 1)
======================================================================
