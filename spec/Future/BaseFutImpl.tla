---------------------------- MODULE BaseFutImpl ----------------------------
(* Implementation-shaped model of the base and countable futures of parsec/class/parsec_future.c, one action per
   segment of code between two yield points of the hooked build.  Names follow the C code.

   parsec_base_future_set:       CAS(&tracked_data, NULL, data) ; won => wmb ; status |= COMPLETED ; cb_fulfill(future)
                                 lost => parsec_warning(..)   (takes and releases the output mutex: two more yield points)
   parsec_countable_future_set:  0 == fetch_dec(&count) - 1 => status |= COMPLETED ; cb_fulfill(future)
                                 else is_ready => parsec_warning(..)
   parsec_base_future_get:       while(1) { is_ready => rmb ; return tracked_data }      (spin hook at the loop's end)
   parsec_base_future_is_ready:  status & COMPLETED                                       (no yield point)

   Refinement of Future.tla: OneValue (tracked_data never changes once set), GetsAgree (every get returned that
   value), CbOnce, ReadyExact (countable: ready iff Count sets were counted). *)
EXTENDS Integers, Sequences, FiniteSets, TLC
CONSTANTS Thr, Prog, Kind, Count,
          DecIsZero          \* TRUE = variant testing the value BEFORE the decrement against 0 (sensitivity self-test)
(* Prog[t] = sequence of [op |-> "set", v |-> n] | [op |-> "get"] | [op |-> "isready"] *)
VARIABLES data, status, count, wmutex, cbs, first, nsets, pc, opi, ret, bad
vars == <<data, status, count, wmutex, cbs, first, nsets, pc, opi, ret, bad>>

Init == /\ data = 0 /\ status = FALSE /\ count = Count /\ wmutex = 0 /\ cbs = 0 /\ first = 0 /\ nsets = 0
        /\ pc = [t \in Thr |-> "idle"] /\ opi = [t \in Thr |-> 1] /\ ret = [t \in Thr |-> <<>>] /\ bad = FALSE
CurOp(t) == Prog[t][opi[t]]
HasOp(t) == opi[t] <= Len(Prog[t])
Done(t, r) == /\ ret' = [ret EXCEPT ![t] = Append(@, r)]
              /\ opi' = [opi EXCEPT ![t] = @ + 1]
              /\ pc' = [pc EXCEPT ![t] = "idle"]

\* ---- set
BeginSet(t) == /\ pc[t] = "idle" /\ HasOp(t) /\ CurOp(t).op = "set"
               /\ pc' = [pc EXCEPT ![t] = IF Kind = "base" THEN "s_cas" ELSE "c_dec"]
               /\ UNCHANGED <<data, status, count, wmutex, cbs, first, nsets, opi, ret, bad>>
SetCas(t) == /\ pc[t] = "s_cas"
             /\ IF data = 0
                THEN /\ data' = CurOp(t).v /\ first' = CurOp(t).v
                     /\ pc' = [pc EXCEPT ![t] = "s_wmb"]
                ELSE /\ pc' = [pc EXCEPT ![t] = "w_lock"]
                     /\ UNCHANGED <<data, first>>
             /\ UNCHANGED <<status, count, wmutex, cbs, nsets, opi, ret, bad>>
\* wmb ; status |= COMPLETED ; cb_fulfill
SetWmb(t) == /\ pc[t] = "s_wmb"
             /\ status' = TRUE /\ cbs' = cbs + 1
             /\ Done(t, 0)
             /\ UNCHANGED <<data, count, wmutex, first, nsets, bad>>
CntDec(t) == /\ pc[t] = "c_dec"
             /\ count' = count - 1 /\ nsets' = nsets + 1
             /\ IF (IF DecIsZero THEN count = 0 ELSE count - 1 = 0)
                THEN /\ status' = TRUE /\ cbs' = cbs + 1 /\ Done(t, 0)
                ELSE IF status THEN /\ pc' = [pc EXCEPT ![t] = "w_lock"] /\ UNCHANGED <<status, cbs, opi, ret>>
                               ELSE /\ Done(t, 0) /\ UNCHANGED <<status, cbs>>
             /\ UNCHANGED <<data, wmutex, first, bad>>
\* parsec_warning: output() under the global output mutex
WLock(t) == /\ pc[t] = "w_lock" /\ wmutex = 0
            /\ wmutex' = t /\ pc' = [pc EXCEPT ![t] = "w_unl"]
            /\ UNCHANGED <<data, status, count, cbs, first, nsets, opi, ret, bad>>
WUnl(t) == /\ pc[t] = "w_unl"
           /\ wmutex' = 0 /\ Done(t, 0)
           /\ UNCHANGED <<data, status, count, cbs, first, nsets, bad>>
\* ---- get / is_ready
BeginGet(t) == /\ pc[t] = "idle" /\ HasOp(t) /\ CurOp(t).op = "get"
               /\ pc' = [pc EXCEPT ![t] = IF status THEN "g_rmb" ELSE "g_spin"]
               /\ UNCHANGED <<data, status, count, wmutex, cbs, first, nsets, opi, ret, bad>>
GetSpin(t) == /\ pc[t] = "g_spin" /\ status
              /\ pc' = [pc EXCEPT ![t] = "g_rmb"]
              /\ UNCHANGED <<data, status, count, wmutex, cbs, first, nsets, opi, ret, bad>>
GetRmb(t) == /\ pc[t] = "g_rmb"
             /\ bad' = (bad \/ data # first \/ (Kind = "base" /\ data = 0))
             /\ Done(t, data)
             /\ UNCHANGED <<data, status, count, wmutex, cbs, first, nsets>>
IsReady(t) == /\ pc[t] = "idle" /\ HasOp(t) /\ CurOp(t).op = "isready"
              /\ Done(t, IF status THEN 1 ELSE 0)
              /\ UNCHANGED <<data, status, count, wmutex, cbs, first, nsets, bad>>

Step(t) == \/ BeginSet(t) \/ SetCas(t) \/ SetWmb(t) \/ CntDec(t) \/ WLock(t) \/ WUnl(t)
           \/ BeginGet(t) \/ GetSpin(t) \/ GetRmb(t) \/ IsReady(t)
Next == \E t \in Thr : Step(t)
Spec == Init /\ [][Next]_vars

AllDone == \A t \in Thr : ~HasOp(t)
OneValue == data = first
GetsAgree == ~bad
CbOnce == cbs <= 1 /\ (cbs = 1 <=> status)
ReadyExact == Kind = "count" => (status <=> nsets >= Count)
\* scenario sanity: nobody waits for ever in get
NoStuck == (\A t \in Thr : (pc[t] = "idle" /\ ~HasOp(t)) \/ pc[t] = "g_spin") => (status \/ \A t \in Thr : pc[t] = "idle")
=============================================================================
