---------------------------- MODULE DcFutImpl ----------------------------
(* Implementation-shaped model of the datacopy (reshape) future of parsec/class/parsec_datacopy_future.c, one
   action per segment of code between two yield points of the hooked build.  Futures are identified by the shape
   they track (Root = 1 is the future the callers hold, the others are its nested futures, in list order `nested`).

   get_or_trigger(root, spec):
     spec = NULL or match(root, spec)         => return internal(root)
     else lock(root) ; for item in nested_futures : data = internal(item) ;
                                                     NULL == data or match(item, spec) => unlock(root) ; return data
          none => cb_setup_nested(new) ; push_back ; unlock(root) ; return internal(new)
   internal(f):  !(status & COMPLETED) => { lock(f) ; !(status & TRIGGERED) => { status |= TRIGGERED ; cb_fulfill(f) } ;
                                            unlock(f) ; !(status & COMPLETED) => return NULL }  ;  return tracked_data
   cb_fulfill (harness): Sync => parsec_future_set(f, data) inside the callback; otherwise a later "complete" call.

   Refinement of Future.tla: FulfilOnce (at most one fulfilment per shape), NestedUnique (at most one nested future
   per shape), ResultsOK (a call returns NULL or the data of the requested shape, and never NULL when Sync). *)
EXTENDS Integers, Sequences, FiniteSets, TLC
CONSTANTS Thr, Prog, Shapes, Sync,
          TrigOutside        \* TRUE = variant testing TRIGGERED before taking the lock (sensitivity self-test)
(* Prog[t] = sequence of [op |-> "got", s |-> shape or 0] | [op |-> "complete", s |-> shape] *)
VARIABLES trig, comp, lock, nested, fulfils, pc, opi, loc, ret, bad
vars == <<trig, comp, lock, nested, fulfils, pc, opi, loc, ret, bad>>
Root == 1
NoLoc == [s |-> 0, f |-> 0, ctx |-> "top", idx |-> 0, data |-> 0, must |-> FALSE]
Init == /\ trig = [s \in Shapes |-> FALSE] /\ comp = [s \in Shapes |-> FALSE] /\ lock = [s \in Shapes |-> 0]
        /\ nested = <<>> /\ fulfils = [s \in Shapes |-> 0]
        /\ pc = [t \in Thr |-> "idle"] /\ opi = [t \in Thr |-> 1] /\ loc = [t \in Thr |-> NoLoc]
        /\ ret = [t \in Thr |-> <<>>] /\ bad = FALSE
CurOp(t) == Prog[t][opi[t]]
HasOp(t) == opi[t] <= Len(Prog[t])
Target(s) == IF s = 0 THEN Root ELSE s
Exists(s) == s = Root \/ \E i \in 1..Len(nested) : nested[i] = s

\* the call of thread t returns r
Return(t, r, lc) == /\ ret' = [ret EXCEPT ![t] = Append(@, r)]
                    /\ opi' = [opi EXCEPT ![t] = @ + 1]
                    /\ pc' = [pc EXCEPT ![t] = "idle"]
                    /\ loc' = [loc EXCEPT ![t] = NoLoc]
                    /\ bad' = (bad \/ (r # 0 /\ (r # Target(lc.s) \/ ~comp[r])) \/ (Sync /\ r = 0))
\* internal(f) returned `d` to its caller (lc = the thread's locals): continue there, up to the next yield point
RECURSIVE After(_, _, _, _)
\* enter internal(f) from context lc.ctx: completed futures answer without any yield point
Enter(t, f, lc, nst) ==
    IF comp[f] THEN After(t, f, [lc EXCEPT !.f = f], nst)
    ELSE /\ loc' = [loc EXCEPT ![t] = [lc EXCEPT !.f = f, !.must = ~trig[f]]]
         /\ pc' = [pc EXCEPT ![t] = "i_lock"]
         /\ nested' = nst
         /\ UNCHANGED <<opi, ret, bad>>
After(t, d, lc, nst) ==
    IF lc.ctx = "top" THEN Return(t, d, lc) /\ nested' = nst
    ELSE \* iterating over the nested futures, root lock held: lc.f = nested[lc.idx]
         IF d = 0 \/ lc.f = lc.s
         THEN /\ loc' = [loc EXCEPT ![t] = [lc EXCEPT !.data = d]]
              /\ pc' = [pc EXCEPT ![t] = "n_unl"]
              /\ nested' = nst
              /\ UNCHANGED <<opi, ret, bad>>
         ELSE IF lc.idx < Len(nst)
              THEN Enter(t, nst[lc.idx + 1], [lc EXCEPT !.idx = lc.idx + 1], nst)
              ELSE \* cb_setup_nested ; push_back ; next: unlock(root)
                   /\ nested' = Append(nst, lc.s)
                   /\ loc' = [loc EXCEPT ![t] = lc]
                   /\ pc' = [pc EXCEPT ![t] = "n_unlnew"]
                   /\ UNCHANGED <<opi, ret, bad>>

Begin(t) == /\ pc[t] = "idle" /\ HasOp(t) /\ CurOp(t).op = "got"
            /\ LET s == CurOp(t).s
                   lc == [NoLoc EXCEPT !.s = s]
               IN IF s = 0 \/ s = Root
                  THEN Enter(t, Root, [lc EXCEPT !.ctx = "top"], nested)
                  ELSE /\ loc' = [loc EXCEPT ![t] = [lc EXCEPT !.ctx = "iter"]]
                       /\ pc' = [pc EXCEPT ![t] = "n_lock"]
                       /\ UNCHANGED <<nested, opi, ret, bad>>
            /\ UNCHANGED <<trig, comp, lock, fulfils>>
\* lock(f) ; trigger once ; (next: the fence of unlock)
ILock(t) == /\ pc[t] = "i_lock" /\ lock[loc[t].f] = 0
            /\ LET f == loc[t].f
                   fire == IF TrigOutside THEN loc[t].must ELSE ~trig[f]
               IN /\ lock' = [lock EXCEPT ![f] = t]
                  /\ trig' = [trig EXCEPT ![f] = TRUE]
                  /\ fulfils' = [fulfils EXCEPT ![f] = IF fire THEN @ + 1 ELSE @]
                  /\ comp' = [comp EXCEPT ![f] = @ \/ (fire /\ Sync)]
            /\ pc' = [pc EXCEPT ![t] = "i_unl"]
            /\ UNCHANGED <<nested, opi, loc, ret, bad>>
IUnl(t) == /\ pc[t] = "i_unl"
           /\ lock' = [lock EXCEPT ![loc[t].f] = 0]
           /\ After(t, IF comp[loc[t].f] THEN loc[t].f ELSE 0, loc[t], nested)
           /\ UNCHANGED <<trig, comp, fulfils>>
NLock(t) == /\ pc[t] = "n_lock" /\ lock[Root] = 0
            /\ lock' = [lock EXCEPT ![Root] = t]
            /\ IF nested = <<>>
               THEN /\ nested' = <<loc[t].s>>
                    /\ pc' = [pc EXCEPT ![t] = "n_unlnew"]
                    /\ UNCHANGED <<opi, loc, ret, bad>>
               ELSE Enter(t, nested[1], [loc[t] EXCEPT !.idx = 1], nested)
            /\ UNCHANGED <<trig, comp, fulfils>>
NUnl(t) == /\ pc[t] = "n_unl"
           /\ lock' = [lock EXCEPT ![Root] = 0]
           /\ Return(t, loc[t].data, loc[t])
           /\ UNCHANGED <<trig, comp, nested, fulfils>>
NUnlNew(t) == /\ pc[t] = "n_unlnew"
              /\ lock' = [lock EXCEPT ![Root] = 0]
              /\ Enter(t, loc[t].s, [loc[t] EXCEPT !.ctx = "top"], nested)
              /\ UNCHANGED <<trig, comp, fulfils>>
\* harness: deliver the data of a triggered, not yet completed future (no yield point inside)
Complete(t) == /\ pc[t] = "idle" /\ HasOp(t) /\ CurOp(t).op = "complete"
               /\ LET s == CurOp(t).s
                      can == Exists(s) /\ fulfils[s] > 0 /\ ~comp[s]
                  IN /\ comp' = [comp EXCEPT ![s] = @ \/ can]
                     /\ ret' = [ret EXCEPT ![t] = Append(@, IF can THEN 1 ELSE 0)]
               /\ opi' = [opi EXCEPT ![t] = @ + 1]
               /\ UNCHANGED <<trig, lock, nested, fulfils, pc, loc, bad>>

Step(t) == Begin(t) \/ ILock(t) \/ IUnl(t) \/ NLock(t) \/ NUnl(t) \/ NUnlNew(t) \/ Complete(t)
Next == \E t \in Thr : Step(t)
Spec == Init /\ [][Next]_vars

FulfilOnce == \A s \in Shapes : fulfils[s] <= 1
NestedUnique == /\ \A i, j \in 1..Len(nested) : i # j => nested[i] # nested[j]
                /\ \A i \in 1..Len(nested) : nested[i] # Root
ResultsOK == ~bad
TrigOK == \A s \in Shapes : (fulfils[s] > 0 <=> trig[s]) /\ (comp[s] => trig[s])
==========================================================================
