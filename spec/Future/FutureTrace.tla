---------------------------- MODULE FutureTrace ----------------------------
(* Trace validation for C29: is a recorded history of the real futures a behaviour of Future.tla ?
   Events (ndjson, in stamp order):
     {"e":"init","kind":"base"|"count"|"dc","n":N,"sync":0|1}   N = count of a countable future
     {"e":"inv","t":T,"op":"set","v":V} | "op":"get" | "op":"isready" | "op":"got","sh":S | "op":"complete","sh":S
     {"e":"res","t":T,"op":..,"r":R}
     {"e":"cb","t":T}                completion callback of the base / countable future, logged inside it
     {"e":"setup","t":T,"sh":S}       a nested datacopy future for shape S is created (inside cb_setup_nested)
     {"e":"fulfil","t":T,"sh":S}      fulfilment callback of the datacopy future tracking shape S, logged inside it
     {"e":"cleanup","sh":S}           cleanup callback at destruction
     {"e":"final"}                   everything destroyed
     {"e":"Reset"}
   A set is linearized in two silent steps (Acc: the value / the count is decided, Pub: readiness is visible) and must
   have run the callback before it returns when it was the completing one.  get / is_ready are linearized between
   inv and res.  sync=1: the fulfilment callback sets the data itself (get_or_trigger can then never return NULL);
   sync=0: the data is set later by a "complete" call of the harness. *)
EXTENDS Future, Json, IOUtils, TLC
CONSTANTS Thr
VARIABLES l, pend, kind, sync, cleaned
tvars == <<val, ready, cbs, left, created, fulfils, done, l, pend, kind, sync, cleaned>>

TraceLog == ndJsonDeserialize(IOEnv.TRACE)
None == [op |-> "none"]
Ev == TraceLog[l]
IsEv(e) == l <= Len(TraceLog) /\ Ev.e = e /\ l' = l + 1
Idle == \A t \in Thr : pend[t] = None

FInitNext(n) == /\ val' = 0 /\ ready' = FALSE /\ cbs' = 0 /\ left' = n
                /\ created' = {Root} /\ fulfils' = [s \in Shapes |-> 0] /\ done' = {}
TInit == /\ FInit(0) /\ l = 1 /\ pend = [t \in Thr |-> None] /\ kind = "none" /\ sync = FALSE
         /\ cleaned = [s \in Shapes |-> 0]
TSetInit == /\ IsEv("init") /\ Idle
            /\ FInitNext(Ev.n) /\ kind' = Ev.kind /\ sync' = (Ev.sync = 1)
            /\ cleaned' = [s \in Shapes |-> 0] /\ UNCHANGED pend
TReset == /\ IsEv("Reset")
          /\ FInitNext(0) /\ kind' = "none" /\ sync' = FALSE /\ pend' = [t \in Thr |-> None]
          /\ cleaned' = [s \in Shapes |-> 0]

TInv == /\ IsEv("inv") /\ Ev.t \in Thr /\ pend[Ev.t] = None
        /\ pend' = [pend EXCEPT ![Ev.t] = [op |-> Ev.op, v |-> IF Ev.op = "set" THEN Ev.v ELSE 0,
                                           s |-> IF Ev.op \in {"got", "complete"} THEN Ev.sh ELSE 0,
                                           ph |-> 0, r |-> 0]]
        /\ UNCHANGED <<fvars, kind, sync, cleaned>>

\* ---- silent steps
Acc(t) == /\ pend[t] # None /\ pend[t].op = "set" /\ pend[t].ph = 0 /\ UNCHANGED <<l, kind, sync, cleaned>>
          /\ IF kind = "base"
             THEN /\ BaseAccept(pend[t].v)
                  /\ pend' = [pend EXCEPT ![t].ph = IF Won(pend[t].v) THEN 1 ELSE 3]
             ELSE /\ kind = "count" /\ CountAccept
                  /\ pend' = [pend EXCEPT ![t].ph = IF Hits THEN 1 ELSE 3]
Pub(t) == /\ pend[t] # None /\ pend[t].op = "set" /\ pend[t].ph = 1 /\ UNCHANGED <<l, kind, sync, cleaned>>
          /\ Publish /\ pend' = [pend EXCEPT ![t].ph = 2]
LinRead(t) == /\ pend[t] # None /\ pend[t].ph = 0 /\ UNCHANGED <<l, fvars, kind, sync, cleaned>>
              /\ CASE pend[t].op = "get"     -> GetEnabled /\ pend' = [pend EXCEPT ![t].ph = 3, ![t].r = val]
                   [] pend[t].op = "isready" -> pend' = [pend EXCEPT ![t].ph = 3, ![t].r = IF ready THEN 1 ELSE 0]
                   [] OTHER -> FALSE
LinComplete(t) == /\ pend[t] # None /\ pend[t].op = "complete" /\ pend[t].ph = 0 /\ UNCHANGED <<l, kind, sync, cleaned>>
                  /\ \/ Complete(pend[t].s) /\ pend' = [pend EXCEPT ![t].ph = 3, ![t].r = 1]
                     \/ UNCHANGED fvars /\ pend' = [pend EXCEPT ![t].ph = 3, ![t].r = 0]

\* ---- logged steps
TCb == /\ IsEv("cb") /\ Ev.t \in Thr /\ pend[Ev.t] # None /\ pend[Ev.t].op = "set" /\ pend[Ev.t].ph = 2
       /\ Callback /\ pend' = [pend EXCEPT ![Ev.t].ph = 3]
       /\ UNCHANGED <<kind, sync, cleaned>>
TSetup == /\ IsEv("setup") /\ Ev.t \in Thr /\ pend[Ev.t] # None /\ pend[Ev.t].op = "got" /\ pend[Ev.t].s = Ev.sh
          /\ Setup(Ev.sh) /\ UNCHANGED <<pend, kind, sync, cleaned>>
TFulfil == /\ IsEv("fulfil") /\ Ev.t \in Thr /\ pend[Ev.t] # None /\ pend[Ev.t].op = "got"
           /\ Ev.sh \in created /\ fulfils[Ev.sh] = 0
           /\ fulfils' = [fulfils EXCEPT ![Ev.sh] = 1]
           /\ done' = IF sync THEN done \cup {Ev.sh} ELSE done
           /\ UNCHANGED <<val, ready, cbs, left, created, pend, kind, sync, cleaned>>
TRes == /\ IsEv("res") /\ Ev.t \in Thr /\ pend[Ev.t] # None /\ pend[Ev.t].op = Ev.op
        /\ IF Ev.op = "got"
           THEN GotOK(pend[Ev.t].s, Ev.r) /\ (sync => Ev.r # 0)
           ELSE pend[Ev.t].ph = 3 /\ pend[Ev.t].r = Ev.r
        /\ pend' = [pend EXCEPT ![Ev.t] = None]
        /\ UNCHANGED <<fvars, kind, sync, cleaned>>
TCleanup == /\ IsEv("cleanup") /\ Idle /\ Ev.sh \in created /\ cleaned[Ev.sh] = 0
            /\ cleaned' = [cleaned EXCEPT ![Ev.sh] = 1]
            /\ UNCHANGED <<fvars, pend, kind, sync>>
TFinal == /\ IsEv("final") /\ Idle
          /\ kind = "dc" => \A s \in created : cleaned[s] = 1
          /\ UNCHANGED <<fvars, pend, kind, sync, cleaned>>

TNext == \/ TSetInit \/ TReset \/ TInv \/ TCb \/ TSetup \/ TFulfil \/ TRes \/ TCleanup \/ TFinal
         \/ \E t \in Thr : Acc(t) \/ Pub(t) \/ LinRead(t) \/ LinComplete(t)
TSpec == TInit /\ [][TNext]_tvars

AcceptExit == (l > Len(TraceLog)) => (PrintT("VERIF-ACCEPTED") /\ TLCSet("exit", TRUE))
============================================================================
