SPECIFICATION FSpec
CONSTANTS Shapes = {1,2,3}
INVARIANTS TypeOK
CHECK_DEADLOCK FALSE
