/* C36 harness: replays operation sequences (TLC behaviours of RB.tla) on the real parsec_rbtree_* and logs
 * the whole tree + all lookup results after every operation (validated by RBTrace.tla).
 *   rb_replay <histories.txt> <trace.ndjson> <maxkey>
 * histories.txt: one behaviour per line:  "ins 3;rem 2;upd 1 4"
 */
#include "parsec/parsec_config.h"
#include "parsec/class/parsec_object.h"
#include "parsec/class/parsec_rbtree.h"
#include <stdio.h>
#include <stdlib.h>
#include <string.h>
#include <stddef.h>

#define MAXK 4096
typedef struct { parsec_rbtree_node_t super; int key; } node_t;
PARSEC_OBJ_CLASS_DECLARATION(node_t);
PARSEC_OBJ_CLASS_INSTANCE(node_t, parsec_rbtree_node_t, NULL, NULL);
static node_t *byk[MAXK + 2];
static parsec_rbtree_t tree;
static FILE *out;
static int maxkey;

#define L(n) ((parsec_rbtree_node_t*)(n)->super.list_prev)
#define R(n) ((parsec_rbtree_node_t*)(n)->super.list_next)
static int keyof(parsec_rbtree_node_t *n) { return (n == tree.nil || NULL == n) ? 0 : ((node_t*)n)->key; }

static int first;
static void dump_node(parsec_rbtree_node_t *n, void *d)
{
    (void)d;
    fprintf(out, "%s{\"k\":%d,\"c\":%d,\"l\":%d,\"r\":%d,\"p\":%d}", first ? "" : ",", keyof(n),
            n->color == PARSEC_RBTREE_BLACK ? 1 : 0, keyof(L(n)), keyof(R(n)), keyof(n->parent));
    first = 0;
}

/* the tree is walked through our own bounded traversal (foreach could loop on a corrupted tree) */
static int walk(parsec_rbtree_node_t *n, int fuel)
{
    if( n == tree.nil || NULL == n || fuel <= 0 ) return fuel;
    dump_node(n, NULL);
    fuel = walk(L(n), fuel - 1);
    return walk(R(n), fuel);
}

static void log_state(const char *op, int k, int nk, int rc, int live)
{
    int q;
    fprintf(out, "{\"e\":\"op\",\"op\":\"%s\",\"k\":%d,\"nk\":%d,\"rc\":%d,\"root\":%d,\"nodes\":[", op, k, nk, rc, keyof(tree.root));
    first = 1;
    walk(tree.root, live + 2);
    fprintf(out, "],\"find\":[");
    for( q = 0; q <= maxkey + 1; q++ ) fprintf(out, "%s%d", q ? "," : "", NULL != parsec_rbtree_find(&tree, q) ? 1 : 0);
    fprintf(out, "],\"fol\":[");
    for( q = 0; q <= maxkey + 1; q++ ) fprintf(out, "%s%d", q ? "," : "", keyof(parsec_rbtree_find_or_larger(&tree, q)));
    fprintf(out, "]}\n");
}

int main(int argc, char **argv)
{
    char *line = NULL; size_t cap = 0; long nexec = 0;
    FILE *in;
    if( argc < 4 ) return 3;
    in = fopen(argv[1], "r"); out = fopen(argv[2], "w"); maxkey = atoi(argv[3]);
    if( !in || !out || maxkey >= MAXK ) return 3;
    while( getline(&line, &cap, in) > 0 ) {
        char *save = NULL, *tok;
        int live = 0, k;
        if( nexec++ ) fprintf(out, "{\"e\":\"Reset\"}\n");
        parsec_rbtree_init(&tree, offsetof(node_t, key));
        memset(byk, 0, sizeof(byk));
        for( tok = strtok_r(line, ";\n", &save); tok; tok = strtok_r(NULL, ";\n", &save) ) {
            char op[8]; int a = 0, b = 0, rc = 0;
            if( sscanf(tok, "%7s %d %d", op, &a, &b) < 2 ) continue;
            if( !strcmp(op, "ins") ) {
                node_t *n = PARSEC_OBJ_NEW(node_t);
                n->key = a; byk[a] = n; live++;
                parsec_rbtree_insert(&tree, &n->super);
            } else if( !strcmp(op, "rem") ) {
                parsec_rbtree_remove(&tree, &byk[a]->super);
                PARSEC_OBJ_RELEASE(byk[a]); byk[a] = NULL; live--;
            } else if( !strcmp(op, "upd") ) {
                rc = parsec_rbtree_update_node(&tree, &byk[a]->super, b);
                if( 0 == rc ) { node_t *n = byk[a]; byk[a] = NULL; byk[b] = n; n->key = b; }
            }
            log_state(op, a, b, rc, live);
        }
        for( k = 0; k <= maxkey + 1; k++ ) if( byk[k] ) { PARSEC_OBJ_RELEASE(byk[k]); byk[k] = NULL; }
        parsec_rbtree_fini(&tree);
    }
    fclose(out);
    return 0;
}
