/* C32 harness: drives the real parsec_hash_table_{insert,find,remove} and the lock_bucket/nolock/unlock_bucket
 * idiom along TLC-generated schedules (mode replay), over every interleaving at yield-point granularity (mode
 * explore; `coarse` = fences are not yield points), or free-running (mode stress); records an inv/res history
 * plus the visit sequence of parsec_hash_table_for_all on the quiescent table as ndjson for MapTrace.tla.
 *
 *   ht_replay replay  <scenario> <schedules> <trace.ndjson> <meta.ndjson>
 *   ht_replay explore <scenario> <limit>     <trace.ndjson> <meta.ndjson> [coarse]
 *   ht_replay random  <scenario> <runs>      <trace.ndjson> <meta.ndjson> <seed>     (seeded random schedules)
 *   ht_replay stress  <scenario> <runs>      <trace.ndjson> <meta.ndjson>
 *
 * scenario file:  keys k k k / bits B / hint H / init k k / threads T / t <tid> op op ...   with op in
 *                 ins:<k>  find:<k>  rem:<k>  getput:<k>  reins:<j>
 */
#include "parsec/parsec_config.h"
#include "parsec/class/parsec_object.h"
#include "parsec/class/parsec_hash_table.h"
#include <stdio.h>
#include <stdlib.h>
#include <string.h>
#include <stddef.h>
#include <ctype.h>
#define VT_LINE 1024
#include "vtrace.h"
#include "vsched.h"

#define MAXK 64
#define MAXOPS 32
#define MAXT 16
enum { OP_INS, OP_FIND, OP_REM, OP_GETPUT, OP_REINS };
static const char *opname[] = { "ins", "find", "rem", "getput", "ins" };
typedef struct { int kind; int k; int j; } op_t;
typedef struct { parsec_hash_table_item_t ht_item; int id; int pad; } item_t;

static int nkeys, keys[MAXK], ninit, init_keys[MAXK], nthreads, nops[MAXT], bits = 1, hint = 1;
static op_t ops[MAXT][MAXOPS];
static parsec_hash_table_t ht;
static item_t *items[MAXK];
static int results[MAXT][MAXOPS];
static int controlled = 1;
static int visited[4 * MAXK], nvisited;

static void die(const char *m) { fprintf(stderr, "ht_replay: %s\n", m); exit(3); }

static item_t *item_of(int k)
{
    int i;
    for( i = 0; i < nkeys; i++ ) if( keys[i] == k ) return items[i];
    die("key outside of the universe");
    return NULL;
}

static void parse_scenario(const char *path)
{
    FILE *f = fopen(path, "r");
    char line[4096];
    if( !f ) die("cannot open scenario");
    while( fgets(line, sizeof(line), f) ) {
        char *tok = strtok(line, " \t\n");
        if( !tok ) continue;
        if( !strcmp(tok, "keys") ) { while( (tok = strtok(NULL, " \t\n")) ) { if( nkeys >= MAXK ) die("too many keys"); keys[nkeys++] = atoi(tok); } }
        else if( !strcmp(tok, "bits") ) bits = atoi(strtok(NULL, " \t\n"));
        else if( !strcmp(tok, "hint") ) hint = atoi(strtok(NULL, " \t\n"));
        else if( !strcmp(tok, "threads") ) nthreads = atoi(strtok(NULL, " \t\n"));
        else if( !strcmp(tok, "init") ) { while( (tok = strtok(NULL, " \t\n")) ) init_keys[ninit++] = atoi(tok); }
        else if( !strcmp(tok, "t") ) {
            int t = atoi(strtok(NULL, " \t\n"));
            if( t >= MAXT ) die("too many threads");
            while( (tok = strtok(NULL, " \t\n")) ) {
                op_t *o;
                if( nops[t] >= MAXOPS ) die("too many operations");
                o = &ops[t][nops[t]++];
                memset(o, 0, sizeof(*o));
                if( !strncmp(tok, "ins:", 4) ) { o->kind = OP_INS; o->k = atoi(tok + 4); }
                else if( !strncmp(tok, "find:", 5) ) { o->kind = OP_FIND; o->k = atoi(tok + 5); }
                else if( !strncmp(tok, "rem:", 4) ) { o->kind = OP_REM; o->k = atoi(tok + 4); }
                else if( !strncmp(tok, "getput:", 7) ) { o->kind = OP_GETPUT; o->k = atoi(tok + 7); }
                else if( !strncmp(tok, "reins:", 6) ) { o->kind = OP_REINS; o->j = atoi(tok + 6); }
                else die("bad op");
            }
        }
    }
    fclose(f);
    if( nthreads > MAXT ) die("scenario too large");
}

static void setup(void)
{
    int i;
    PARSEC_OBJ_CONSTRUCT(&ht, parsec_hash_table_t);
    parsec_hash_table_init(&ht, offsetof(item_t, ht_item), bits, parsec_hash_table_generic_key_fn, NULL);
    ht.max_collisions_hint = hint;        /* what the MCA parameter parsec_hash_table_max_collisions_hint sets */
    ht.max_table_nb_bits = 16;
    ht.warning_issued = 1;                /* no parsec_init here: keep the (irrelevant) warning path silent */
    for( i = 0; i < nkeys; i++ ) {
        items[i] = (item_t*)calloc(1, sizeof(item_t));
        items[i]->id = keys[i];
        items[i]->ht_item.key = (parsec_key_t)keys[i];
    }
    for( i = 0; i < ninit; i++ ) parsec_hash_table_insert(&ht, &item_of(init_keys[i])->ht_item);
    memset(results, 0, sizeof(results));
}

static void teardown(void)
{
    int i;
    for( i = 0; i < nkeys; i++ ) (void)parsec_hash_table_remove(&ht, (parsec_key_t)keys[i]);
    parsec_hash_table_fini(&ht);
    PARSEC_OBJ_DESTRUCT(&ht);
    for( i = 0; i < nkeys; i++ ) { free(items[i]); items[i] = NULL; }
}

static int id_of(void *p) { return NULL == p ? 0 : ((item_t*)p)->id; }

static void do_op(int tid, int kind, int k, int *res)
{
    const char *n = opname[kind];
    void *p = NULL;
    vt_ev("\"e\":\"inv\",\"t\":%d,\"op\":\"%s\",\"k\":%d", tid + 1, n, k);
    switch( kind ) {
    case OP_INS: case OP_REINS:
        parsec_hash_table_insert(&ht, &item_of(k)->ht_item);
        break;
    case OP_FIND:
        p = parsec_hash_table_find(&ht, (parsec_key_t)k);
        break;
    case OP_REM:
        p = parsec_hash_table_remove(&ht, (parsec_key_t)k);
        break;
    case OP_GETPUT: {
        parsec_key_handle_t kh;
        parsec_hash_table_lock_bucket_handle(&ht, (parsec_key_t)k, &kh);
        p = parsec_hash_table_nolock_find_handle(&ht, &kh);
        if( NULL == p ) parsec_hash_table_nolock_insert_handle(&ht, &kh, &item_of(k)->ht_item);
        parsec_hash_table_unlock_bucket_handle(&ht, &kh);
        break; }
    }
    *res = id_of(p);
    vt_ev("\"e\":\"res\",\"t\":%d,\"op\":\"%s\",\"r\":%d", tid + 1, n, *res);
}

static void body(int tid, void *arg)
{
    int i;
    (void)arg;
    for( i = 0; i < nops[tid]; i++ ) {
        op_t *o = &ops[tid][i];
        if( i > 0 && controlled ) vs_yield();          /* operation boundary = yield point */
        if( OP_REINS == o->kind ) {
            if( results[tid][o->j - 1] > 0 ) do_op(tid, OP_REINS, results[tid][o->j - 1], &results[tid][i]);
        } else
            do_op(tid, o->kind, o->k, &results[tid][i]);
    }
}

static FILE *meta;
static long nexec = 0;

static void visit(void *item, void *cb) { (void)cb; if( nvisited < 4 * MAXK ) visited[nvisited++] = id_of(item); }

/* after every thread finished: iterate over the quiescent table, then observe the content key by key */
static void observe(void)
{
    char buf[900]; int n = 0, i, r;
    nvisited = 0;
    parsec_hash_table_for_all(&ht, visit, NULL);
    buf[0] = 0;
    for( i = 0; i < nvisited && n < 880; i++ ) n += snprintf(buf + n, sizeof(buf) - n, "%s%d", i ? "," : "", visited[i]);
    vt_ev("\"e\":\"forall\",\"items\":[%s]", buf);
    for( i = 0; i < nkeys; i++ ) do_op(nthreads, OP_FIND, keys[i], &r);
}

static void finish_execution(vs_run_t *r)
{
    int t, i;
    if( nexec++ ) vt_reset_marker();
    {
        char buf[512]; int n = 0;
        buf[0] = 0;
        for( i = 0; i < ninit; i++ ) n += snprintf(buf + n, sizeof(buf) - n, "%s%d", i ? "," : "", init_keys[i]);
        vt_raw("{\"e\":\"init\",\"keys\":[%s]}", buf);
    }
    vt_dump();
    if( r && r->deadlock ) vt_raw("{\"e\":\"Timeout\"}");
    fprintf(meta, "{\"sched\":\"");
    if( r ) for( i = 0; i < r->nsteps; i++ ) fputc('0' + r->who[i], meta);
    fprintf(meta, "\",\"deadlock\":%d,\"ret\":[", r ? r->deadlock : 0);
    for( t = 0; t < nthreads; t++ ) {
        fprintf(meta, "%s[", t ? "," : "");
        for( i = 0; i < nops[t]; i++ ) fprintf(meta, "%s%d", i ? "," : "", results[t][i]);
        fputc(']', meta);
    }
    fprintf(meta, "],\"forall\":[");
    for( i = 0; i < nvisited; i++ ) fprintf(meta, "%s%d", i ? "," : "", visited[i]);
    fprintf(meta, "]}\n");
}

static int once(void *ctx, const unsigned char *sched, int slen, vs_run_t *r)
{
    (void)ctx;
    setup();
    vs_run(r, nthreads, body, NULL, sched, slen, 4000);
    nvisited = 0;
    if( !r->deadlock ) observe();
    finish_execution(r);
    if( r->deadlock ) { fflush(meta); vt_close(); _exit(0); }   /* parked threads: cannot continue safely */
    teardown();
    return 0;
}

/* yield-point handler that does not stop at fences (one thread runs at a time: a fence has no effect of its own) */
static void coarse_point(int kind, const volatile void *addr)
{
    if( PARSEC_VERIF_K_FENCE == kind ) return;
    vs_point(kind, addr);
}

static void *stress_thread(void *p) { body((int)(intptr_t)p, NULL); return NULL; }

int main(int argc, char **argv)
{
    if( argc < 6 ) die("usage");
    parse_scenario(argv[2]);
    vt_init(1 << 14);
    if( vt_open(argv[4]) ) die("cannot open trace output");
    meta = fopen(argv[5], "w");
    if( !strcmp(argv[1], "replay") ) {
        FILE *sf = fopen(argv[3], "r");
        char line[VS_MAXSTEPS + 2];
        static vs_run_t r;
        if( !sf ) die("cannot open schedules");
        vs_install();
        while( fgets(line, sizeof(line), sf) ) {
            unsigned char sched[VS_MAXSTEPS]; int n = 0; char *p;
            for( p = line; *p && n < VS_MAXSTEPS; p++ ) if( isdigit((unsigned char)*p) ) sched[n++] = (unsigned char)(*p - '0');
            once(NULL, sched, n, &r);
        }
        fclose(sf);
    } else if( !strcmp(argv[1], "explore") ) {
        long n;
        vs_install();
        if( argc > 6 && !strcmp(argv[6], "coarse") ) parsec_verif_point_fn = coarse_point;
        n = vs_explore(once, NULL, atol(argv[3]));
        fprintf(meta, "{\"explored\":%ld,\"exhaustive\":%s}\n", n < 0 ? -n : n, n < 0 ? "false" : "true");
    } else if( !strcmp(argv[1], "random") ) {
        /* seeded random schedules: bursts of 1..8 steps of one thread (deterministic for a given seed) */
        long runs = atol(argv[3]), k;
        uint64_t x = 0x9E3779B97F4A7C15ULL ^ (uint64_t)(argc > 6 ? atol(argv[6]) : 1);
        static vs_run_t r;
        vs_install();
        for( k = 0; k < runs; k++ ) {
            static unsigned char sched[VS_MAXSTEPS]; int n = 0;
            while( n < 1200 ) {
                int t, b;
                x ^= x << 13; x ^= x >> 7; x ^= x << 17;
                t = (int)((x >> 20) % (uint64_t)nthreads);
                b = 1 + (int)((x >> 40) % 8);
                if( (x >> 60) & 1 ) b = 1;
                while( b-- > 0 && n < 1200 ) sched[n++] = (unsigned char)t;
            }
            once(NULL, sched, n, &r);
        }
    } else if( !strcmp(argv[1], "stress") ) {
        long runs = atol(argv[3]), k; int t;
        controlled = 0;
        for( k = 0; k < runs; k++ ) {
            pthread_t th[MAXT];
            setup();
            for( t = 0; t < nthreads; t++ ) pthread_create(&th[t], NULL, stress_thread, (void*)(intptr_t)t);
            for( t = 0; t < nthreads; t++ ) pthread_join(th[t], NULL);
            observe();
            finish_execution(NULL);
            teardown();
        }
    } else die("bad mode");
    fclose(meta);
    vt_close();
    return 0;
}
