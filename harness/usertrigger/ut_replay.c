/* C12 harness: N virtual ranks of the real user_trigger termination detector inside one process.
 *
 *   ut_replay replay <behaviours.txt> <trace.ndjson>     event-by-event executions (TLC behaviours of UserTrigger.tla)
 *   ut_replay sweep  <runs.txt>       <trace.ndjson>     one "run" line per (N, root, delivery order)
 *   ut_replay conc   <script.txt>     <trace.ndjson> <meta.ndjson>
 *                    several controlled threads of ONE virtual rank call the module concurrently (vsched.h); schedules
 *                    of UserTriggerImpl.tla are replayed and / or every interleaving at yield-point granularity is explored
 *
 * behaviours.txt: one behaviour per line:   "N;R 0;R 2;T 2;D 2 3;R 1;..."   (Ready r / Trigger r / Deliver src dst)
 * runs.txt:       one run per line:         "N root order seed"     order: 0 = FIFO, 1 = LIFO, 2 = random(seed)
 * script.txt:     S <id> <N> <me> <root> <pre>     scenario: the threads run on virtual rank <me>; root == me: one of them
 *                                                  triggers, else <root> triggers first and the notification for <me> is
 *                                                  dispatched by a thread (op msg); <pre> = runtime actions accounted
 *                                                  (addto_runtime_actions(+1)) before the threads start
 *                 T <op> <op> ...                  one line per thread; op = trig | msg | add:<v> | tsk | chk
 *                 R <digits>                       replay this schedule (thread ids) on the current scenario
 *                 X <limit>                        explore every interleaving of the current scenario (vs_explore)
 *                 (the yield points are the parsec_atomic_* operations of the module and every send_am)
 *
 * Every virtual rank r has its own parsec_context_t copy (my_rank = r, nb_nodes = N) and its own parsec_taskpool_t;
 * all taskpools share one taskpool_id.  parsec_ce.send_am is replaced by a recording stub; a recorded message is
 * delivered by calling the real parsec_termdet_user_trigger_msg_dispatch after the receiver's taskpool has been put
 * in the id registry.  The module's delayed-message list is process-wide: the harness keeps one list per virtual
 * rank and swaps the content of the real list around every call (that is what "one list per process" means).
 */
#include "parsec/parsec_config.h"
#include "parsec/runtime.h"
#include "parsec/parsec_internal.h"
#include "parsec/execution_stream.h"
#include "parsec/parsec_comm_engine.h"
#include "parsec/mca/termdet/termdet.h"
#include "parsec/mca/termdet/user_trigger/termdet_user_trigger.h"
#include "parsec/class/list.h"
#include <mpi.h>
#include <stdio.h>
#include <stdlib.h>
#include <string.h>
#include "vsched.h"

typedef struct { int src, dst, cause; parsec_termdet_user_trigger_msg_t m; int size; int live; int tid; } vmsg_t;

static parsec_context_t *real_ctx;
static int N;
static parsec_context_t *vctx;          /* N copies */
static parsec_taskpool_t *vtp;          /* N taskpools */
static int *cbcount;
static parsec_list_item_t ***dly;       /* dly[r] = parked delayed-message items of virtual rank r */
static int *ndly;
static uint32_t shared_id;
static int cur_rank = -1;               /* virtual rank whose code is running */
static int cur_cause = 0;               /* index (1-based) of the delivery being processed, 0 = trigger */
static vmsg_t *msgs; static int nmsgs, capmsgs;
static FILE *out;
static int eventlevel;

static int stub_send_am(parsec_comm_engine_t *ce, parsec_ce_tag_t tag, int remote, void *addr, size_t size)
{
    (void)ce;
    vs_yield();                          /* a send goes to the communication engine: the broadcast is interruptible here
                                          * (no-op for a thread that is not under the cooperative scheduler) */
    if( nmsgs == capmsgs ) { capmsgs = capmsgs ? 2 * capmsgs : 1024; msgs = realloc(msgs, capmsgs * sizeof(vmsg_t)); }
    vmsg_t *m = &msgs[nmsgs++];
    m->src = cur_rank; m->dst = remote; m->cause = cur_cause; m->live = 1;
    m->tid = (NULL != vs_me) ? vs_me->tid + 1 : 0;
    m->size = (int)size;
    memset(&m->m, 0, sizeof(m->m));
    memcpy(&m->m, addr, size < sizeof(m->m) ? size : sizeof(m->m));
    if( tag != PARSEC_TERMDET_USER_TRIGGER_MSG_TAG || size != sizeof(parsec_termdet_user_trigger_msg_t) )
        m->dst = -1000000 - remote;      /* never deliverable: shows up as a bad send */
    if( eventlevel ) fprintf(out, "{\"e\":\"send\",\"src\":%d,\"dst\":%d}\n", m->src, m->dst);
    return 1;
}

static int conc_mode = 0;
static void term_cb(parsec_taskpool_t *tp)
{
    cbcount[tp->context->my_rank]++;
    if( conc_mode ) fprintf(out, "{\"e\":\"cb\",\"r\":%d}\n", tp->context->my_rank);
}

/* ---- per-virtual-rank view of the process-wide delayed list ---------------------------------------------------- */
static void dly_load(int r)
{
    for( int i = 0; i < ndly[r]; i++ )
        parsec_list_nolock_push_back(&parsec_termdet_user_trigger_delayed_messages, dly[r][i]);
    ndly[r] = 0;
}
static void dly_store(int r)
{
    parsec_list_item_t *it;
    while( NULL != (it = parsec_list_nolock_pop_front(&parsec_termdet_user_trigger_delayed_messages)) ) {
        dly[r] = realloc(dly[r], (ndly[r] + 1) * sizeof(parsec_list_item_t*));
        dly[r][ndly[r]++] = it;
    }
}

static void setup(int n)
{
    N = n;
    vctx = calloc(N, sizeof(parsec_context_t));
    vtp = calloc(N, sizeof(parsec_taskpool_t));
    cbcount = calloc(N, sizeof(int));
    dly = calloc(N, sizeof(*dly)); ndly = calloc(N, sizeof(int));
    nmsgs = 0;
    for( int r = 0; r < N; r++ ) {
        memcpy(&vctx[r], real_ctx, sizeof(parsec_context_t));
        vctx[r].my_rank = r; vctx[r].nb_nodes = N;
        PARSEC_OBJ_CONSTRUCT(&vtp[r], parsec_list_item_t);
        vtp[r].context = &vctx[r];
        vtp[r].taskpool_id = shared_id;
        vtp[r].nb_pending_actions = 0;
        parsec_termdet_open_module(&vtp[r], "user_trigger");
        vtp[r].tdm.module->monitor_taskpool(&vtp[r], term_cb);
    }
}

static void teardown(void)
{
    for( int r = 0; r < N; r++ ) {
        for( int i = 0; i < ndly[r]; i++ ) free(dly[r][i]);
        free(dly[r]);
        free(vtp[r].tdm.monitor);
    }
    free(dly); free(ndly); free(vctx); free(vtp); free(cbcount);
    vctx = NULL; vtp = NULL;
}

static void do_ready(int r)
{
    cur_rank = r;
    parsec_taskpool_register(&vtp[r]);
    dly_load(r);
    vtp[r].tdm.module->taskpool_ready(&vtp[r]);
    dly_store(r);
    cur_rank = -1;
}

static void do_trigger(int r)
{
    cur_rank = r; cur_cause = 0;
    parsec_taskpool_register(&vtp[r]);
    vtp[r].tdm.module->taskpool_set_nb_tasks(&vtp[r], 0);
    cur_rank = -1;
}

static void do_deliver(int k, int cause)
{
    vmsg_t m = msgs[k];            /* copy: the array may be reallocated by the sends of the receiver */
    msgs[k].live = 0;
    cur_rank = m.dst; cur_cause = cause;
    parsec_taskpool_register(&vtp[m.dst]);
    dly_load(m.dst);               /* (empty unless the rank is not ready yet) */
    parsec_termdet_user_trigger_msg_dispatch(&parsec_ce, PARSEC_TERMDET_USER_TRIGGER_MSG_TAG, &m.m, m.size, m.src, NULL);
    dly_store(m.dst);
    cur_rank = -1;
}

static int find_msg(int src, int dst)
{
    for( int k = 0; k < nmsgs; k++ ) if( msgs[k].live && msgs[k].src == src && msgs[k].dst == dst ) return k;
    return -1;
}
static int first_live(void)
{
    for( int k = 0; k < nmsgs; k++ ) if( msgs[k].live && msgs[k].dst >= 0 && msgs[k].dst < N ) return k;
    return -1;
}

static void log_end(void)
{
    fprintf(out, "{\"e\":\"end\",\"cb\":[");
    for( int r = 0; r < N; r++ ) fprintf(out, "%s%d", r ? "," : "", cbcount[r]);
    fprintf(out, "],\"st\":[");
    for( int r = 0; r < N; r++ ) fprintf(out, "%s%d", r ? "," : "", (int)vtp[r].tdm.module->taskpool_state(&vtp[r]));
    fprintf(out, "]}\n");
}

static int run_behaviour(char *line)
{
    char *save = NULL, *tok = strtok_r(line, ";\n", &save);
    int n = tok ? atoi(tok) : 0, diverged = 0, ndeliv = 0, triggered = 0;
    if( n < 1 ) return -1;
    char *ready = calloc(n, 1);
    setup(n);
    fprintf(out, "{\"e\":\"cfg\",\"n\":%d}\n", n);
    for( tok = strtok_r(NULL, ";\n", &save); tok; tok = strtok_r(NULL, ";\n", &save) ) {
        int a = -1, b = -1; char op = tok[0];
        sscanf(tok + 1, "%d %d", &a, &b);
        if( op == 'R' ) {
            fprintf(out, "{\"e\":\"ready\",\"r\":%d}\n", a);
            ready[a] = 1; do_ready(a);
        } else if( op == 'T' ) {
            fprintf(out, "{\"e\":\"trigger\",\"r\":%d}\n", a);
            triggered = 1; do_trigger(a);
        } else if( op == 'D' ) {
            int k = find_msg(a, b);
            if( k < 0 ) { diverged = 1; break; }      /* the model expects a message the code did not send */
            fprintf(out, "{\"e\":\"deliver\",\"src\":%d,\"dst\":%d}\n", a, b);
            do_deliver(k, ++ndeliv);
        }
    }
    /* finish the execution whatever happened: every rank ready, everything deliverable delivered (FIFO) */
    for( int r = 0; r < n; r++ ) if( !ready[r] ) { fprintf(out, "{\"e\":\"ready\",\"r\":%d}\n", r); do_ready(r); diverged = 1; }
    if( triggered ) {
        int k, guard = 0;
        while( (k = first_live()) >= 0 && guard++ < 100000 ) {
            diverged = 1;
            fprintf(out, "{\"e\":\"deliver\",\"src\":%d,\"dst\":%d}\n", msgs[k].src, msgs[k].dst);
            do_deliver(k, ++ndeliv);
        }
    }
    log_end();
    teardown();
    free(ready);
    return diverged;
}

/* ---- concurrent mode: controlled threads on one virtual rank ---------------------------------------------------- */
enum { C_TRIG, C_MSG, C_ADD, C_TSK, C_CHK };
#define C_MAXOPS 8
typedef struct { int kind, v; } cop_t;
static char c_id[64];
static int c_n, c_me, c_root, c_pre, c_nthr, c_nops[VS_MAXT];
static cop_t c_ops[VS_MAXT][C_MAXOPS];
static int c_ret[VS_MAXT][C_MAXOPS], c_nret[VS_MAXT];
static FILE *meta;
static long c_nexec = 0;
static const char *c_opname[] = { "trig", "msg", "add", "tsk", "chk" };

static void conc_body(int tid, void *arg)
{
    parsec_taskpool_t *tp = &vtp[c_me];
    const parsec_termdet_base_module_t *mod = tp->tdm.module;
    (void)arg;
    for( int i = 0; i < c_nops[tid]; i++ ) {
        cop_t *o = &c_ops[tid][i];
        int r = 0;
        switch( o->kind ) {
        case C_CHK:      /* the accounting helpers may only be used on a taskpool that is not TERMINATED */
            r = (PARSEC_TERM_TP_TERMINATED != mod->taskpool_state(tp));
            break;
        case C_ADD:
            r = mod->taskpool_addto_runtime_actions(tp, o->v);
            break;
        case C_TSK:
            vs_yield();                                  /* operation boundary (the call has no yield point of its own) */
            r = mod->taskpool_addto_nb_tasks(tp, -1);
            if( PARSEC_UNDETERMINED_NB_TASKS == r ) r = -1;
            break;
        case C_TRIG:
            fprintf(out, "{\"e\":\"trigger\",\"r\":%d}\n", c_me);
            r = mod->taskpool_set_nb_tasks(tp, 0);
            break;
        case C_MSG: {
            int k;
            for( k = 0; k < nmsgs; k++ ) if( msgs[k].live && msgs[k].dst == c_me ) break;
            if( k == nmsgs ) { r = -1; break; }          /* the parent sent nothing to this rank: it will never be notified */
            vmsg_t m = msgs[k];
            msgs[k].live = 0;
            fprintf(out, "{\"e\":\"deliver\",\"src\":%d,\"dst\":%d}\n", m.src, m.dst);
            r = parsec_termdet_user_trigger_msg_dispatch(&parsec_ce, PARSEC_TERMDET_USER_TRIGGER_MSG_TAG, &m.m, m.size, m.src, NULL);
            break; }
        }
        c_ret[tid][c_nret[tid]++] = r;
        fprintf(out, "{\"e\":\"op\",\"t\":%d,\"op\":\"%s\",\"v\":%d,\"r\":%d}\n", tid + 1, c_opname[o->kind], o->v, r);
        if( C_CHK == o->kind && 0 == r ) return;          /* TERMINATED: nothing to account any more */
    }
}

static int conc_once(void *ctx, const unsigned char *sched, int slen, vs_run_t *r)
{
    const char *mode = (const char*)ctx;
    int ndeliv = 0, guard, k, first_msg;
    if( c_nexec++ ) fprintf(out, "{\"e\":\"Reset\"}\n");
    setup(c_n);
    fprintf(out, "{\"e\":\"cfg\",\"n\":%d}\n", c_n);
    for( int q = 0; q < c_n; q++ ) { fprintf(out, "{\"e\":\"ready\",\"r\":%d}\n", q); do_ready(q); }
    if( c_root != c_me ) {          /* somebody else triggers; relay until the notification for `me` is in flight */
        fprintf(out, "{\"e\":\"trigger\",\"r\":%d}\n", c_root);
        do_trigger(c_root);
        for( guard = 0; guard < 4 * c_n + 16; guard++ ) {
            for( k = 0; k < nmsgs; k++ ) if( msgs[k].live && msgs[k].dst == c_me ) break;
            if( k < nmsgs || (k = first_live()) < 0 ) break;
            fprintf(out, "{\"e\":\"deliver\",\"src\":%d,\"dst\":%d}\n", msgs[k].src, msgs[k].dst);
            do_deliver(k, ++ndeliv);
        }
    }
    for( int q = 0; q < c_pre; q++ ) {
        int rr = vtp[c_me].tdm.module->taskpool_addto_runtime_actions(&vtp[c_me], 1);
        fprintf(out, "{\"e\":\"op\",\"t\":0,\"op\":\"add\",\"v\":1,\"r\":%d}\n", rr);
    }
    memset(c_nret, 0, sizeof(c_nret));
    first_msg = nmsgs;
    parsec_taskpool_register(&vtp[c_me]);
    cur_rank = c_me; cur_cause = 0; conc_mode = 1;
    vs_run(r, c_nthr, conc_body, NULL, sched, slen, 400);
    conc_mode = 0; cur_rank = -1;
    fprintf(meta, "{\"id\":\"%s\",\"mode\":\"%s\",\"sched\":\"", c_id, mode);
    for( int i = 0; i < r->nsteps; i++ ) fputc('0' + r->who[i], meta);
    fprintf(meta, "\",\"asked\":%d,\"deadlock\":%d,\"ret\":[", slen, r->deadlock);
    for( int t = 0; t < c_nthr; t++ ) {
        fprintf(meta, "%s[", t ? "," : "");
        for( int i = 0; i < c_nret[t]; i++ ) fprintf(meta, "%s%d", i ? "," : "", c_ret[t][i]);
        fputc(']', meta);
    }
    fprintf(meta, "],\"sent\":[");
    for( k = first_msg; k < nmsgs; k++ ) fprintf(meta, "%s[%d,%d]", k > first_msg ? "," : "", msgs[k].tid, msgs[k].dst);
    fprintf(meta, "],\"cbs\":%d,\"state\":%d,\"nbpa\":%d,\"nbt\":%d,\"root\":%d}\n", cbcount[c_me],
            (int)vtp[c_me].tdm.module->taskpool_state(&vtp[c_me]), (int)vtp[c_me].nb_pending_actions,
            PARSEC_UNDETERMINED_NB_TASKS == vtp[c_me].nb_tasks ? -1 : (int)vtp[c_me].nb_tasks,
            (int)*(int32_t*)vtp[c_me].tdm.monitor);
    if( r->deadlock ) {             /* parked threads cannot be joined: report and leave */
        fprintf(out, "{\"e\":\"Timeout\"}\n");
        fflush(out); fflush(meta); _exit(0);
    }
    /* the rest of the world: everything in flight is delivered (FIFO), relays included */
    for( guard = 0; (k = first_live()) >= 0 && guard < 8 * c_n + 32; guard++ ) {
        fprintf(out, "{\"e\":\"deliver\",\"src\":%d,\"dst\":%d}\n", msgs[k].src, msgs[k].dst);
        do_deliver(k, ++ndeliv);
    }
    log_end();
    teardown();
    return 0;
}

static void run_conc(FILE *in)
{
    char *line = NULL; size_t cap = 0;
    static vs_run_t r;
    vs_install();
    while( getline(&line, &cap, in) > 0 ) {
        char *save = NULL, *tok = strtok_r(line, " \t\n", &save);
        if( !tok || tok[0] == '#' ) continue;
        if( !strcmp(tok, "S") ) {
            char *f[5];
            for( int i = 0; i < 5; i++ ) if( NULL == (f[i] = strtok_r(NULL, " \t\n", &save)) ) exit(3);
            snprintf(c_id, sizeof(c_id), "%s", f[0]);
            c_n = atoi(f[1]); c_me = atoi(f[2]); c_root = atoi(f[3]); c_pre = atoi(f[4]); c_nthr = 0;
            if( c_n < 1 || c_me < 0 || c_me >= c_n || c_root < 0 || c_root >= c_n ) exit(3);
        } else if( !strcmp(tok, "T") ) {
            int t = c_nthr++;
            if( t >= VS_MAXT ) exit(3);
            c_nops[t] = 0;
            while( (tok = strtok_r(NULL, " \t\n", &save)) ) {
                cop_t *o = &c_ops[t][c_nops[t]++];
                if( c_nops[t] > C_MAXOPS ) exit(3);
                o->v = 0;
                if( !strcmp(tok, "trig") ) o->kind = C_TRIG;
                else if( !strcmp(tok, "msg") ) o->kind = C_MSG;
                else if( !strcmp(tok, "tsk") ) o->kind = C_TSK;
                else if( !strcmp(tok, "chk") ) o->kind = C_CHK;
                else if( !strncmp(tok, "add:", 4) ) { o->kind = C_ADD; o->v = atoi(tok + 4); }
                else exit(3);
            }
        } else if( !strcmp(tok, "R") ) {
            unsigned char sched[VS_MAXSTEPS]; int n = 0;
            tok = strtok_r(NULL, " \t\n", &save);
            for( char *p = tok; p && *p && n < VS_MAXSTEPS; p++ ) sched[n++] = (unsigned char)(*p - '0');
            conc_once("R", sched, n, &r);
        } else if( !strcmp(tok, "X") ) {
            tok = strtok_r(NULL, " \t\n", &save);
            long cnt = vs_explore(conc_once, "X", tok ? atol(tok) : 0);
            fprintf(meta, "{\"id\":\"%s\",\"explored\":%ld,\"exhaustive\":%s}\n", c_id, cnt < 0 ? -cnt : cnt, cnt < 0 ? "false" : "true");
        } else exit(3);
        fflush(out); fflush(meta);
    }
    vs_uninstall();
}

static unsigned long long rng_state;
static unsigned rnd(void) { rng_state = rng_state * 6364136223846793005ULL + 1442695040888963407ULL; return (unsigned)(rng_state >> 33); }

static void run_sweep(int n, int root, int order, int seed)
{
    int ndeliv = 0, first = 1, budget;
    int *pend = NULL, npend = 0, cappend = 0, scanned = 0;
    setup(n);
    rng_state = 88172645463325252ULL ^ ((unsigned long long)seed << 20) ^ (unsigned long long)(n * 131 + root);
    for( int r = 0; r < n; r++ ) do_ready(r);
    do_trigger(root);
    fprintf(out, "{\"e\":\"run\",\"n\":%d,\"root\":%d,\"order\":%d,\"edges\":[", n, root, order);
    budget = 4 * n + 16;                       /* a broken tree may loop: bounded */
    for(;;) {
        for( ; scanned < nmsgs; scanned++ ) {   /* newly recorded sends become pending */
            if( npend == cappend ) { cappend = cappend ? 2 * cappend : 256; pend = realloc(pend, cappend * sizeof(int)); }
            pend[npend++] = scanned;
        }
        if( 0 == npend || budget-- <= 0 ) break;
        int pi = order == 0 ? 0 : (order == 1 ? npend - 1 : (int)(rnd() % (unsigned)npend));
        int k = pend[pi];
        if( order == 0 ) { memmove(pend, pend + 1, (npend - 1) * sizeof(int)); npend--; }
        else { pend[pi] = pend[npend - 1]; npend--; }
        /* the edge is logged even when it cannot be delivered (destination outside the communicator) */
        fprintf(out, "%s[%d,%d,%d]", first ? "" : ",", msgs[k].src, msgs[k].dst, msgs[k].cause);
        first = 0;
        ++ndeliv;
        if( msgs[k].dst >= 0 && msgs[k].dst < n ) do_deliver(k, ndeliv);
        else msgs[k].live = 0;
    }
    fprintf(out, "],\"cb\":%d}\n", ({ int s = 0; for( int r = 0; r < n; r++ ) s += cbcount[r]; s; }));
    free(pend);
    teardown();
}

int main(int argc, char **argv)
{
    char *line = NULL; size_t cap = 0; long nexec = 0; int prov;
    FILE *in;
    if( argc < 4 ) return 3;
    MPI_Init_thread(&argc, &argv, MPI_THREAD_MULTIPLE, &prov);
    { int pargc = 1; char *pargv[2] = { argv[0], NULL }; char **pv = pargv;
      real_ctx = parsec_init(1, &pargc, &pv); }
    if( NULL == real_ctx ) return 4;
    in = fopen(argv[2], "r"); out = fopen(argv[3], "w");
    if( !in || !out ) return 3;
    { parsec_taskpool_t tmp; memset(&tmp, 0, sizeof(tmp)); shared_id = parsec_taskpool_reserve_id(&tmp); }
    parsec_ce.send_am = stub_send_am;
    eventlevel = !strcmp(argv[1], "replay") || !strcmp(argv[1], "conc");
    if( !strcmp(argv[1], "conc") ) {
        if( argc < 5 || NULL == (meta = fopen(argv[4], "w")) ) return 3;
        run_conc(in);
        fclose(meta); fclose(out);
        _exit(0);
    }
    while( getline(&line, &cap, in) > 0 ) {
        if( line[0] == '\n' || line[0] == '#' ) continue;
        if( eventlevel ) {
            if( nexec++ ) fprintf(out, "{\"e\":\"Reset\"}\n");
            int d = run_behaviour(line);
            fprintf(stdout, "%d\n", d);
        } else {
            int n, root, order, seed;
            if( sscanf(line, "%d %d %d %d", &n, &root, &order, &seed) != 4 ) continue;
            run_sweep(n, root, order, seed);
        }
        fflush(out);
    }
    fclose(out);
    fflush(stdout);
    /* the fake taskpools are gone from the registry's point of view; leave without parsec_fini (send_am is a stub) */
    _exit(0);
}
