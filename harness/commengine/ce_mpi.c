/* C14 harness: a test-owned MPI program that uses the communication engine of PaRSEC directly through the parsec_ce
 * function table (the way parsec/remote_dep_mpi.c does): tag_register, send_am, mem_register, put, get, progress.
 *
 *   mpiexec -n P ce_mpi <workloads.txt> <trace-prefix> [hang-floor-seconds]
 *
 * workloads.txt: one workload per line (optionally prefixed by "B " or "I ": issue mode, see run_workload),
 * operations separated by ';' (a TLC behaviour of Engine.tla):
 *      am  P Q TAG LEN      process P sends an active message of LEN bytes on application tag index TAG to Q
 *      put P Q 0 LEN        P puts a region of LEN bytes into a region of Q
 *      get P Q 0 LEN        P gets a region of LEN bytes from Q
 * Every process reads the whole workload; the operations of one process are issued in order, interleaved with
 * parsec_ce.progress(); a workload is finished when every process has seen all the deliveries / completions the
 * workload implies for it (counted from the workload itself) -- then MPI_Barrier and the next workload.
 *
 * The communication thread of the runtime stays asleep (the context is never started): the main thread is the only
 * user of the (funnelled) engine, after enabling it with parsec_ce.enable().
 *
 * Payload of operation k of process P: byte i = (unsigned char)(P*131 + k*31 + i*7 + (i>>8)); checksum = Fletcher-like
 * sum kept below 2^31.  One-sided transfers need the remote handle: the owner of the remote region registers it and
 * ships {handle bytes, callback function pointer, id} in an active message on the control tag (as remote_dep_mpi.c ships
 * them in its GET request); the origin then calls put/get.
 *
 * Per-process trace <prefix>.<rank>.ndjson:
 *   {"e":"send","p":P,"seq":K,"dst":Q,"tag":T,"len":L,"sum":S}            before send_am
 *   {"e":"deliver","p":Q,"src":P,"seq":K,"tag":T,"len":L,"sum":S}         in the tag callback (bytes as received)
 *   {"e":"put","p":P,"seq":K,"dst":Q,"len":L,"sum":S}                     before parsec_ce.put
 *   {"e":"putlocal","p":P,"seq":K}                                         local completion callback
 *   {"e":"putremote","p":Q,"src":P,"seq":K,"len":L,"sum":S}               remote completion callback (target region)
 *   {"e":"get","p":P,"seq":K,"src":Q,"len":L,"want":S}                    before parsec_ce.get (S = sum of Q's region)
 *   {"e":"getlocal","p":P,"seq":K,"len":L,"sum":S}                        local completion: bytes now in P's region
 *   {"e":"getremote","p":Q,"src":P,"seq":K}                               remote completion callback on the owner
 *   {"e":"done","p":P}                                                     end of the workload on P
 *   {"e":"Reset"}                                                          between workloads
 */
#include "parsec/parsec_config.h"
#include "parsec/runtime.h"
#include "parsec/parsec_internal.h"
#include "parsec/execution_stream.h"
#include "parsec/parsec_comm_engine.h"
#include "parsec/remote_dep.h"
#include <mpi.h>
#include <stdio.h>
#include <stdlib.h>
#include <string.h>
#include <unistd.h>

#define NTAGS 3
static const int app_tag[NTAGS] = { PARSEC_CE_REMOTE_DEP_MAX_CTRL_TAG, PARSEC_CE_REMOTE_DEP_MAX_CTRL_TAG + 1,
                                    PARSEC_CE_REMOTE_DEP_MAX_CTRL_TAG + 2 };
#define CTL_TAG PARSEC_DSL_TTG_TAG        /* unused by this build: handle exchange for the one-sided transfers */
#define AM_MAX  4096
#define MAXOPS  256

typedef struct { char kind; int p, q, tag, len; } op_t;
typedef struct { int32_t magic, seq, len; } am_hdr_t;

static int me, np;
static FILE *out;
static double hang_floor = 20.0;      /* a hang is declared only after this many seconds without completing (argv[3]) */
static double now(void) { return MPI_Wtime(); }
static int got_am, got_putremote, got_getremote, got_local;         /* per workload */

static unsigned char pat(int p, int k, int i) { return (unsigned char)(p * 131 + k * 31 + i * 7 + (i >> 8)); }
static void fill(unsigned char *b, int p, int k, int n) { for( int i = 0; i < n; i++ ) b[i] = pat(p, k, i); }
static int csum(const unsigned char *b, int n)
{
    uint32_t a = 1, c = 0;
    for( int i = 0; i < n; i++ ) { a = (a + b[i]) % 65521u; c = (c + a) % 32749u; }
    return (int)((c << 16) | a) & 0x7fffffff;
}

/* ---- active messages on the application tags ---------------------------------------------------------------------------- */
static int am_cb(parsec_comm_engine_t *ce, parsec_ce_tag_t tag, void *msg, size_t size, int src, void *cb_data)
{
    am_hdr_t *h = (am_hdr_t*)msg;
    int t = (int)(intptr_t)cb_data;
    (void)ce;
    if( size < sizeof(am_hdr_t) || h->magic != 0x5eed ) {
        fprintf(out, "{\"e\":\"garbage\",\"p\":%d,\"src\":%d,\"size\":%d}\n", me, src, (int)size);
    } else {
        /* the engine reports the size of the message it received; the payload length travels in the header too */
        int n = (int)size - (int)sizeof(am_hdr_t);
        fprintf(out, "{\"e\":\"deliver\",\"p\":%d,\"src\":%d,\"seq\":%d,\"tag\":%d,\"etag\":%d,\"len\":%d,\"hlen\":%d,\"sum\":%d}\n",
                me, src, h->seq, t, (int)tag, n, h->len, csum((unsigned char*)msg + sizeof(am_hdr_t), n < 0 ? 0 : n));
    }
    got_am++;
    return 1;
}

/* ---- one-sided transfers ----------------------------------------------------------------------------------------------------- */
typedef struct { int32_t kind, seq, len, owner; uintptr_t cb_fn; char handle[128]; } ctl_msg_t;   /* owner -> origin */
typedef struct { int32_t origin, seq, len; } rcb_t;                                                 /* remote callback data */
typedef struct xfer_s { int kind, seq, len, peer; unsigned char *buf; parsec_ce_mem_reg_handle_t reg; size_t regsz;
                        struct xfer_s *next; } xfer_t;
static xfer_t *owned;                 /* regions this process exposes: (origin, seq) -> buffer */
static xfer_t *mine;                  /* transfers this process originates */
static ctl_msg_t pending_ctl[MAXOPS]; static int npending_ctl;

static xfer_t *find(xfer_t *l, int peer, int seq) { for( ; l; l = l->next ) if( l->peer == peer && l->seq == seq ) return l; return NULL; }

/* remote completion: called on the owner of the remote region, through the function pointer it shipped */
static int remote_done_cb(parsec_comm_engine_t *ce, parsec_ce_tag_t tag, void *msg, size_t size, int src, void *cb_data)
{
    rcb_t *r = (rcb_t*)msg;
    (void)ce; (void)tag; (void)size; (void)cb_data;
    xfer_t *x = find(owned, r->origin, r->seq);
    if( NULL == x ) {
        fprintf(out, "{\"e\":\"garbage\",\"p\":%d,\"src\":%d,\"what\":\"remote completion for an unknown region\"}\n", me, src);
    } else if( x->kind == 'p' ) {
        fprintf(out, "{\"e\":\"putremote\",\"p\":%d,\"src\":%d,\"seq\":%d,\"len\":%d,\"sum\":%d}\n", me, r->origin, r->seq, x->len,
                csum(x->buf, x->len));
        got_putremote++;
    } else {
        fprintf(out, "{\"e\":\"getremote\",\"p\":%d,\"src\":%d,\"seq\":%d}\n", me, r->origin, r->seq);
        got_getremote++;
    }
    return 1;
}
/* local completion on the origin */
static int local_done_cb(parsec_comm_engine_t *ce, parsec_ce_mem_reg_handle_t lreg, ptrdiff_t ldispl,
                         parsec_ce_mem_reg_handle_t rreg, ptrdiff_t rdispl, size_t size, int remote, void *cb_data)
{
    xfer_t *x = (xfer_t*)cb_data;
    (void)ce; (void)lreg; (void)ldispl; (void)rreg; (void)rdispl; (void)size; (void)remote;
    if( x->kind == 'p' ) fprintf(out, "{\"e\":\"putlocal\",\"p\":%d,\"seq\":%d}\n", me, x->seq);
    else fprintf(out, "{\"e\":\"getlocal\",\"p\":%d,\"seq\":%d,\"len\":%d,\"sum\":%d}\n", me, x->seq, x->len, csum(x->buf, x->len));
    got_local++;
    return 1;
}
/* the owner of a remote region tells the origin where it is */
static int ctl_cb(parsec_comm_engine_t *ce, parsec_ce_tag_t tag, void *msg, size_t size, int src, void *cb_data)
{
    (void)ce; (void)tag; (void)src; (void)cb_data;
    if( size >= sizeof(ctl_msg_t) && npending_ctl < MAXOPS ) memcpy(&pending_ctl[npending_ctl++], msg, sizeof(ctl_msg_t));
    return 1;
}

static xfer_t *new_region(xfer_t **list, int kind, int peer, int seq, int len, int fill_p)
{
    xfer_t *x = calloc(1, sizeof(xfer_t));
    x->kind = kind; x->peer = peer; x->seq = seq; x->len = len;
    x->buf = malloc(len > 0 ? len : 1);
    if( fill_p >= 0 ) fill(x->buf, fill_p, seq, len); else memset(x->buf, 0xEE, len > 0 ? len : 1);
    parsec_ce.mem_register(x->buf, PARSEC_MEM_TYPE_NONCONTIGUOUS, len, parsec_datatype_int8_t, len, &x->reg, &x->regsz);
    x->next = *list; *list = x;
    return x;
}
static void free_regions(xfer_t **list)
{
    while( *list ) { xfer_t *x = *list; *list = x->next; parsec_ce.mem_unregister(&x->reg); free(x->buf); free(x); }
}

/* origin side: the owner's handle arrived -> issue the real put / get */
static void issue(ctl_msg_t *c)
{
    xfer_t *x = find(mine, c->owner, c->seq);
    rcb_t r = { me, c->seq, c->len };
    if( NULL == x ) return;
    if( x->kind == 'p' ) {
        fprintf(out, "{\"e\":\"put\",\"p\":%d,\"seq\":%d,\"dst\":%d,\"len\":%d,\"sum\":%d}\n", me, x->seq, x->peer, x->len, csum(x->buf, x->len));
        parsec_ce.put(&parsec_ce, x->reg, 0, (parsec_ce_mem_reg_handle_t)c->handle, 0, x->len, x->peer,
                      local_done_cb, x, (parsec_ce_tag_t)c->cb_fn, &r, sizeof(r));
    } else {
        unsigned char *tmp = malloc(x->len > 0 ? x->len : 1);
        fill(tmp, x->peer, 1000 + x->seq, x->len);                 /* what the owner's region holds */
        fprintf(out, "{\"e\":\"get\",\"p\":%d,\"seq\":%d,\"src\":%d,\"len\":%d,\"want\":%d}\n", me, x->seq, x->peer, x->len, csum(tmp, x->len));
        free(tmp);
        parsec_ce.get(&parsec_ce, x->reg, 0, (parsec_ce_mem_reg_handle_t)c->handle, 0, x->len, x->peer,
                      local_done_cb, x, (parsec_ce_tag_t)c->cb_fn, &r, sizeof(r));
    }
}

static int parse(char *line, op_t *ops)
{
    int n = 0; char *save = NULL;
    for( char *tok = strtok_r(line, ";\n", &save); tok && n < MAXOPS; tok = strtok_r(NULL, ";\n", &save) ) {
        char k[8]; op_t o;
        if( sscanf(tok, "%7s %d %d %d %d", k, &o.p, &o.q, &o.tag, &o.len) != 5 ) continue;
        o.kind = k[0];                                    /* 'a'm, 'p'ut, 'g'et */
        if( o.p < 0 || o.p >= np || o.q < 0 || o.q >= np || o.p == o.q || o.tag < 0 || o.tag >= NTAGS ) continue;
        if( o.kind == 'a' && o.len > AM_MAX - (int)sizeof(am_hdr_t) ) o.len = AM_MAX - (int)sizeof(am_hdr_t);
        ops[n++] = o;
    }
    return n;
}

static void send_handle(op_t *o, int seq)
{
    /* I own the remote region of this transfer: ship my handle to the origin */
    xfer_t *x = find(owned, o->p, seq);
    ctl_msg_t c; memset(&c, 0, sizeof(c));
    c.kind = o->kind; c.seq = seq; c.len = o->len; c.owner = me; c.cb_fn = (uintptr_t)remote_done_cb;
    if( x->regsz > sizeof(c.handle) ) { fprintf(stderr, "handle too large\n"); MPI_Abort(MPI_COMM_WORLD, 7); }
    memcpy(c.handle, x->reg, x->regsz);
    parsec_ce.send_am(&parsec_ce, CTL_TAG, o->p, &c, sizeof(c));
}
static void send_app(op_t *o, int seq, unsigned char *buf)
{
    am_hdr_t *h = (am_hdr_t*)buf;
    h->magic = 0x5eed; h->seq = seq; h->len = o->len;
    fill(buf + sizeof(am_hdr_t), me, seq, o->len);
    fprintf(out, "{\"e\":\"send\",\"p\":%d,\"seq\":%d,\"dst\":%d,\"tag\":%d,\"len\":%d,\"sum\":%d}\n", me, seq, o->q,
            o->tag, o->len, csum(buf + sizeof(am_hdr_t), o->len));
    parsec_ce.send_am(&parsec_ce, app_tag[o->tag], o->q, buf, sizeof(am_hdr_t) + o->len);
}

/* mode 'I': operations issued one by one, interleaved with progress (handles shipped on the way);
 * mode 'B': handles exchanged first, then every process issues ALL its operations without calling progress in between
 *           (nothing completes meanwhile: the request windows overflow into the engine's queues), then progress. */
static void run_workload(int mode, op_t *ops, int nops)
{
    int want_am = 0, want_putremote = 0, want_getremote = 0, want_local = 0, seqof[MAXOPS], nseq[64] = {0};
    int next = 0; long spins = 0; double t0;
    unsigned char *buf = malloc(AM_MAX);
    got_am = got_putremote = got_getremote = got_local = 0; npending_ctl = 0;
    for( int i = 0; i < nops; i++ ) {
        seqof[i] = nseq[ops[i].p]++;
        if( ops[i].kind == 'a' && ops[i].q == me ) want_am++;
        if( ops[i].kind == 'p' && ops[i].q == me ) want_putremote++;
        if( ops[i].kind == 'g' && ops[i].q == me ) want_getremote++;
        if( ops[i].kind != 'a' && ops[i].p == me ) want_local++;
    }
    /* regions first (both sides know the workload) */
    for( int i = 0; i < nops; i++ ) {
        if( ops[i].kind == 'a' ) continue;
        if( ops[i].p == me )        /* origin: source of a put (filled) / destination of a get (poisoned) */
            new_region(&mine, ops[i].kind, ops[i].q, seqof[i], ops[i].len, ops[i].kind == 'p' ? me : -1);
        if( ops[i].q == me ) {      /* owner of the remote region: destination of a put (poisoned) / source of a get (filled) */
            xfer_t *x = new_region(&owned, ops[i].kind, ops[i].p, seqof[i], ops[i].len, -1);
            if( ops[i].kind == 'g' ) fill(x->buf, me, 1000 + seqof[i], ops[i].len);
        }
    }
    MPI_Barrier(MPI_COMM_WORLD);
    if( mode == 'B' ) {
        ctl_msg_t *hs = calloc(MAXOPS, sizeof(ctl_msg_t)); int nhs = 0;
        for( int i = 0; i < nops; i++ ) if( ops[i].kind != 'a' && ops[i].q == me ) send_handle(&ops[i], seqof[i]);
        t0 = now();
        while( nhs < want_local ) {
            parsec_ce.progress(&parsec_ce);
            while( npending_ctl > 0 ) hs[nhs++] = pending_ctl[--npending_ctl];
            if( now() - t0 > 10 * hang_floor ) { fprintf(out, "{\"e\":\"timeout\",\"p\":%d,\"phase\":\"handles\"}\n", me); fflush(out); MPI_Abort(MPI_COMM_WORLD, 9); }
        }
        MPI_Barrier(MPI_COMM_WORLD);
        for( int i = 0; i < nops; i++ ) {               /* issue everything, no progress */
            if( ops[i].p != me ) continue;
            if( ops[i].kind == 'a' ) send_app(&ops[i], seqof[i], buf);
            else for( int k = 0; k < nhs; k++ ) if( hs[k].owner == ops[i].q && hs[k].seq == seqof[i] ) issue(&hs[k]);
        }
        free(hs);
        next = nops;
        MPI_Barrier(MPI_COMM_WORLD);
    }
    t0 = now();
    while( next < nops || got_am < want_am || got_putremote < want_putremote || got_getremote < want_getremote ||
           got_local < want_local ) {
        if( next < nops ) {
            op_t *o = &ops[next];
            if( o->kind == 'a' && o->p == me ) send_app(o, seqof[next], buf);
            else if( o->kind != 'a' && o->q == me ) send_handle(o, seqof[next]);
            next++;
            t0 = now();
        }
        if( parsec_ce.progress(&parsec_ce) > 0 ) t0 = now();          /* something completed: not hung */
        while( npending_ctl > 0 ) { ctl_msg_t c = pending_ctl[--npending_ctl]; issue(&c); }
        /* hang: nothing completed on this process for hang_floor seconds (and many progress calls) */
        if( next >= nops && ++spins > 200000 && now() - t0 > hang_floor ) {
            fprintf(out, "{\"e\":\"timeout\",\"p\":%d,\"am\":[%d,%d],\"putremote\":[%d,%d],\"getremote\":[%d,%d],\"local\":[%d,%d]}\n", me,
                    got_am, want_am, got_putremote, want_putremote, got_getremote, want_getremote, got_local, want_local);
            fflush(out);
            MPI_Abort(MPI_COMM_WORLD, 9);
        }
        if( next >= nops && (spins & 1023) == 1023 ) usleep(50);
    }
    /* late duplicates would show up here */
    for( int i = 0; i < 200; i++ ) parsec_ce.progress(&parsec_ce);
    MPI_Barrier(MPI_COMM_WORLD);
    for( int i = 0; i < 50; i++ ) parsec_ce.progress(&parsec_ce);
    fprintf(out, "{\"e\":\"done\",\"p\":%d}\n", me);
    free_regions(&mine); free_regions(&owned);
    free(buf);
}

int main(int argc, char **argv)
{
    char *line = NULL; size_t cap = 0; int prov, nw = 0;
    parsec_context_t *ctx;
    char path[1024];
    op_t *ops = malloc(MAXOPS * sizeof(op_t));
    FILE *in;
    MPI_Init_thread(&argc, &argv, MPI_THREAD_SERIALIZED, &prov);
    MPI_Comm_rank(MPI_COMM_WORLD, &me); MPI_Comm_size(MPI_COMM_WORLD, &np);
    if( argc < 3 ) { MPI_Finalize(); return 3; }
    if( argc > 3 ) hang_floor = atof(argv[3]);
    { int pargc = 1; char *pargv[2] = { argv[0], NULL }; char **pv = pargv; ctx = parsec_init(1, &pargc, &pv); }
    if( NULL == ctx ) MPI_Abort(MPI_COMM_WORLD, 4);
    snprintf(path, sizeof(path), "%s.%d.ndjson", argv[2], me);
    in = fopen(argv[1], "r"); out = fopen(path, "w");
    if( !in || !out ) MPI_Abort(MPI_COMM_WORLD, 3);
    for( int t = 0; t < NTAGS; t++ )
        if( PARSEC_SUCCESS != parsec_ce.tag_register(app_tag[t], am_cb, (void*)(intptr_t)t, AM_MAX) ) MPI_Abort(MPI_COMM_WORLD, 5);
    if( PARSEC_SUCCESS != parsec_ce.tag_register(CTL_TAG, ctl_cb, NULL, sizeof(ctl_msg_t)) ) MPI_Abort(MPI_COMM_WORLD, 5);
    parsec_ce.enable(&parsec_ce);
    MPI_Barrier(MPI_COMM_WORLD);
    while( getline(&line, &cap, in) > 0 ) {
        if( line[0] == '\n' || line[0] == '#' ) continue;
        int mode = 'I';
        char *body = line;
        if( (line[0] == 'B' || line[0] == 'I') && line[1] == ' ' ) { mode = line[0]; body = line + 2; }
        int n = parse(body, ops);
        if( nw++ ) fprintf(out, "{\"e\":\"Reset\"}\n");
        run_workload(mode, ops, n);
        fflush(out);
    }
    fclose(out);
    MPI_Barrier(MPI_COMM_WORLD);
    /* leave without parsec_fini: the context was never started, the communication thread is still asleep */
    MPI_Finalize();
    _exit(0);
}
