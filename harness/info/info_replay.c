/* C41 harness: drives the real parsec_info_* functions (parsec/class/info.c).
 *
 *   info_replay seq     <histories.txt> <trace.ndjson>
 *       sequential replay of TLC behaviours of Registry.tla; after every operation the whole real state
 *       (registry list, max_id, every object array) is logged; validated by RegTrace.tla.
 *       histories.txt: one behaviour per line, operations separated by ';' :
 *           reg N C D | unr N | lk N | obj O | set O N V | get O N | tas O N V OLD
 *   info_replay explore <scenario> <limit> <trace.ndjson> <meta.ndjson>
 *   info_replay random  <scenario> <runs>  <trace.ndjson> <meta.ndjson> <seed>
 *   info_replay stress  <scenario> <runs>  <trace.ndjson> <meta.ndjson> <seed>
 *       concurrent inv/res histories (cooperative scheduler: every interleaving / random schedules; free running
 *       threads); validated for linearizability by RegLinTrace.tla.
 *       scenario file:   pre <op>;<op>...        (executed by the main thread before the threads start)
 *                        t <tid> <op>;<op>...
 *
 * Names are the integers 1..; name k is registered as the string "n" followed by k times 'x' (every name is a proper prefix of the longer ones).  Values are small integers v encoded
 * as the pointer pattern v * 0x0101010101010101 (every byte non zero, so that a partially overwritten slot is
 * visible); any other pointer is logged as 99.  The constructor of name k builds the value 10 + k.
 */
#include "parsec/parsec_config.h"
#include "parsec/class/parsec_object.h"
#include "parsec/class/info.h"
#include <stdio.h>
#include <stdlib.h>
#include <string.h>
#include <ctype.h>
#include <malloc.h>
#include "vtrace.h"
#include "vsched.h"

#define MAXN 16
#define MAXO 8
#define MAXOPS 24

static parsec_info_t nfo;
static parsec_info_object_array_t oas[MAXO + 1];
static int oa_inited[MAXO + 1];
/* name k = "n" + k times 'x': shorter names are proper prefixes of longer ones */
static void mkname(char *b, int k) { int i; b[0] = 'n'; for( i = 0; i < k && i < 30; i++ ) b[1 + i] = 'x'; b[1 + i] = 0; }
static volatile int ids[MAXN + 1];         /* identifier the real code gave to name k, -1 = none */
static volatile long dtor_calls;

static void die(const char *m) { fprintf(stderr, "info_replay: %s\n", m); exit(3); }

static void *enc(int v) { return (void*)((uintptr_t)v * (uintptr_t)0x0101010101010101ULL); }
static int dec(void *p)
{
    uintptr_t u = (uintptr_t)p, b = u & 0xff;
    if( 0 == u ) return 0;
    if( b < 128 && u == b * (uintptr_t)0x0101010101010101ULL ) return (int)b;
    return 99;
}
static void *ctor_fn(void *obj, void *cb) { (void)obj; return enc(10 + (int)(intptr_t)cb); }
static void dtor_fn(void *elt, void *cb) { (void)elt; (void)cb; __sync_fetch_and_add(&dtor_calls, 1); }

typedef struct { char op[4]; int a[4]; int na; } op_t;

static int parse_op(char *tok, op_t *o)
{
    char *save = NULL, *w = strtok_r(tok, " \t\n", &save);
    if( NULL == w ) return -1;
    memset(o, 0, sizeof(*o));
    strncpy(o->op, w, 3);
    while( (w = strtok_r(NULL, " \t\n", &save)) && o->na < 4 ) o->a[o->na++] = atoi(w);
    return 0;
}

/* executes one operation on the real code; returns its result in the abstract encoding */
static int do_op(const op_t *o)
{
    char name[40];
    if( !strcmp(o->op, "reg") ) {
        int n = o->a[0], r;
        mkname(name, n);
        r = parsec_info_register(&nfo, name, o->a[2] ? dtor_fn : NULL, (void*)(intptr_t)n,
                                 o->a[1] ? ctor_fn : NULL, (void*)(intptr_t)n, NULL);
        if( r != PARSEC_INFO_ID_UNDEFINED ) ids[n] = r;
        return r;
    }
    if( !strcmp(o->op, "unr") ) {
        int n = o->a[0], id = ids[n], r;
        r = parsec_info_unregister(&nfo, id, NULL);
        ids[n] = -1;
        return r;
    }
    if( !strcmp(o->op, "lk") ) {
        mkname(name, o->a[0]);
        return parsec_info_lookup(&nfo, name, NULL);
    }
    if( !strcmp(o->op, "obj") ) {
        int k = o->a[0];
        PARSEC_OBJ_CONSTRUCT(&oas[k], parsec_info_object_array_t);
        parsec_info_object_array_init(&oas[k], &nfo, NULL);
        oa_inited[k] = 1;
        return 0;
    }
    if( !strcmp(o->op, "set") ) return dec(parsec_info_set(&oas[o->a[0]], ids[o->a[1]], enc(o->a[2])));
    if( !strcmp(o->op, "get") ) return dec(parsec_info_get(&oas[o->a[0]], ids[o->a[1]]));
    if( !strcmp(o->op, "tas") ) return dec(parsec_info_test_and_set(&oas[o->a[0]], ids[o->a[1]], enc(o->a[2]), enc(o->a[3])));
    die("bad op");
    return 0;
}

static void setup(void)
{
    int k;
    PARSEC_OBJ_CONSTRUCT(&nfo, parsec_info_t);
    for( k = 0; k <= MAXN; k++ ) ids[k] = -1;
    memset(oa_inited, 0, sizeof(oa_inited));
    dtor_calls = 0;
}

static void teardown(void)
{
    int k;
    /* unregister name by name (the collection's destructor walks the list while unregistering by identifier,
     * which is only safe when identifiers are unique: that is the property under test, do not rely on it here) */
    for( k = 1; k <= MAXN; k++ ) if( ids[k] >= 0 ) { parsec_info_unregister(&nfo, ids[k], NULL); ids[k] = -1; }
    for( k = 1; k <= MAXO; k++ ) if( oa_inited[k] ) { PARSEC_OBJ_DESTRUCT(&oas[k]); oa_inited[k] = 0; }
    PARSEC_OBJ_DESTRUCT(&nfo);
}

/* ---- sequential mode ------------------------------------------------------------------------------------- */
static void log_state(FILE *out, const op_t *o, int r)
{
    parsec_list_item_t *it;
    int k, i, first = 1, fuel = 4 * MAXN;
    int n = 0, ob = 0, v = 0, old = 0, c = 0, d = 0;
    if( !strcmp(o->op, "reg") ) { n = o->a[0]; c = o->a[1]; d = o->a[2]; }
    else if( !strcmp(o->op, "unr") || !strcmp(o->op, "lk") ) n = o->a[0];
    else if( !strcmp(o->op, "obj") ) ob = o->a[0];
    else { ob = o->a[0]; n = o->a[1]; v = o->a[2]; old = o->a[3]; }
    fprintf(out, "{\"e\":\"op\",\"op\":\"%s\",\"n\":%d,\"o\":%d,\"v\":%d,\"old\":%d,\"c\":%d,\"d\":%d,\"r\":%d,\"nd\":%ld,\"reg\":[",
            o->op, n, ob, v, old, c, d, r, (long)dtor_calls);
    /* the registry, in list order (bounded walk: a corrupted list must not hang the harness) */
    for( it = PARSEC_LIST_ITERATOR_FIRST(&nfo.info_list);
         it != PARSEC_LIST_ITERATOR_END(&nfo.info_list) && fuel-- > 0;
         it = PARSEC_LIST_ITERATOR_NEXT(it) ) {
        parsec_info_entry_t *ie = (parsec_info_entry_t*)it;
        fprintf(out, "%s[%d,%d]", first ? "" : ",", (int)strlen(ie->name) - 1, (int)ie->iid);
        first = 0;
    }
    fprintf(out, "],\"maxid\":%d,\"objs\":[", nfo.max_id);
    first = 1;
    for( k = 1; k <= MAXO; k++ ) {
        if( !oa_inited[k] ) continue;
        fprintf(out, "%s{\"o\":%d,\"known\":%d,\"slots\":[", first ? "" : ",", k, oas[k].known_infos);
        for( i = 0; i < oas[k].known_infos; i++ ) fprintf(out, "%s%d", i ? "," : "", dec(oas[k].info_objects[i]));
        fprintf(out, "]}");
        first = 0;
    }
    fprintf(out, "]}\n");
}

static int run_seq(const char *hpath, const char *tpath)
{
    FILE *in = fopen(hpath, "r"), *out = fopen(tpath, "w");
    char *line = NULL; size_t cap = 0; long nexec = 0;
    if( !in || !out ) die("cannot open files");
    while( getline(&line, &cap, in) > 0 ) {
        char *save = NULL, *tok;
        if( nexec++ ) fprintf(out, "{\"e\":\"Reset\"}\n");
        setup();
        for( tok = strtok_r(line, ";\n", &save); tok; tok = strtok_r(NULL, ";\n", &save) ) {
            op_t o; int r;
            if( parse_op(tok, &o) ) continue;
            r = do_op(&o);
            log_state(out, &o, r);
        }
        fflush(out);
        teardown();
    }
    fclose(out);
    return 0;
}

/* ---- concurrent modes ------------------------------------------------------------------------------------ */
static op_t pre[MAXOPS]; static int npre;
static op_t prog[VS_MAXT][MAXOPS]; static int nops[VS_MAXT], nthreads;
static int controlled = 1;
static FILE *meta;
static long nexec = 0;

static void parse_scenario(const char *path)
{
    FILE *f = fopen(path, "r");
    char line[2048];
    if( !f ) die("cannot open scenario");
    while( fgets(line, sizeof(line), f) ) {
        char *save = NULL, *tok, *p = line;
        op_t *dst; int *cnt;
        while( isspace((unsigned char)*p) ) p++;
        if( !strncmp(p, "pre ", 4) ) { dst = pre; cnt = &npre; p += 4; }
        else if( !strncmp(p, "t ", 2) ) {
            int t = (int)strtol(p + 2, &p, 10);
            if( t < 0 || t >= VS_MAXT ) die("bad thread");
            if( t + 1 > nthreads ) nthreads = t + 1;
            dst = prog[t]; cnt = &nops[t];
        } else continue;
        for( tok = strtok_r(p, ";\n", &save); tok; tok = strtok_r(NULL, ";\n", &save) ) {
            if( *cnt >= MAXOPS ) die("too many ops");
            if( 0 == parse_op(tok, &dst[*cnt]) ) (*cnt)++;
        }
    }
    fclose(f);
}

/* one logged call: inv (with all arguments) - real function - res */
static void logged_op(int tid, const op_t *o)
{
    int n = 0, ob = 0, v = 0, old = 0, c = 0, d = 0, r;
    if( !strcmp(o->op, "reg") ) { n = o->a[0]; c = o->a[1]; d = o->a[2]; }
    else if( !strcmp(o->op, "unr") || !strcmp(o->op, "lk") ) n = o->a[0];
    else if( !strcmp(o->op, "obj") ) ob = o->a[0];
    else { ob = o->a[0]; n = o->a[1]; v = o->a[2]; old = o->a[3]; if( ids[n] < 0 ) return; /* name not (yet) known to this thread */ }
    if( !strcmp(o->op, "unr") && ids[n] < 0 ) return;
    vt_ev("\"e\":\"inv\",\"t\":%d,\"op\":\"%s\",\"n\":%d,\"o\":%d,\"v\":%d,\"old\":%d,\"c\":%d,\"d\":%d", tid, o->op, n, ob, v, old, c, d);
    r = do_op(o);
    vt_ev("\"e\":\"res\",\"t\":%d,\"op\":\"%s\",\"r\":%d", tid, o->op, r);
}

static void body(int tid, void *arg)
{
    int i;
    (void)arg;
    for( i = 0; i < nops[tid]; i++ ) {
        if( i > 0 && controlled ) vs_yield();
        logged_op(tid + 1, &prog[tid][i]);
    }
}

/* after the threads: observe the final state through the API (as one more sequential caller) */
static void observe(void)
{
    int n, k;
    op_t o;
    for( n = 1; n <= MAXN; n++ ) {
        if( ids[n] < 0 ) continue;
        memset(&o, 0, sizeof(o)); strcpy(o.op, "lk"); o.a[0] = n; o.na = 1;
        logged_op(nthreads + 1, &o);
        for( k = 1; k <= MAXO; k++ ) {
            if( !oa_inited[k] ) continue;
            memset(&o, 0, sizeof(o)); strcpy(o.op, "get"); o.a[0] = k; o.a[1] = n; o.na = 2;
            logged_op(nthreads + 1, &o);
        }
    }
}

static void finish_execution(vs_run_t *r)
{
    int i;
    if( nexec++ ) vt_reset_marker();
    vt_dump();
    if( r && r->deadlock ) vt_raw("{\"e\":\"Timeout\"}");
    fprintf(meta, "{\"sched\":\"");
    if( r ) for( i = 0; i < r->nsteps; i++ ) fputc('0' + r->who[i], meta);
    fprintf(meta, "\",\"deadlock\":%d}\n", r ? r->deadlock : 0);
}

static void run_pre(void)
{
    int i;
    for( i = 0; i < npre; i++ ) logged_op(nthreads + 1, &pre[i]);
}

static int once(void *ctx, const unsigned char *sched, int slen, vs_run_t *r)
{
    (void)ctx;
    setup();
    run_pre();
    vs_run(r, nthreads, body, NULL, sched, slen, 3000);
    if( !r->deadlock ) observe();
    finish_execution(r);
    if( r->deadlock ) { fflush(meta); vt_close(); _exit(0); }
    teardown();
    return 0;
}

static void *stress_thread(void *p) { body((int)(intptr_t)p, NULL); return NULL; }

int main(int argc, char **argv)
{
    /* freed / fresh heap memory is filled with a non zero byte: reading a slot that was never initialised
     * is then deterministic (it decodes to 99, never to NULL by luck) */
    mallopt(M_PERTURB, 0x5a);
    if( argc >= 4 && !strcmp(argv[1], "seq") ) return run_seq(argv[2], argv[3]);
    if( argc < 6 ) die("usage");
    parse_scenario(argv[2]);
    vt_init(1 << 14);
    if( vt_open(argv[4]) ) die("cannot open trace output");
    meta = fopen(argv[5], "w");
    if( !strcmp(argv[1], "explore") ) {
        long n;
        vs_install();
        n = vs_explore(once, NULL, atol(argv[3]));
        fprintf(meta, "{\"explored\":%ld,\"exhaustive\":%s}\n", n < 0 ? -n : n, n < 0 ? "false" : "true");
    } else if( !strcmp(argv[1], "random") ) {
        long runs = atol(argv[3]), k; int i;
        static vs_run_t r;
        unsigned int seed = argc > 6 ? (unsigned int)atol(argv[6]) : 1;
        vs_install();
        for( k = 0; k < runs; k++ ) {
            unsigned char sched[512];
            /* random schedule with random burst lengths (long bursts = few context switches) */
            int burst = 1 + (int)(rand_r(&seed) % 6), cur = 0;
            for( i = 0; i < 512; i++ ) {
                if( 0 == i % burst ) cur = (int)(rand_r(&seed) % (unsigned)nthreads);
                sched[i] = (unsigned char)cur;
            }
            once(NULL, sched, 512, &r);
        }
    } else if( !strcmp(argv[1], "stress") ) {
        long runs = atol(argv[3]), k; int t;
        controlled = 0;
        for( k = 0; k < runs; k++ ) {
            pthread_t th[VS_MAXT];
            setup();
            run_pre();
            for( t = 0; t < nthreads; t++ ) pthread_create(&th[t], NULL, stress_thread, (void*)(intptr_t)t);
            for( t = 0; t < nthreads; t++ ) pthread_join(th[t], NULL);
            observe();
            finish_execution(NULL);
            teardown();
        }
    } else die("bad mode");
    fclose(meta);
    vt_close();
    return 0;
}
