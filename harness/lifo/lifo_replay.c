/* C30 harness: drives the real parsec_lifo_{push,chain,pop,try_pop} along TLC-generated schedules
 * (mode replay), over every interleaving at yield-point granularity (mode explore), or free-running
 * (mode stress), and records an inv/res history as ndjson for validation by StackTrace.tla.
 *
 *   lifo_replay replay  <scenario> <schedules> <trace.ndjson> <meta.ndjson>
 *   lifo_replay explore <scenario> <limit>     <trace.ndjson> <meta.ndjson>
 *   lifo_replay stress  <scenario> <runs>      <trace.ndjson> <meta.ndjson> <seed>
 *
 * scenario file:   items N / init i j k / threads T / t <tid> op op ...   with op in
 *                  push:<i>  chain:<i>,<j>[,..]  pop  trypop  repush:<k>
 */
#include "parsec/parsec_config.h"
#include "parsec/class/parsec_object.h"
#include "parsec/class/lifo.h"
#include <stdio.h>
#include <stdlib.h>
#include <string.h>
#include <ctype.h>
#include "vtrace.h"
#include "vsched.h"

#define MAXI 16
#define MAXOPS 16
enum { OP_PUSH, OP_CHAIN, OP_POP, OP_TRYPOP, OP_REPUSH };
typedef struct { int kind; int x; int ring[MAXI]; int nring; int k; } op_t;
typedef struct { parsec_list_item_t super; int id; } item_t;

static int nitems, ninit, init_st[MAXI], nthreads, nops[VS_MAXT];
static op_t ops[VS_MAXT][MAXOPS];
static parsec_lifo_t lifo __attribute__((aligned(64)));
static item_t *items[MAXI + 1];
static int results[VS_MAXT][MAXOPS];
static int controlled = 1;

static void die(const char *m) { fprintf(stderr, "lifo_replay: %s\n", m); exit(3); }

static void parse_scenario(const char *path)
{
    FILE *f = fopen(path, "r");
    char line[1024];
    if( !f ) die("cannot open scenario");
    while( fgets(line, sizeof(line), f) ) {
        char *tok = strtok(line, " \t\n");
        if( !tok ) continue;
        if( !strcmp(tok, "items") ) nitems = atoi(strtok(NULL, " \t\n"));
        else if( !strcmp(tok, "threads") ) nthreads = atoi(strtok(NULL, " \t\n"));
        else if( !strcmp(tok, "init") ) { while( (tok = strtok(NULL, " \t\n")) ) init_st[ninit++] = atoi(tok); }
        else if( !strcmp(tok, "t") ) {
            int t = atoi(strtok(NULL, " \t\n"));
            while( (tok = strtok(NULL, " \t\n")) ) {
                op_t *o = &ops[t][nops[t]++];
                memset(o, 0, sizeof(*o));
                if( !strncmp(tok, "push:", 5) ) { o->kind = OP_PUSH; o->x = atoi(tok + 5); }
                else if( !strncmp(tok, "repush:", 7) ) { o->kind = OP_REPUSH; o->k = atoi(tok + 7); }
                else if( !strncmp(tok, "chain:", 6) ) {
                    char *p = tok + 6;
                    o->kind = OP_CHAIN;
                    while( *p ) { o->ring[o->nring++] = (int)strtol(p, &p, 10); if( *p == ',' ) p++; }
                }
                else if( !strcmp(tok, "pop") ) o->kind = OP_POP;
                else if( !strcmp(tok, "trypop") ) o->kind = OP_TRYPOP;
                else die("bad op");
            }
        }
    }
    fclose(f);
    if( nitems > MAXI || nthreads > VS_MAXT ) die("scenario too large");
}

static void setup(void)
{
    int i;
    PARSEC_OBJ_CONSTRUCT(&lifo, parsec_lifo_t);
    for( i = 1; i <= nitems; i++ ) {
        items[i] = (item_t*)parsec_lifo_item_alloc(&lifo, sizeof(item_t));
        items[i]->id = i;
    }
    /* init 1 2 3 means 1 on top: push in reverse order (no thread is controlled yet) */
    for( i = ninit - 1; i >= 0; i-- ) parsec_lifo_push(&lifo, &items[init_st[i]]->super);
    memset(results, 0, sizeof(results));
}

static void teardown(void)
{
    int i;
    while( NULL != parsec_lifo_try_pop(&lifo) ) ;
    for( i = 1; i <= nitems; i++ ) { parsec_lifo_item_free(&items[i]->super); items[i] = NULL; }
    PARSEC_OBJ_DESTRUCT(&lifo);
}

static void do_push(int tid, int x)
{
    vt_ev("\"e\":\"inv\",\"t\":%d,\"op\":\"push\",\"x\":%d", tid + 1, x);
    parsec_lifo_push(&lifo, &items[x]->super);
    vt_ev("\"e\":\"res\",\"t\":%d,\"op\":\"push\",\"r\":0", tid + 1);
}

static void body(int tid, void *arg)
{
    int i, j;
    (void)arg;
    for( i = 0; i < nops[tid]; i++ ) {
        op_t *o = &ops[tid][i];
        parsec_list_item_t *it;
        if( i > 0 && controlled ) vs_yield();          /* operation boundary = yield point */
        switch( o->kind ) {
        case OP_PUSH:
            do_push(tid, o->x);
            break;
        case OP_REPUSH:
            if( results[tid][o->k - 1] > 0 ) do_push(tid, results[tid][o->k - 1]);
            break;
        case OP_CHAIN: {
            char buf[128]; int n = 0;
            for( j = 0; j < o->nring; j++ ) {          /* build the ring: first->prev = last, next links in order */
                item_t *a = items[o->ring[j]], *b = items[o->ring[(j + 1) % o->nring]];
                a->super.list_next = &b->super; b->super.list_prev = &a->super;
                n += snprintf(buf + n, sizeof(buf) - n, "%s%d", j ? "," : "", o->ring[j]);
            }
            vt_ev("\"e\":\"inv\",\"t\":%d,\"op\":\"chain\",\"ring\":[%s]", tid + 1, buf);
            parsec_lifo_chain(&lifo, &items[o->ring[0]]->super);
            vt_ev("\"e\":\"res\",\"t\":%d,\"op\":\"chain\",\"r\":0", tid + 1);
            break; }
        case OP_POP:
        case OP_TRYPOP:
            vt_ev("\"e\":\"inv\",\"t\":%d,\"op\":\"%s\"", tid + 1, o->kind == OP_POP ? "pop" : "trypop");
            it = (o->kind == OP_POP) ? parsec_lifo_pop(&lifo) : parsec_lifo_try_pop(&lifo);
            results[tid][i] = (NULL == it) ? 0 : ((item_t*)it)->id;
            vt_ev("\"e\":\"res\",\"t\":%d,\"op\":\"%s\",\"r\":%d", tid + 1, o->kind == OP_POP ? "pop" : "trypop", results[tid][i]);
            break;
        }
    }
}

static FILE *meta;
static long nexec = 0;

static void finish_execution(vs_run_t *r)
{
    int t, i;
    if( nexec++ ) vt_reset_marker();
    {   /* the scenario's initial stack, as an event the trace specification starts from */
        char buf[128]; int n = 0;
        for( i = 0; i < ninit; i++ ) n += snprintf(buf + n, sizeof(buf) - n, "%s%d", i ? "," : "", init_st[i]);
        if( 0 == ninit ) buf[0] = 0;
        vt_raw("{\"e\":\"init\",\"st\":[%s]}", buf);
    }
    vt_dump();
    if( r && r->deadlock ) vt_raw("{\"e\":\"Timeout\"}");
    fprintf(meta, "{\"sched\":\"");
    if( r ) for( i = 0; i < r->nsteps; i++ ) fputc('0' + r->who[i], meta);
    fprintf(meta, "\",\"deadlock\":%d,\"ret\":[", r ? r->deadlock : 0);
    for( t = 0; t < nthreads; t++ ) {
        fprintf(meta, "%s[", t ? "," : "");
        for( i = 0; i < nops[t]; i++ ) fprintf(meta, "%s%d", i ? "," : "", results[t][i]);
        fputc(']', meta);
    }
    fprintf(meta, "]}\n");
}

/* after every thread finished: observe the final content by popping everything (as one more caller) */
static void drain(void)
{
    int k;
    for( k = 0; k < nitems + 2; k++ ) {
        parsec_list_item_t *it;
        vt_ev("\"e\":\"inv\",\"t\":%d,\"op\":\"pop\"", nthreads + 1);
        it = parsec_lifo_pop(&lifo);
        vt_ev("\"e\":\"res\",\"t\":%d,\"op\":\"pop\",\"r\":%d", nthreads + 1, NULL == it ? 0 : ((item_t*)it)->id);
        if( NULL == it ) break;
    }
}

static int once(void *ctx, const unsigned char *sched, int slen, vs_run_t *r)
{
    (void)ctx;
    setup();
    vs_run(r, nthreads, body, NULL, sched, slen, 2000);
    if( !r->deadlock ) drain();
    finish_execution(r);
    if( r->deadlock ) { fflush(meta); vt_close(); _exit(0); }   /* parked threads: cannot continue safely */
    teardown();
    return 0;
}

static void *stress_thread(void *p) { body((int)(intptr_t)p, NULL); return NULL; }

int main(int argc, char **argv)
{
    if( argc < 6 ) die("usage");
    parse_scenario(argv[2]);
    vt_init(1 << 16);
    if( vt_open(argv[4]) ) die("cannot open trace output");
    meta = fopen(argv[5], "w");
    if( !strcmp(argv[1], "replay") ) {
        FILE *sf = fopen(argv[3], "r");
        char line[VS_MAXSTEPS + 2];
        static vs_run_t r;
        if( !sf ) die("cannot open schedules");
        vs_install();
        while( fgets(line, sizeof(line), sf) ) {
            unsigned char sched[VS_MAXSTEPS]; int n = 0; char *p;
            for( p = line; *p && n < VS_MAXSTEPS; p++ ) if( isdigit((unsigned char)*p) ) sched[n++] = (unsigned char)(*p - '0');
            once(NULL, sched, n, &r);
        }
        fclose(sf);
    } else if( !strcmp(argv[1], "explore") ) {
        long n;
        vs_install();
        n = vs_explore(once, NULL, atol(argv[3]));
        fprintf(meta, "{\"explored\":%ld,\"exhaustive\":%s}\n", n < 0 ? -n : n, n < 0 ? "false" : "true");
    } else if( !strcmp(argv[1], "stress") ) {
        long runs = atol(argv[3]), k; int t;
        controlled = 0;
        for( k = 0; k < runs; k++ ) {
            pthread_t th[VS_MAXT];
            setup();
            for( t = 0; t < nthreads; t++ ) pthread_create(&th[t], NULL, stress_thread, (void*)(intptr_t)t);
            for( t = 0; t < nthreads; t++ ) pthread_join(th[t], NULL);
            drain();
            finish_execution(NULL);
            teardown();
        }
    } else die("bad mode");
    fclose(meta);
    vt_close();
    return 0;
}
