/* C10 harness: drives the real local termination detector through the exported function table
 * parsec_termdet_local_module.module.* on a privately allocated parsec_taskpool_t, along TLC-generated schedules
 * (mode replay), over every interleaving at yield-point granularity (mode explore), or free-running with a
 * monitoring thread (mode stress); records an ndjson history for validation by spec/Termdet/LocalTrace.tla.
 *
 *   tl_replay replay  <scenario> <schedules> <trace.ndjson> <meta.ndjson>
 *   tl_replay explore <scenario> <limit>     <trace.ndjson> <meta.ndjson>
 *   tl_replay stress  <scenario> <runs>      <trace.ndjson> <meta.ndjson>
 *
 * scenario file:   threads T / t <tid> op op ...      with op in (tokens < 100 = tasks, >= 100 = pending actions)
 *   setpa:j,k,..  settasks:j,k,..  addtasks:j,k,..  endtask:j  addpa:j  relpa:j  take:j  pass:j  ready
 * `take` waits until the token is available (a task: when the call announcing it has returned; a pending action:
 * when its holder passed it), which keeps every interleaving inside the usage contract of termdet.h.
 */
#include "parsec/parsec_config.h"
#include "parsec/parsec_internal.h"
#include "parsec/mca/termdet/termdet.h"
#include "parsec/mca/termdet/local/termdet_local.h"
#include <stdio.h>
#include <stdlib.h>
#include <string.h>
#include <ctype.h>
#include "vtrace.h"
#include "vsched.h"

#define MAXOPS 24
#define MAXTOK 200
enum { OP_SETPA, OP_SETTASKS, OP_ADDTASKS, OP_ENDTASK, OP_ADDPA, OP_RELPA, OP_TAKE, OP_PASS, OP_READY };
typedef struct { int kind; int ntok; int tok[8]; } op_t;

static int nthreads, nops[VS_MAXT];
static op_t ops[VS_MAXT][MAXOPS];
static int controlled = 1;
static volatile int avail[MAXTOK];
static volatile int ready_returned;            /* tasks complete only after taskpool_ready() returned */
static __thread int my_tid = -1;

static parsec_taskpool_t tp;
static const parsec_termdet_base_module_t *mod;
static volatile int ncb, cbby, ndestroyed;

static void die(const char *m) { fprintf(stderr, "tl_replay: %s\n", m); exit(3); }

static const char *state_name(void)
{
    switch( mod->taskpool_state(&tp) ) {
    case PARSEC_TERM_TP_NOT_READY:  return "NOT_READY";
    case PARSEC_TERM_TP_BUSY:       return "BUSY";
    case PARSEC_TERM_TP_TERMINATED: return "TERMINATED";
    case PARSEC_TERM_TP_NOT_MONITORED: return "NOT_MONITORED";
    default: return "INVALID";
    }
}

static void termination_cb(parsec_taskpool_t *p)
{
    (void)p;
    vt_ev("\"e\":\"cb\",\"t\":%d", my_tid + 1);
    __sync_fetch_and_add(&ncb, 1);
    cbby = my_tid + 1;
}

/* installed as the object's release function: called when the reference count of the taskpool reaches zero */
static void taskpool_released(parsec_object_t *o)
{
    (void)o;
    vt_ev("\"e\":\"destroyed\"");
    __sync_fetch_and_add(&ndestroyed, 1);
}

static void parse_scenario(const char *path)
{
    static const char *names[] = { "setpa", "settasks", "addtasks", "endtask", "addpa", "relpa", "take", "pass", "ready" };
    FILE *f = fopen(path, "r");
    char line[4096];
    if( !f ) die("cannot open scenario");
    while( fgets(line, sizeof(line), f) ) {
        char *tok = strtok(line, " \t\n");
        if( !tok ) continue;
        if( !strcmp(tok, "threads") ) nthreads = atoi(strtok(NULL, " \t\n"));
        else if( !strcmp(tok, "t") ) {
            int t = atoi(strtok(NULL, " \t\n"));
            if( t < 0 || t >= VS_MAXT ) die("bad thread");
            while( (tok = strtok(NULL, " \t\n")) ) {
                op_t *o = &ops[t][nops[t]++];
                char *colon = strchr(tok, ':');
                int k;
                if( nops[t] > MAXOPS ) die("too many ops");
                memset(o, 0, sizeof(*o));
                if( colon ) *colon = 0;
                for( k = 0; k < 9; k++ ) if( !strcmp(tok, names[k]) ) break;
                if( 9 == k ) die("bad op");
                o->kind = k;
                if( colon ) {
                    char *p = colon + 1;
                    while( *p && o->ntok < 8 ) { o->tok[o->ntok++] = (int)strtol(p, &p, 10); if( *p == ',' ) p++; }
                }
                for( k = 0; k < o->ntok; k++ ) if( o->tok[k] < 0 || o->tok[k] >= MAXTOK ) die("bad token");
            }
        }
    }
    fclose(f);
    if( nthreads < 1 || nthreads > VS_MAXT ) die("bad thread count");
}

static void setup(void)
{
    memset((void*)avail, 0, sizeof(avail));
    ready_returned = 0;
    ncb = 0; cbby = 0; ndestroyed = 0;
    memset(&tp, 0, sizeof(tp));
    PARSEC_OBJ_CONSTRUCT_WRELEASE(&tp, parsec_taskpool_t, taskpool_released);     /* reference count 1: ours */
    mod = &parsec_termdet_local_module.module;
    tp.tdm.module = mod;
    mod->monitor_taskpool(&tp, termination_cb);
}

static void call(int tid, const char *name, int v, int (*fn)(parsec_taskpool_t*, int))
{
    vt_ev("\"e\":\"inv\",\"t\":%d,\"op\":\"%s\",\"v\":%d", tid + 1, name, v);
    (void)fn(&tp, v);
    vt_ev("\"e\":\"res\",\"t\":%d,\"op\":\"%s\",\"st\":\"%s\"", tid + 1, name, state_name());
}

static void body(int tid, void *arg)
{
    int k, j;
    (void)arg;
    my_tid = tid;
    for( k = 0; k < nops[tid]; k++ ) {
        op_t *o = &ops[tid][k];
        if( k > 0 && controlled ) vs_yield();          /* operation boundary = yield point */
        switch( o->kind ) {
        case OP_TAKE:
            while( !avail[o->tok[0]] ) { if( controlled ) vs_point(PARSEC_VERIF_K_SPIN, &avail[o->tok[0]]); else sched_yield(); }
            avail[o->tok[0]] = 0;
            break;
        case OP_PASS:
            __sync_synchronize();
            avail[o->tok[0]] = 1;
            break;
        case OP_SETPA:    call(tid, "setpa", o->ntok, mod->taskpool_set_runtime_actions); break;
        case OP_SETTASKS: call(tid, "settasks", o->ntok, mod->taskpool_set_nb_tasks);
                          __sync_synchronize();
                          for( j = 0; j < o->ntok; j++ ) avail[o->tok[j]] = 1;
                          break;
        case OP_ADDTASKS: call(tid, "addtasks", o->ntok, mod->taskpool_addto_nb_tasks);
                          __sync_synchronize();
                          for( j = 0; j < o->ntok; j++ ) avail[o->tok[j]] = 1;     /* runnable only now (contract E2) */
                          break;
        case OP_ENDTASK:
            while( !ready_returned ) { if( controlled ) vs_point(PARSEC_VERIF_K_SPIN, &ready_returned); else sched_yield(); }
            call(tid, "addtasks", -1, mod->taskpool_addto_nb_tasks);
            break;
        case OP_ADDPA:    call(tid, "addpa", 1, mod->taskpool_addto_runtime_actions); break;
        case OP_RELPA:    call(tid, "addpa", -1, mod->taskpool_addto_runtime_actions); break;
        case OP_READY:
            vt_ev("\"e\":\"inv\",\"t\":%d,\"op\":\"ready\",\"v\":0", tid + 1);
            (void)mod->taskpool_ready(&tp);
            vt_ev("\"e\":\"res\",\"t\":%d,\"op\":\"ready\",\"st\":\"%s\"", tid + 1, state_name());
            __sync_synchronize();
            ready_returned = 1;
            break;
        }
    }
}

static FILE *meta;
static long nexec = 0;

static void finish_execution(vs_run_t *r)
{
    int i;
    if( nexec++ ) vt_reset_marker();
    vt_dump();
    if( r && r->deadlock ) vt_raw("{\"e\":\"Timeout\"}");
    else vt_raw("{\"e\":\"end\",\"st\":\"%s\"}", state_name());
    fprintf(meta, "{\"sched\":\"");
    if( r ) for( i = 0; i < r->nsteps; i++ ) fputc('0' + r->who[i], meta);
    fprintf(meta, "\",\"deadlock\":%d,\"cb\":%d,\"cbby\":%d,\"final\":\"%s\",\"destroyed\":%d,\"ref\":%d,\"tasks\":%d,\"pa\":%d}\n",
            r ? r->deadlock : 0, ncb, cbby, state_name(), ndestroyed, (int)tp.super.super.obj_reference_count,
            (int)tp.nb_tasks, (int)tp.nb_pending_actions);
}

static int once(void *ctx, const unsigned char *sched, int slen, vs_run_t *r)
{
    (void)ctx;
    setup();
    vs_run(r, nthreads, body, NULL, sched, slen, 3000);
    finish_execution(r);
    if( r->deadlock ) { fflush(meta); vt_close(); _exit(0); }   /* parked threads: cannot continue safely */
    return 0;
}

/* free-running mode: persistent worker threads, one execution per round, plus a monitoring thread that samples
 * taskpool_state() and logs every change it sees */
static pthread_barrier_t gate;
static long stress_runs;
static volatile int round_active, tl_finished;
static void *stress_thread(void *p)
{
    long k;
    for( k = 0; k < stress_runs; k++ ) {
        pthread_barrier_wait(&gate);
        body((int)(intptr_t)p, NULL);
        __sync_fetch_and_add(&tl_finished, 1);
        pthread_barrier_wait(&gate);
    }
    return NULL;
}
static void *sampler_thread(void *p)
{
    long k;
    (void)p;
    for( k = 0; k < stress_runs; k++ ) {
        const char *last = NULL;
        int n = 0;
        pthread_barrier_wait(&gate);
        while( round_active ) {
            const char *s = state_name();
            if( s != last && n < 8 ) { vt_ev("\"e\":\"sample\",\"st\":\"%s\"", s); last = s; n++; }
            sched_yield();
        }
        pthread_barrier_wait(&gate);
    }
    return NULL;
}

int main(int argc, char **argv)
{
    if( argc < 6 ) die("usage");
    parse_scenario(argv[2]);
    vt_init(1 << 12);
    if( vt_open(argv[4]) ) die("cannot open trace output");
    meta = fopen(argv[5], "w");
    if( !meta ) die("cannot open meta output");
    if( !strcmp(argv[1], "replay") ) {
        FILE *sf = fopen(argv[3], "r");
        static char line[VS_MAXSTEPS + 2];
        static vs_run_t r;
        if( !sf ) die("cannot open schedules");
        vs_install();
        while( fgets(line, sizeof(line), sf) ) {
            static unsigned char sched[VS_MAXSTEPS]; int n = 0; char *p;
            for( p = line; *p && n < VS_MAXSTEPS; p++ ) if( isdigit((unsigned char)*p) ) sched[n++] = (unsigned char)(*p - '0');
            once(NULL, sched, n, &r);
        }
        fclose(sf);
    } else if( !strcmp(argv[1], "explore") ) {
        long n;
        vs_install();
        n = vs_explore(once, NULL, atol(argv[3]));
        fprintf(meta, "{\"explored\":%ld,\"exhaustive\":%s}\n", n < 0 ? -n : n, n < 0 ? "false" : "true");
    } else if( !strcmp(argv[1], "stress") ) {
        long k; int t;
        pthread_t th[VS_MAXT], sam;
        stress_runs = atol(argv[3]);
        controlled = 0;
        pthread_barrier_init(&gate, NULL, (unsigned)nthreads + 2);
        for( t = 0; t < nthreads; t++ ) pthread_create(&th[t], NULL, stress_thread, (void*)(intptr_t)t);
        pthread_create(&sam, NULL, sampler_thread, NULL);
        for( k = 0; k < stress_runs; k++ ) {
            setup();
            tl_finished = 0;
            round_active = 1;
            pthread_barrier_wait(&gate);
            while( tl_finished < nthreads ) sched_yield();      /* the sampler keeps sampling until the workers are done */
            round_active = 0;
            pthread_barrier_wait(&gate);
            finish_execution(NULL);
        }
        for( t = 0; t < nthreads; t++ ) pthread_join(th[t], NULL);
        pthread_join(sam, NULL);
    } else die("bad mode");
    fclose(meta);
    vt_close();
    return 0;
}
