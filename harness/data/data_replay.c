/* C26 harness: replays access sequences (TLC behaviours of Coherency.tla) on the real
 * parsec_data_start_transfer_ownership_to_copy / parsec_data_end_transfer_ownership_to_copy with a privately
 * allocated parsec_data_t holding N device copies (no accelerator, no parsec_init needed: the two functions only
 * use the data, its copies and parsec_nb_devices).
 *
 *   data_replay <N> <behaviours.txt> <trace.ndjson>
 * behaviours.txt: one behaviour per line:  "<init> | <dev> <mode> <bump>;<dev> <mode> <bump>;..."
 *      init = own (host copy OWNED, owner_device 0: parsec_data_create) | exc (host copy EXCLUSIVE, no owner)
 *      mode = R | W | RW        bump = 0 | 1
 * The harness plays the client of the protocol:
 *      src = start(data, dev, mode); if( src != -1 ) copy[dev].version = copy[src].version;   (data movement)
 *      end(data, dev, mode);         if( bump ) copy[dev].version = newest version before the access + 1;
 * and logs, after every access, the result and the complete state:
 *      {"e":"acc","dev":D,"mode":"R","bump":B,"ret":SRC,"coh":["OWN","SHA",..],"ver":[..],"rd":[..],"owner":O}
 */
#include "parsec/parsec_config.h"
#include "parsec/data_internal.h"
#include "parsec/data.h"
#include "parsec/mca/device/device.h"
#include "parsec/parsec_description_structures.h"
#include <stdio.h>
#include <stdlib.h>
#include <string.h>

#define MAXN 8
extern uint32_t parsec_nb_devices;

static const char *coh_name(parsec_data_coherency_t c)
{
    if( PARSEC_DATA_COHERENCY_INVALID == c ) return "INV";
    if( PARSEC_DATA_COHERENCY_OWNED == c ) return "OWN";
    if( PARSEC_DATA_COHERENCY_EXCLUSIVE == c ) return "EXC";
    if( PARSEC_DATA_COHERENCY_SHARED == c ) return "SHA";
    return "BAD";
}

int main(int argc, char **argv)
{
    char *line = NULL; size_t cap = 0; long nexec = 0;
    int n, i;
    FILE *in, *out;
    parsec_data_t *data;
    parsec_data_copy_t *copies[MAXN];
    if( argc < 4 ) return 3;
    n = atoi(argv[1]);
    if( n < 1 || n > MAXN ) return 3;
    in = fopen(argv[2], "r"); out = fopen(argv[3], "w");
    if( !in || !out ) return 3;
    parsec_nb_devices = (uint32_t)n;
    data = (parsec_data_t*)calloc(1, sizeof(parsec_data_t) + n * sizeof(parsec_data_copy_t*));
    for( i = 0; i < n; i++ ) copies[i] = (parsec_data_copy_t*)calloc(1, sizeof(parsec_data_copy_t));
    while( getline(&line, &cap, in) > 0 ) {
        char *bar = strchr(line, '|'), *save = NULL, *tok;
        if( NULL == bar ) continue;
        *bar = '\0';
        if( nexec++ ) fprintf(out, "{\"e\":\"Reset\"}\n");
        /* fresh data with n attached copies */
        memset(data, 0, sizeof(parsec_data_t) + n * sizeof(parsec_data_copy_t*));
        parsec_atomic_lock_init(&data->lock);
        data->preferred_device = -1;
        data->nb_copies = n;
        for( i = 0; i < n; i++ ) {
            memset(copies[i], 0, sizeof(parsec_data_copy_t));
            copies[i]->device_index = (int8_t)i;
            copies[i]->original = data;
            copies[i]->coherency_state = PARSEC_DATA_COHERENCY_INVALID;
            copies[i]->data_transfer_status = PARSEC_DATA_STATUS_NOT_TRANSFER;
            data->device_copies[i] = copies[i];
        }
        if( NULL != strstr(line, "exc") ) {
            copies[0]->coherency_state = PARSEC_DATA_COHERENCY_EXCLUSIVE;
            data->owner_device = -1;
            fprintf(out, "{\"e\":\"init\",\"kind\":\"exc\",\"n\":%d}\n", n);
        } else {
            copies[0]->coherency_state = PARSEC_DATA_COHERENCY_OWNED;
            data->owner_device = 0;
            fprintf(out, "{\"e\":\"init\",\"kind\":\"own\",\"n\":%d}\n", n);
        }
        for( tok = strtok_r(bar + 1, ";\n", &save); tok; tok = strtok_r(NULL, ";\n", &save) ) {
            int dev, bump, src;
            char mode[8];
            uint8_t access = 0;
            uint32_t newest = 0;
            if( sscanf(tok, "%d %7s %d", &dev, mode, &bump) != 3 || dev < 0 || dev >= n ) { fclose(out); return 3; }
            if( strchr(mode, 'R') ) access |= PARSEC_FLOW_ACCESS_READ;
            if( strchr(mode, 'W') ) access |= PARSEC_FLOW_ACCESS_WRITE;
            for( i = 0; i < n; i++ ) if( copies[i]->version > newest ) newest = copies[i]->version;
            src = parsec_data_start_transfer_ownership_to_copy(data, (uint8_t)dev, access);
            if( src >= n ) { fprintf(out, "{\"e\":\"Garbage\",\"src\":%d}\n", src); fclose(out); return 4; }
            if( src >= 0 ) copies[dev]->version = copies[src]->version;
            copies[dev]->data_transfer_status = PARSEC_DATA_STATUS_COMPLETE_TRANSFER;
            parsec_data_end_transfer_ownership_to_copy(data, (uint8_t)dev, access);
            if( bump ) copies[dev]->version = newest + 1;
            fprintf(out, "{\"e\":\"acc\",\"dev\":%d,\"mode\":\"%s\",\"bump\":%d,\"ret\":%d,\"coh\":[", dev, mode, bump, src);
            for( i = 0; i < n; i++ ) fprintf(out, "%s\"%s\"", i ? "," : "", coh_name(copies[i]->coherency_state));
            fprintf(out, "],\"ver\":[");
            for( i = 0; i < n; i++ ) fprintf(out, "%s%u", i ? "," : "", copies[i]->version);
            fprintf(out, "],\"rd\":[");
            for( i = 0; i < n; i++ ) fprintf(out, "%s%d", i ? "," : "", copies[i]->readers);
            fprintf(out, "],\"owner\":%d}\n", (int)data->owner_device);
            fflush(out);
        }
    }
    fclose(out);
    return 0;
}
