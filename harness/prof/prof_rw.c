/* C42 harness: writes one behaviour of spec/Prof/Log.tla (a sequence of Trace steps over several streams) through the
 * real profiling API of parsec/profiling.c (PARSEC_PROF_TRACE=ON build), one pthread per stream, dumps the binary
 * trace, reads it back with tools/profiling/dbpreader.c (compiled into this program) and logs what was written and
 * what was read (validated by spec/Prof/LogTrace.tla).
 *   prof_rw <behaviour.txt> <dbp basename> <trace.ndjson>
 * behaviour.txt:  line 1 "N L1 L2 ... Lk" (N streams, info length of dictionary entries 1..k), then one line per Trace
 * step "s key info flags id tp" (key = 2*entry + end bit, info = 0/1).
 * Trace:  {"e":"open","streams":N,"infolen":[..]}
 *         {"e":"w","s":S,"key":K,"kn":NAME,"flags":F,"id":I,"tp":T,"len":LEN,"h":HASH,"rc":RC}   per traced event (per stream
 *                                      in program order; streams are written concurrently, logged stream by stream)
 *         {"e":"dump","rc":RC}
 *         {"e":"r","s":S,"key":K,"kn":NAME,"flags":F,"id":I,"tp":T,"len":LEN,"h":HASH}     per event met by the reader
 *         {"e":"end","threads":NB_THREADS_IN_FILE}
 * HASH = 31-bit checksum of the info bytes (as written / as read).
 */
#include "parsec/parsec_config.h"
#include "parsec/profiling.h"
#include "parsec/parsec_binary_profile.h"
#include "dbpreader.h"
#include <mpi.h>
#include <pthread.h>
#include <stdio.h>
#include <stdlib.h>
#include <string.h>
#include <stdint.h>

#define MAXK 16
#define MAXS 48
typedef struct { int s, key, info, flags, id, tp, rc, len; long h; } ev_t;
static ev_t *evs; static int nev, nstreams, nkeys, infolen[MAXK + 1], kstart[MAXK + 1], kend[MAXK + 1];
static pthread_barrier_t barrier, barrier0;
static int race_mode;   /* VERIF_PROF_RACE: all threads create their stream at the same instant */
static FILE *out;

static long hash(const unsigned char *p, int n)
{
    unsigned long h = 17;
    for( int i = 0; i < n; i++ ) h = (h * 31 + p[i] + (unsigned long)i) & 0x7fffffffUL;
    return (long)h;
}
static void fill_info(unsigned char *p, int n, int s, int id, int key)
{
    for( int i = 0; i < n; i++ ) p[i] = (unsigned char)((s * 131 + id * 7 + key * 13 + i * 3 + (i >> 5)) & 0xff);
}

static void *writer(void *arg)
{
    int s = (int)(intptr_t)arg;
    unsigned char *info = malloc(1 << 16);
    if( race_mode ) pthread_barrier_wait(&barrier0);
    parsec_profiling_stream_t *st = parsec_profiling_stream_init(4096, "S%d", s);
    pthread_barrier_wait(&barrier);      /* all streams exist */
    pthread_barrier_wait(&barrier);      /* parsec_profiling_start() was called */
    for( int i = 0; i < nev; i++ ) {
        ev_t *e = &evs[i];
        if( e->s != s ) continue;
        int entry = e->key >> 1, key = (e->key & 1) ? kend[entry] : kstart[entry];
        e->len = e->info ? infolen[entry] : 0;
        if( e->info ) { fill_info(info, infolen[entry], s, e->id, e->key); e->h = hash(info, infolen[entry]); }
        else e->h = hash(info, 0);
        e->rc = parsec_profiling_trace_flags(st, key, (uint64_t)e->id, (uint32_t)e->tp, e->info ? info : NULL,
                                             (uint16_t)e->flags);
        e->key = key;
    }
    free(info);
    return NULL;
}

int main(int argc, char **argv)
{
    char line[4096], fname[1024], *files[1];
    int s, k;
    FILE *in;
    if( argc < 4 ) return 3;
    MPI_Init(&argc, &argv);
    in = fopen(argv[1], "r"); out = fopen(argv[3], "w");
    if( !in || !out ) return 3;
    if( !fgets(line, sizeof(line), in) ) return 3;
    {   char *tok = strtok(line, " \n"); nstreams = atoi(tok); nkeys = 0;
        while( (tok = strtok(NULL, " \n")) && nkeys < MAXK ) infolen[++nkeys] = atoi(tok); }
    evs = calloc(1 << 20, sizeof(ev_t));
    while( fgets(line, sizeof(line), in) && nev < (1 << 20) ) {
        ev_t *e = &evs[nev];
        if( 6 == sscanf(line, "%d %d %d %d %d %d", &e->s, &e->key, &e->info, &e->flags, &e->id, &e->tp) ) nev++;
    }
    fprintf(out, "{\"e\":\"open\",\"streams\":%d,\"infolen\":[", nstreams);
    for( k = 1; k <= nkeys; k++ ) fprintf(out, "%s%d", k > 1 ? "," : "", infolen[k]);
    fprintf(out, "]}\n");
    /* ---- write ---- */
    if( 0 != parsec_profiling_init(0) ) return 4;
    if( 0 != parsec_profiling_dbp_start(argv[2], "verif C42") ) return 4;
    for( k = 1; k <= nkeys; k++ ) {
        char name[32];
        snprintf(name, sizeof(name), "K%d", k);
        parsec_profiling_add_dictionary_keyword(name, "fill:#FF0000", (size_t)infolen[k], "payload{int32_t}", &kstart[k], &kend[k]);
    }
    pthread_t th[MAXS + 1];
    race_mode = (NULL != getenv("VERIF_PROF_RACE"));
    pthread_barrier_init(&barrier0, NULL, nstreams);
    pthread_barrier_init(&barrier, NULL, nstreams + 1);
    for( s = 1; s <= nstreams; s++ ) pthread_create(&th[s], NULL, writer, (void*)(intptr_t)s);
    pthread_barrier_wait(&barrier);
    parsec_profiling_start();
    pthread_barrier_wait(&barrier);
    for( s = 1; s <= nstreams; s++ ) pthread_join(th[s], NULL);
    for( s = 1; s <= nstreams; s++ ) for( int i = 0; i < nev; i++ ) {
        ev_t *e = &evs[i];
        if( e->s != s ) continue;
        fprintf(out, "{\"e\":\"w\",\"s\":%d,\"key\":%d,\"kn\":\"K%d\",\"flags\":%d,\"id\":%d,\"tp\":%d,\"len\":%d,\"h\":%ld,\"rc\":%d}\n",
                s, e->key, e->key >> 1, e->flags | (e->info ? 1 : 0), e->id, e->tp, e->len, e->h, e->rc);
    }
    int rc = parsec_profiling_dbp_dump();
    fprintf(out, "{\"e\":\"dump\",\"rc\":%d}\n", rc);
    parsec_profiling_fini();
    fflush(out);
    /* ---- read back ---- */
    snprintf(fname, sizeof(fname), "%s-0.prof", argv[2]);
    files[0] = fname;
    dbp_multifile_reader_t *dbp = dbp_reader_open_files(1, files);
    if( NULL == dbp || dbp_reader_nb_files(dbp) < 1 ) { fprintf(out, "{\"e\":\"Crash\",\"what\":\"reader cannot open the file\"}\n"); fclose(out); return 0; }
    dbp_file_t *file = dbp_reader_get_file(dbp, 0);
    int nth = dbp_file_nb_threads(file);
    for( int t = 0; t < nth; t++ ) {
        dbp_thread_t *dth = dbp_file_get_thread(file, t);
        const char *hr = dbp_thread_get_hr_id(dth);
        int sid = (hr && hr[0] == 'S') ? atoi(hr + 1) : -1;
        dbp_event_iterator_t *it = dbp_iterator_new_from_thread(dth);
        const dbp_event_t *e = dbp_iterator_current(it);
        while( NULL != e ) {
            int key = dbp_event_get_key(e), len = dbp_event_info_len(e, file);
            dbp_dictionary_t *dico = dbp_file_get_dictionary(file, BASE_KEY(key));
            const unsigned char *info = (const unsigned char*)dbp_event_get_info(e);
            fprintf(out, "{\"e\":\"r\",\"s\":%d,\"key\":%d,\"kn\":\"%s\",\"flags\":%d,\"id\":%ld,\"tp\":%ld,\"len\":%d,\"h\":%ld}\n",
                    sid, key, dbp_dictionary_name(dico), dbp_event_get_flags(e), (long)dbp_event_get_event_id(e),
                    (long)dbp_event_get_taskpool_id(e), len, hash(info ? info : (const unsigned char*)"", info ? len : 0));
            e = dbp_iterator_next(it);
        }
        dbp_iterator_delete(it);
    }
    fprintf(out, "{\"e\":\"end\",\"threads\":%d}\n", nth);
    fclose(out);
    MPI_Finalize();
    return 0;
}
