/* vtrace: lock-free ndjson event recorder for verification harnesses.
 *
 * Every event takes a stamp from one process-wide atomic counter (raw __sync builtin, NOT a parsec
 * atomic, so logging never creates a yield point) and is formatted into the slot indexed by that
 * stamp; vt_dump() writes the slots in stamp order.  The stamp order is therefore the real order
 * in which the stamping instructions executed.
 */
#ifndef VTRACE_H
#define VTRACE_H
#include <stdio.h>
#include <stdlib.h>
#include <string.h>
#include <stdarg.h>
#include <stdint.h>
#include <unistd.h>

#ifndef VT_LINE
#define VT_LINE 240
#endif

typedef struct { volatile int ready; char txt[VT_LINE]; } vt_slot_t;

static vt_slot_t *vt_slots = NULL;
static long vt_cap = 0;
static volatile long vt_next = 0;
static FILE *vt_file = NULL;

static inline void vt_init(long cap)
{
    if( NULL != vt_slots ) free(vt_slots);
    vt_cap = cap;
    vt_slots = (vt_slot_t*)calloc((size_t)cap, sizeof(vt_slot_t));
    vt_next = 0;
}

static inline int vt_open(const char *path)
{
    vt_file = fopen(path, "w");
    return NULL == vt_file ? -1 : 0;
}

/* take a stamp and record the event `{"s":<stamp>,<fmt...>}` ; returns the stamp (or -1 when full) */
static inline long vt_ev(const char *fmt, ...) __attribute__((format(printf, 1, 2)));
static inline long vt_ev(const char *fmt, ...)
{
    long s = __sync_fetch_and_add(&vt_next, 1);
    if( s >= vt_cap ) return -1;
    va_list ap;
    int n = snprintf(vt_slots[s].txt, VT_LINE, "{\"s\":%ld,", s);
    va_start(ap, fmt);
    vsnprintf(vt_slots[s].txt + n, VT_LINE - n - 2, fmt, ap);
    va_end(ap);
    n = (int)strlen(vt_slots[s].txt);
    vt_slots[s].txt[n] = '}'; vt_slots[s].txt[n+1] = '\0';
    __sync_synchronize();
    vt_slots[s].ready = 1;
    return s;
}

/* write all recorded events in stamp order and reset the recorder */
static inline void vt_dump(void)
{
    long n = vt_next < vt_cap ? vt_next : vt_cap;
    for( long i = 0; i < n; i++ ) {
        if( vt_slots[i].ready ) { fputs(vt_slots[i].txt, vt_file); fputc('\n', vt_file); }
        vt_slots[i].ready = 0;
    }
    if( vt_next > vt_cap ) fprintf(vt_file, "{\"e\":\"Overflow\"}\n");
    vt_next = 0;
    fflush(vt_file);
}

/* a line that is not an event of the execution (separators, scenario descriptions) */
static inline void vt_raw(const char *fmt, ...) __attribute__((format(printf, 1, 2)));
static inline void vt_raw(const char *fmt, ...)
{
    va_list ap;
    va_start(ap, fmt);
    vfprintf(vt_file, fmt, ap);
    va_end(ap);
    fputc('\n', vt_file);
}

static inline void vt_reset_marker(void) { vt_raw("{\"e\":\"Reset\"}"); }

static inline void vt_close(void) { if( vt_file ) { fclose(vt_file); vt_file = NULL; } }

#endif
