/* vsched: deterministic cooperative scheduler for interleaving replay (DESIGN.md 2.3).
 *
 * N real pthreads run a harness body; exactly one runs at a time; control changes only at the
 * yield points compiled into PaRSEC under -DPARSEC_VERIF (every parsec_atomic_* operation, fences,
 * marked spin-waits and marked plain reads).  A *step* of thread t = the code of t from the yield
 * point where it is parked (the atomic operation it is about to execute) up to its next yield point.
 *
 * The schedule is a sequence of thread ids (from a TLC behaviour of the implementation-shaped
 * model, or from the built-in exhaustive explorer vs_explore()).  Entries naming a finished or
 * not-eligible thread are skipped; when the schedule is exhausted the lowest eligible thread runs.
 * A thread parked in a spin-wait (K_SPIN), or that executed VS_SPIN_LIMIT consecutive operations on
 * the same address while no other thread moved, is not eligible until another thread has taken a
 * step (this is how "lock is taken" is modelled as "not enabled").
 */
#ifndef VSCHED_H
#define VSCHED_H
#ifndef _GNU_SOURCE
#define _GNU_SOURCE
#endif
#include <sched.h>
#include <pthread.h>
#include <semaphore.h>
#include <stdint.h>
#include <stdlib.h>
#include <string.h>
#include "parsec/sys/verif_hooks.h"

#define VS_MAXT 8
#define VS_SPIN_LIMIT 3
#define VS_MAXSTEPS 4096

typedef void (*vs_body_t)(int tid, void *arg);

typedef struct {
    int tid;
    sem_t sem;
    int done;
    int kind;                     /* kind/addr of the yield point where the thread is parked */
    const volatile void *addr;
    int same;                     /* consecutive steps on the same address without anybody else moving */
    int spinning;
    pthread_t th;
} vs_thread_t;

typedef struct {
    int n;
    vs_thread_t t[VS_MAXT];
    sem_t ctrl;
    vs_body_t body;
    void *arg;
    /* result of the run */
    int nsteps;
    unsigned char who[VS_MAXSTEPS];       /* thread that took step i */
    unsigned char elig[VS_MAXSTEPS];      /* bitmask of eligible threads before step i */
    unsigned char kinds[VS_MAXSTEPS];     /* kind of the yield point the step started from (0 = thread start) */
    int deadlock;                         /* 1 = step budget exhausted / nobody can move */
} vs_run_t;

static __thread vs_thread_t *vs_me = NULL;
static vs_run_t *vs_cur = NULL;

static void vs_point(int kind, const volatile void *addr)
{
    vs_thread_t *me = vs_me;
    if( NULL == me ) return;                 /* thread not under control (runtime workers, comm thread) */
    me->kind = kind;
    me->addr = addr;
    sem_post(&vs_cur->ctrl);
    sem_wait(&me->sem);
}

/* explicit yield point for harness code (e.g. between two API calls of one thread) */
static inline void vs_yield(void) { vs_point(PARSEC_VERIF_K_READ, NULL); }

static void *vs_trampoline(void *p)
{
    vs_thread_t *me = (vs_thread_t*)p;
    vs_me = me;
    sem_wait(&me->sem);                      /* first step starts when the controller says so */
    vs_cur->body(me->tid, vs_cur->arg);
    me->done = 1;
    vs_me = NULL;
    sem_post(&vs_cur->ctrl);
    return NULL;
}

static inline void vs_install(void)
{
    /* one thread runs at a time: pinning everything on one core makes the hand-offs ~5x cheaper */
    cpu_set_t set;
    int cpu = sched_getcpu();
    if( cpu >= 0 ) { CPU_ZERO(&set); CPU_SET(cpu, &set); sched_setaffinity(0, sizeof(set), &set); }
    parsec_verif_point_fn = vs_point;
}
static inline void vs_uninstall(void) { parsec_verif_point_fn = NULL; }

/* run one execution under `sched` (length slen); maxsteps <= VS_MAXSTEPS */
static int vs_run(vs_run_t *r, int n, vs_body_t body, void *arg, const unsigned char *sched, int slen, int maxsteps)
{
    int i, pos = 0, last = -1;
    memset(r, 0, sizeof(*r));
    r->n = n; r->body = body; r->arg = arg;
    sem_init(&r->ctrl, 0, 0);
    vs_cur = r;
    if( maxsteps > VS_MAXSTEPS ) maxsteps = VS_MAXSTEPS;
    for( i = 0; i < n; i++ ) {
        r->t[i].tid = i;
        sem_init(&r->t[i].sem, 0, 0);
        pthread_create(&r->t[i].th, NULL, vs_trampoline, &r->t[i]);
    }
    for(;;) {
        int live = 0, mask = 0, pick = -1;
        for( i = 0; i < n; i++ ) if( !r->t[i].done ) { live++; if( !r->t[i].spinning ) mask |= 1 << i; }
        if( 0 == live ) break;
        if( 0 == mask ) {
            /* everybody alive is spinning: nobody can make the others progress => deadlock,
             * unless a spinner was only *suspected* (RMW repetition): give them one more round */
            int suspected = 0;
            for( i = 0; i < n; i++ )
                if( !r->t[i].done && r->t[i].kind != PARSEC_VERIF_K_SPIN && r->t[i].same < 64 ) {
                    r->t[i].spinning = 0; suspected = 1; mask |= 1 << i;
                }
            if( !suspected ) { r->deadlock = 1; break; }
        }
        if( r->nsteps >= maxsteps ) { r->deadlock = 1; break; }
        while( pos < slen ) {
            int c = sched[pos++];
            if( c < n && (mask & (1 << c)) ) { pick = c; break; }
        }
        if( pick < 0 ) for( i = 0; i < n; i++ ) if( mask & (1 << i) ) { pick = i; break; }
        r->who[r->nsteps] = (unsigned char)pick;
        r->elig[r->nsteps] = (unsigned char)mask;
        r->kinds[r->nsteps] = (unsigned char)r->t[pick].kind;
        r->nsteps++;
        {
            const volatile void *prev_addr = r->t[pick].addr;
            int prev_kind = r->t[pick].kind;
            if( pick != last ) {
                /* somebody else moved: every spinner gets another chance */
                for( i = 0; i < n; i++ ) if( i != pick ) { r->t[i].spinning = 0; r->t[i].same = 0; }
            }
            sem_post(&r->t[pick].sem);
            sem_wait(&r->ctrl);
            if( !r->t[pick].done ) {
                vs_thread_t *t = &r->t[pick];
                if( t->kind == PARSEC_VERIF_K_SPIN ) t->spinning = 1;
                else if( prev_kind != 0 && t->addr == prev_addr && t->addr != NULL && t->kind == PARSEC_VERIF_K_RMW ) {
                    if( ++t->same >= VS_SPIN_LIMIT ) t->spinning = 1;
                } else t->same = 0;
            }
            last = pick;
        }
    }
    if( r->deadlock ) {
        /* cannot join parked threads: detach them; they stay blocked for ever (harness should exit soon) */
        for( i = 0; i < n; i++ ) if( !r->t[i].done ) pthread_detach(r->t[i].th); else pthread_join(r->t[i].th, NULL);
    } else {
        for( i = 0; i < n; i++ ) pthread_join(r->t[i].th, NULL);
    }
    for( i = 0; i < n; i++ ) sem_destroy(&r->t[i].sem);
    sem_destroy(&r->ctrl);
    return r->deadlock;
}

/* Exhaustive stateless exploration of all interleavings at yield-point granularity (depth-first over
 * schedule prefixes).  `once(arg_run, sched, slen, r)` must (re)initialise the scenario, call vs_run with
 * the given schedule and post-process; it returns non-zero to stop.  Returns the number of executions,
 * or -(count) when `limit` was hit before the space was exhausted. */
typedef int (*vs_once_t)(void *ctx, const unsigned char *sched, int slen, vs_run_t *r);

static long vs_explore(vs_once_t once, void *ctx, long limit)
{
    static unsigned char sched[VS_MAXSTEPS];
    static vs_run_t r;
    int slen = 0;
    long count = 0;
    for(;;) {
        int i, k;
        if( once(ctx, sched, slen, &r) ) return count + 1;
        count++;
        if( limit > 0 && count >= limit ) return -count;
        /* the executed schedule is r.who[0..nsteps) ; find the deepest step with an untried alternative */
        for( i = 0; i < r.nsteps; i++ ) sched[i] = r.who[i];
        k = r.nsteps - 1;
        for( ; k >= 0; k-- ) {
            int c, found = -1;
            for( c = r.who[k] + 1; c < r.n; c++ ) if( r.elig[k] & (1 << c) ) { found = c; break; }
            if( found >= 0 ) { sched[k] = (unsigned char)found; slen = k + 1; break; }
        }
        if( k < 0 ) return count;
    }
}

#endif
