/* C22 harness: runs the real matrix operator taskpools of parsec/data_dist/matrix on a 2D block-cyclic matrix whose
 * tile (m,n) holds the value m*100+n+1 and logs every operator invocation (validated by spec/Dist/OperatorsTrace.tla).
 *   [mpiexec -n P*Q] op_run <scenarios.txt> <trace-prefix> <cores>
 * scenarios.txt, one per line:  op=apply|map|reduce_col|reduce_row uplo=full|upper|lower mt=.. nt=.. mb=.. P=.. Q=.. kp=.. kq=..
 * (P*Q must equal the number of MPI processes).  Every rank writes <trace-prefix>.<rank>.ndjson:
 *   {"e":"scn","k":K}                    scenario K starts on this rank
 *   {"e":"visit","m":..,"n":..,"tu":..,"sv":..,"dv":..}   the operator ran on tile (m,n): tile-level uplo it was given,
 *                                         first element of the (source) tile, first element of the destination tile
 *   {"e":"counts","m":M,"n0":N0,"c":[..],"wd":W}   op=mapcount (map operator on many tiles, cheap logging): number of
 *                                         operator invocations this rank made on tiles (M,N0), (M,N0+1), ... (one record
 *                                         per chunk of <= 400 tiles of a tile row, only chunks with an invocation or a
 *                                         local tile); W = how many of them did not see the tile's own data
 *   {"e":"result","calls":..,"vals":[..]} reductions (rank 0): number of operator invocations, reduced values
 *   {"e":"done","k":K}                   the taskpool completed on this rank (parsec_context_wait returned)
 */
#include "parsec/parsec_config.h"
#include "parsec/runtime.h"
#include "parsec/execution_stream.h"
#include "parsec/data_internal.h"
#include "parsec/data_dist/matrix/matrix.h"
#include "parsec/data_dist/matrix/two_dim_rectangle_cyclic.h"
#include "parsec/data_dist/matrix/vector_two_dim_cyclic.h"
#define VT_LINE 640
#include "vtrace.h"
#include <mpi.h>
#include <stdarg.h>

static int rank, world;
static volatile int ncalls;

static const char *uplo_name(int u)
{
    return u == PARSEC_MATRIX_UPPER ? "upper" : (u == PARSEC_MATRIX_LOWER ? "lower" : (u == PARSEC_MATRIX_FULL ? "full" : "bad"));
}

/* parsec_tiled_matrix_unary_op_t for parsec_apply */
static int apply_op(struct parsec_execution_stream_s *es, const parsec_tiled_matrix_t *desc, void *data,
                    int uplo, int m, int n, void *args)
{
    (void)es; (void)desc; (void)args;
    vt_ev("\"e\":\"visit\",\"m\":%d,\"n\":%d,\"tu\":\"%s\",\"sv\":%d,\"dv\":0,\"rank\":%d", m, n, uplo_name(uplo),
          ((int*)data)[0], rank);
    return 0;
}

/* parsec_operator_t for parsec_map_operator_New: dst = src + 1 */
static int map_op(struct parsec_execution_stream_s *es, const void *src, void *dst, void *op_data, ...)
{
    va_list ap; int m, n;
    (void)es; (void)op_data;
    va_start(ap, op_data); m = va_arg(ap, int); n = va_arg(ap, int); va_end(ap);
    int sv = src ? ((const int*)src)[0] : -1, dv = dst ? ((int*)dst)[0] : -1;
    vt_ev("\"e\":\"visit\",\"m\":%d,\"n\":%d,\"tu\":\"full\",\"sv\":%d,\"dv\":%d,\"rank\":%d", m, n, sv, dv, rank);
    if( dst ) ((int*)dst)[0] = sv + 1;
    return 0;
}

/* parsec_operator_t for op=mapcount: counts the invocations per tile in memory (dst = src + 1 as map_op) */
static int *cnt_visits, *cnt_wrong, cnt_mt, cnt_nt;
static int count_op(struct parsec_execution_stream_s *es, const void *src, void *dst, void *op_data, ...)
{
    va_list ap; int m, n;
    (void)es; (void)op_data;
    va_start(ap, op_data); m = va_arg(ap, int); n = va_arg(ap, int); va_end(ap);
    int sv = src ? ((const int*)src)[0] : -1, dv = dst ? ((int*)dst)[0] : -1;
    if( m < 0 || m >= cnt_mt || n < 0 || n >= cnt_nt ) {    /* not a tile of the matrix: log it as such */
        vt_ev("\"e\":\"visit\",\"m\":%d,\"n\":%d,\"tu\":\"full\",\"sv\":%d,\"dv\":%d,\"rank\":%d", m, n, sv, dv, rank);
        return 0;
    }
    __sync_fetch_and_add(&cnt_visits[m * cnt_nt + n], 1);
    if( sv != m * 100 + n + 1 ) __sync_fetch_and_add(&cnt_wrong[m * cnt_nt + n], 1);
    if( dst ) ((int*)dst)[0] = sv + 1;
    return 0;
}

/* parsec_operator_t for the reductions: dst += src */
static int sum_op(struct parsec_execution_stream_s *es, const void *src, void *dst, void *op_data, ...)
{
    (void)es; (void)op_data;
    __sync_fetch_and_add(&ncalls, 1);
    if( src && dst ) ((int*)dst)[0] += ((const int*)src)[0];
    return 0;
}

static int geti(const char *line, const char *key, int dflt)
{
    char pat[32]; const char *p;
    snprintf(pat, sizeof(pat), " %s=", key);
    p = strstr(line, pat);
    return p ? atoi(p + strlen(pat)) : dflt;
}
static void gets_(const char *line, const char *key, char *dst, const char *dflt)
{
    char pat[32]; const char *p; int k = 0;
    snprintf(pat, sizeof(pat), " %s=", key);
    p = strstr(line, pat);
    if( !p ) { strcpy(dst, dflt); return; }
    p += strlen(pat);
    while( *p && *p != ' ' && *p != '\n' && k < 15 ) dst[k++] = *p++;
    dst[k] = 0;
}

static void fill(parsec_matrix_block_cyclic_t *A, int sign)
{
    parsec_data_collection_t *dc = &A->super.super;
    for( int n = 0; n < A->super.nt; n++ ) for( int m = 0; m < A->super.mt; m++ ) {
        if( (int)dc->rank_of(dc, m, n) != rank ) continue;
        parsec_data_t *d = dc->data_of(dc, m, n);
        int *p = (int*)d->device_copies[0]->device_private;
        for( size_t k = 0; k < A->super.bsiz; k++ ) p[k] = sign * (m * 100 + n + 1);
    }
}

int main(int argc, char **argv)
{
    int prov, k = 0, pargc = 1;
    char *pargv[2] = { argv[0], NULL }, **ppargv = pargv, path[512], line[512], buf[520];
    FILE *in;
    if( argc < 4 ) return 3;
    MPI_Init_thread(&argc, &argv, MPI_THREAD_MULTIPLE, &prov);
    MPI_Comm_rank(MPI_COMM_WORLD, &rank); MPI_Comm_size(MPI_COMM_WORLD, &world);
    parsec_context_t *ctx = parsec_init(atoi(argv[3]), &pargc, &ppargv);
    if( NULL == ctx ) return 4;
    snprintf(path, sizeof(path), "%s.%d.ndjson", argv[2], rank);
    vt_init(1 << 13);
    if( vt_open(path) ) return 3;
    in = fopen(argv[1], "r");
    if( !in ) return 3;
    while( fgets(line, sizeof(line), in) ) {
        char op[16], us[16];
        snprintf(buf, sizeof(buf), " %s", line);
        gets_(buf, "op", op, ""); gets_(buf, "uplo", us, "full");
        if( !op[0] ) continue;
        int mt = geti(buf, "mt", 1), nt = geti(buf, "nt", 1), mb = geti(buf, "mb", 2), P = geti(buf, "P", 1),
            Q = geti(buf, "Q", 1), kp = geti(buf, "kp", 1), kq = geti(buf, "kq", 1);
        if( P * Q != world ) { fprintf(stderr, "scenario needs %d ranks\n", P * Q); return 5; }
        parsec_matrix_uplo_t uplo = !strcmp(us, "upper") ? PARSEC_MATRIX_UPPER :
                                    (!strcmp(us, "lower") ? PARSEC_MATRIX_LOWER : PARSEC_MATRIX_FULL);
        parsec_matrix_block_cyclic_t A, B;
        parsec_taskpool_t *tp = NULL;
        vt_raw("{\"e\":\"scn\",\"k\":%d}", k);
        fflush(vt_file);
        parsec_matrix_block_cyclic_init(&A, PARSEC_MATRIX_INTEGER, PARSEC_MATRIX_TILE, rank, mb, mb, mt * mb, nt * mb,
                                        0, 0, mt * mb, nt * mb, P, Q, kp, kq, 0, 0);
        A.mat = calloc((size_t)A.super.nb_local_tiles * A.super.bsiz + 1, sizeof(int));
        parsec_data_collection_set_key(&A.super.super, "A");
        fill(&A, 1);
        ncalls = 0;
        if( !strcmp(op, "apply") ) {
            parsec_apply(ctx, uplo, &A.super, apply_op, NULL);
        } else if( !strcmp(op, "map") || !strcmp(op, "mapcount") ) {
            int counted = !strcmp(op, "mapcount");
            if( counted ) {
                cnt_mt = mt; cnt_nt = nt;
                cnt_visits = (int*)calloc((size_t)mt * nt, sizeof(int));
                cnt_wrong = (int*)calloc((size_t)mt * nt, sizeof(int));
            }
            parsec_matrix_block_cyclic_init(&B, PARSEC_MATRIX_INTEGER, PARSEC_MATRIX_TILE, rank, mb, mb, mt * mb, nt * mb,
                                            0, 0, mt * mb, nt * mb, P, Q, kp, kq, 0, 0);
            B.mat = calloc((size_t)B.super.nb_local_tiles * B.super.bsiz + 1, sizeof(int));
            parsec_data_collection_set_key(&B.super.super, "B");
            fill(&B, -1);
            tp = parsec_map_operator_New(&A.super, &B.super, counted ? count_op : map_op, NULL);
            parsec_context_add_taskpool(ctx, tp);
            parsec_context_start(ctx);
            parsec_context_wait(ctx);
            parsec_taskpool_free(tp);
            if( counted ) {
                enum { CHUNK = 400 };
                char *cb = (char*)malloc(CHUNK * 12 + 64);
                for( int m = 0; m < mt; m++ ) for( int n0 = 0; n0 < nt; n0 += CHUNK ) {
                    int len = nt - n0 < CHUNK ? nt - n0 : CHUNK, o = 0, wd = 0, any = 0;
                    for( int j = 0; j < len; j++ ) {
                        int c = cnt_visits[m * nt + n0 + j];
                        any |= c || (int)A.super.super.rank_of(&A.super.super, m, n0 + j) == rank;
                        wd += cnt_wrong[m * nt + n0 + j];
                        o += sprintf(cb + o, "%s%d", j ? "," : "", c);
                    }
                    if( any ) vt_raw("{\"e\":\"counts\",\"m\":%d,\"n0\":%d,\"c\":[%s],\"wd\":%d,\"rank\":%d}", m, n0, cb, wd, rank);
                }
                free(cb); free(cnt_visits); free(cnt_wrong);
                cnt_visits = cnt_wrong = NULL;
            }
            free(B.mat);
            parsec_tiled_matrix_destroy(&B.super);
        } else if( !strcmp(op, "reduce_col") || !strcmp(op, "reduce_row") ) {
            int col = !strcmp(op, "reduce_col"), nres = col ? nt : mt, r;
            parsec_vector_two_dim_cyclic_t V;
            parsec_vector_two_dim_cyclic_init(&V, PARSEC_MATRIX_INTEGER, PARSEC_VECTOR_DISTRIB_DIAG, rank, mb * mb,
                                              nres * mb * mb, 0, nres * mb * mb, P, Q);
            V.mat = calloc((size_t)V.super.nb_local_tiles * V.super.bsiz + 1, sizeof(int));
            parsec_data_collection_set_key(&V.super.super, "V");
            tp = col ? parsec_reduce_col_New(&A.super, &V.super, sum_op, NULL)
                     : parsec_reduce_row_New(&A.super, &V.super, sum_op, NULL);
            parsec_context_add_taskpool(ctx, tp);
            parsec_context_start(ctx);
            parsec_context_wait(ctx);
            parsec_taskpool_free(tp);
            if( 0 == rank ) {
                char vals[512]; int o = 0;
                for( r = 0; r < nres && o < 480; r++ ) {
                    int val = -1;
                    if( (int)V.super.super.rank_of(&V.super.super, r) == rank ) {
                        parsec_data_t *d = V.super.super.data_of(&V.super.super, r);
                        val = ((int*)d->device_copies[0]->device_private)[0];
                    }
                    o += snprintf(vals + o, sizeof(vals) - o, "%s%d", r ? "," : "", val);
                }
                vt_ev("\"e\":\"result\",\"calls\":%d,\"vals\":[%s]", ncalls, vals);
            }
            free(V.mat);
            parsec_tiled_matrix_destroy(&V.super);
        }
        vt_ev("\"e\":\"done\",\"k\":%d", k);
        vt_dump();
        free(A.mat);
        parsec_tiled_matrix_destroy(&A.super);
        MPI_Barrier(MPI_COMM_WORLD);
        k++;
    }
    vt_close();
    parsec_fini(&ctx);
    MPI_Finalize();
    return 0;
}
