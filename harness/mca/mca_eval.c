/* C38 harness: evaluates the effective value and the reported source of MCA parameters on the real
 * parsec/utils/mca_param.c for a list of cases.  Every case uses its own parameter (and synonym) name, so that the
 * environment, the parameter file ($HOME/.parsec/mca-params.conf) and the --mca options of ALL cases are prepared
 * by the caller before the process starts; parameters are registered afterwards, as the runtime does.
 *
 *   mca_eval api  <cases.txt> <out.ndjson> [--mca name value]...
 *        parsec_mca_param_init() + the command-line path of parsec_init (parsec_cmd_line_parse,
 *        parsec_mca_cmd_line_process_args, copy of the context environment into environ) called directly
 *   mca_eval init <cases.txt> <out.ndjson> [--mca name value]...
 *        MPI_Init + parsec_init(1, &argc, &argv) with the --mca options
 * cases.txt:  <id> <type:int|sizet|string> <default> <synonym:0|1> <override or ->     (values without blanks)
 *        parameter name verif_c<id>, synonym verif_s<id>
 * out: {"e":"case","id":N,"val":"..","src":"default|env|file|override","val0":"..","src0":".."}
 *        val0/src0 = before the override is applied (parsec_mca_param_set_*), val/src = final
 */
#include "parsec/parsec_config.h"
#include "parsec/runtime.h"
#include "parsec/utils/mca_param.h"
#include "parsec/utils/mca_param_cmd_line.h"
#include "parsec/utils/cmd_line.h"
#include "parsec/utils/parsec_environ.h"
#include "parsec/utils/installdirs.h"
#include "parsec/utils/output.h"
#include "parsec/utils/show_help.h"
#include "parsec/constants.h"
#include <mpi.h>
#include <stdio.h>
#include <stdlib.h>
#include <string.h>
extern char **environ;

static const char *src_name(parsec_mca_param_source_t s)
{
    switch( s ) {
    case MCA_PARAM_SOURCE_DEFAULT: return "default";
    case MCA_PARAM_SOURCE_ENV: return "env";
    case MCA_PARAM_SOURCE_FILE: return "file";
    case MCA_PARAM_SOURCE_OVERRIDE: return "override";
    default: return "unknown";
    }
}

static void lookup(int idx, const char *type, char *buf, size_t cap, const char **src)
{
    parsec_mca_param_source_t s = MCA_PARAM_SOURCE_MAX;
    int rc;
    buf[0] = '\0';
    if( !strcmp(type, "int") ) {
        int v = -1;
        rc = parsec_mca_param_lookup_int(idx, &v);
        snprintf(buf, cap, "%d", v);
    } else if( !strcmp(type, "sizet") ) {
        size_t v = 0;
        rc = parsec_mca_param_lookup_sizet(idx, &v);
        snprintf(buf, cap, "%zu", v);
    } else {
        char *v = NULL;
        rc = parsec_mca_param_lookup_string(idx, &v);
        snprintf(buf, cap, "%s", NULL == v ? "(null)" : v);
        if( v ) free(v);
    }
    if( PARSEC_SUCCESS != rc ) snprintf(buf, cap, "LOOKUP-ERROR");
    if( PARSEC_SUCCESS != parsec_mca_param_lookup_source(idx, &s, NULL) ) s = MCA_PARAM_SOURCE_MAX;
    *src = src_name(s);
}

int main(int argc, char **argv)
{
    FILE *in, *out;
    char line[1024];
    int use_init, pargc;
    char **pargv;
    parsec_context_t *ctx = NULL;
    if( argc < 4 ) return 3;
    use_init = !strcmp(argv[1], "init");
    pargc = argc - 4;
    pargv = argv + 4;
    if( use_init ) {
        int provided;
        MPI_Init_thread(&argc, &argv, MPI_THREAD_MULTIPLE, &provided);
        ctx = parsec_init(1, &pargc, &pargv);
        if( NULL == ctx ) return 4;
    } else {
        /* the part of parsec_init that deals with parameters */
        parsec_cmd_line_t *cmd_line;
        char **ctx_environ = NULL, **ev;
        int i, cargc = pargc + 1;
        char **cargv = (char**)calloc((size_t)cargc + 1, sizeof(char*));
        parsec_installdirs_open();
        parsec_mca_param_init();
        parsec_output_init();
        cmd_line = PARSEC_OBJ_NEW(parsec_cmd_line_t);
        parsec_mca_cmd_line_setup(cmd_line);
        cargv[0] = argv[0];
        for( i = 0; i < pargc; i++ ) cargv[i + 1] = pargv[i];
        if( PARSEC_SUCCESS != parsec_cmd_line_parse(cmd_line, true, cargc, cargv) ) return 4;
        parsec_mca_cmd_line_process_args(cmd_line, &ctx_environ, &environ);
        for( ev = ctx_environ; NULL != ev && NULL != *ev; ev++ ) {
            char *eq = strchr(*ev, '=');
            if( eq ) { *eq = '\0'; parsec_setenv(*ev, eq + 1, true, &environ); }
        }
    }
    in = fopen(argv[2], "r"); out = fopen(argv[3], "w");
    if( !in || !out ) return 3;
    while( fgets(line, sizeof(line), in) ) {
        int id, syn, idx = -1;
        char type[16], dflt[256], ovr[256], pname[64], sname[64], v0[512], v1[512];
        const char *s0, *s1;
        if( sscanf(line, "%d %15s %255s %d %255s", &id, type, dflt, &syn, ovr) != 5 ) continue;
        snprintf(pname, sizeof(pname), "c%d", id);
        snprintf(sname, sizeof(sname), "s%d", id);
        if( !strcmp(type, "int") ) { int cur; idx = parsec_mca_param_reg_int_name("verif", pname, "verification parameter", false, false, atoi(dflt), &cur); }
        else if( !strcmp(type, "sizet") ) { size_t cur; idx = parsec_mca_param_reg_sizet_name("verif", pname, "verification parameter", false, false, (size_t)strtoull(dflt, NULL, 10), &cur); }
        else {
            char *cur = NULL;    /* like the runtime's own registrations: ask for the current value */
            idx = parsec_mca_param_reg_string_name("verif", pname, "verification parameter", false, false, dflt, &cur);
            if( cur ) free(cur);
        }
        if( idx < 0 ) { fprintf(out, "{\"e\":\"case\",\"id\":%d,\"val\":\"REGISTER-ERROR\",\"src\":\"unknown\",\"val0\":\"\",\"src0\":\"unknown\"}\n", id); continue; }
        if( syn ) parsec_mca_param_reg_syn_name(idx, "verif", sname, false);
        lookup(idx, type, v0, sizeof(v0), &s0);
        if( strcmp(ovr, "-") ) {
            if( !strcmp(type, "int") ) parsec_mca_param_set_int(idx, atoi(ovr));
            else if( !strcmp(type, "sizet") ) parsec_mca_param_set_sizet(idx, (size_t)strtoull(ovr, NULL, 10));
            else parsec_mca_param_set_string(idx, ovr);
        }
        lookup(idx, type, v1, sizeof(v1), &s1);
        fprintf(out, "{\"e\":\"case\",\"id\":%d,\"val\":\"%s\",\"src\":\"%s\",\"val0\":\"%s\",\"src0\":\"%s\"}\n", id, v1, s1, v0, s0);
    }
    fclose(out);
    if( use_init ) { parsec_fini(&ctx); MPI_Finalize(); }
    return 0;
}
