/* C38 harness: evaluates the effective value and the reported source of MCA parameters on the real
 * parsec/utils/mca_param.c for a list of cases.  Every case uses its own parameter (and synonym) name, so that the
 * environment, the parameter file ($HOME/.parsec/mca-params.conf) and the --mca options of ALL cases are prepared
 * by the caller before the process starts; parameters are registered afterwards, as the runtime does.
 *
 *   mca_eval api  <cases.txt> <out.ndjson> [--mca name value]...
 *        parsec_mca_param_init() + the command-line path of parsec_init (parsec_cmd_line_parse,
 *        parsec_mca_cmd_line_process_args, copy of the context environment into environ) called directly
 *   mca_eval init <cases.txt> <out.ndjson> [--mca name value]...
 *        MPI_Init + parsec_init(1, &argc, &argv) with the --mca options
 * cases.txt:  <id> <type:int|sizet|string> <default> <synonym:0|1> <override or -> [<rereg:0|1>]  (values without blanks)
 *        parameter name verif_c<id>, synonym verif_s<id>
 *             P <id> <type> <default A> <default B>
 *        a pair of parameters whose names are in prefix relation: A = verif_q<id>, B = verif_q<id>_x
 * out: {"e":"case","id":N,"val":"..","src":"default|env|file|override","val0":"..","src0":".."}
 *        val0/src0 = before the override is applied (parsec_mca_param_set_*), val/src = final
 *        rereg = 1: the parameter is registered a second time (same arguments) after val0/src0 were read:
 *        "curr" = current value returned by that registration, "valr"/"srcr" = lookup after it; and a third time after
 *        the override: "val2"/"src2"
 *      {"e":"pair","id":N,"res":{"A":{"val":"..","src":".."},"B":{"val":"..","src":".."}}}
 */
#include "parsec/parsec_config.h"
#include "parsec/runtime.h"
#include "parsec/utils/mca_param.h"
#include "parsec/utils/mca_param_cmd_line.h"
#include "parsec/utils/cmd_line.h"
#include "parsec/utils/parsec_environ.h"
#include "parsec/utils/installdirs.h"
#include "parsec/utils/output.h"
#include "parsec/utils/show_help.h"
#include "parsec/constants.h"
#include <mpi.h>
#include <stdio.h>
#include <stdlib.h>
#include <string.h>
extern char **environ;

static const char *src_name(parsec_mca_param_source_t s)
{
    switch( s ) {
    case MCA_PARAM_SOURCE_DEFAULT: return "default";
    case MCA_PARAM_SOURCE_ENV: return "env";
    case MCA_PARAM_SOURCE_FILE: return "file";
    case MCA_PARAM_SOURCE_OVERRIDE: return "override";
    default: return "unknown";
    }
}

static void lookup(int idx, const char *type, char *buf, size_t cap, const char **src)
{
    parsec_mca_param_source_t s = MCA_PARAM_SOURCE_MAX;
    int rc;
    buf[0] = '\0';
    if( !strcmp(type, "int") ) {
        int v = -1;
        rc = parsec_mca_param_lookup_int(idx, &v);
        snprintf(buf, cap, "%d", v);
    } else if( !strcmp(type, "sizet") ) {
        size_t v = 0;
        rc = parsec_mca_param_lookup_sizet(idx, &v);
        snprintf(buf, cap, "%zu", v);
    } else {
        char *v = NULL;
        rc = parsec_mca_param_lookup_string(idx, &v);
        snprintf(buf, cap, "%s", NULL == v ? "(null)" : v);
        if( v ) free(v);
    }
    if( PARSEC_SUCCESS != rc ) snprintf(buf, cap, "LOOKUP-ERROR");
    if( PARSEC_SUCCESS != parsec_mca_param_lookup_source(idx, &s, NULL) ) s = MCA_PARAM_SOURCE_MAX;
    *src = src_name(s);
}

/* register (or re-register) parameter verif_<pname>; the current value returned by the registration goes to cur */
static int reg(const char *type, const char *pname, const char *dflt, char *curbuf, size_t cap)
{
    int idx;
    curbuf[0] = '\0';
    if( !strcmp(type, "int") ) { int cur = -1; idx = parsec_mca_param_reg_int_name("verif", pname, "verification parameter", false, false, atoi(dflt), &cur); snprintf(curbuf, cap, "%d", cur); }
    else if( !strcmp(type, "sizet") ) { size_t cur = 0; idx = parsec_mca_param_reg_sizet_name("verif", pname, "verification parameter", false, false, (size_t)strtoull(dflt, NULL, 10), &cur); snprintf(curbuf, cap, "%zu", cur); }
    else {
        char *cur = NULL;    /* like the runtime's own registrations: ask for the current value */
        idx = parsec_mca_param_reg_string_name("verif", pname, "verification parameter", false, false, dflt, &cur);
        snprintf(curbuf, cap, "%s", NULL == cur ? "(null)" : cur);
        if( cur ) free(cur);
    }
    return idx;
}

int main(int argc, char **argv)
{
    FILE *in, *out;
    char line[1024];
    int use_init, pargc;
    char **pargv;
    parsec_context_t *ctx = NULL;
    if( argc < 4 ) return 3;
    use_init = !strcmp(argv[1], "init");
    pargc = argc - 4;
    pargv = argv + 4;
    if( use_init ) {
        int provided;
        MPI_Init_thread(&argc, &argv, MPI_THREAD_MULTIPLE, &provided);
        ctx = parsec_init(1, &pargc, &pargv);
        if( NULL == ctx ) return 4;
    } else {
        /* the part of parsec_init that deals with parameters */
        parsec_cmd_line_t *cmd_line;
        char **ctx_environ = NULL, **ev;
        int i, cargc = pargc + 1;
        char **cargv = (char**)calloc((size_t)cargc + 1, sizeof(char*));
        parsec_installdirs_open();
        parsec_mca_param_init();
        parsec_output_init();
        cmd_line = PARSEC_OBJ_NEW(parsec_cmd_line_t);
        parsec_mca_cmd_line_setup(cmd_line);
        cargv[0] = argv[0];
        for( i = 0; i < pargc; i++ ) cargv[i + 1] = pargv[i];
        if( PARSEC_SUCCESS != parsec_cmd_line_parse(cmd_line, true, cargc, cargv) ) return 4;
        parsec_mca_cmd_line_process_args(cmd_line, &ctx_environ, &environ);
        for( ev = ctx_environ; NULL != ev && NULL != *ev; ev++ ) {
            char *eq = strchr(*ev, '=');
            if( eq ) { *eq = '\0'; parsec_setenv(*ev, eq + 1, true, &environ); }
        }
    }
    in = fopen(argv[2], "r"); out = fopen(argv[3], "w");
    if( !in || !out ) return 3;
    while( fgets(line, sizeof(line), in) ) {
        int id, syn, idx = -1, idx2, rereg = 0;
        char type[16], dflt[256], ovr[256], pname[64], sname[64], v0[512], v1[512], vr[512], v2[512], cur[512], cur2[512];
        const char *s0, *s1, *sr = "unknown", *s2 = "unknown";
        if( 'P' == line[0] ) {   /* a pair of parameters with names in prefix relation */
            char dfltb[256], bname[80]; int ia, ib;
            if( sscanf(line, "P %d %15s %255s %255s", &id, type, dflt, dfltb) != 4 ) continue;
            snprintf(pname, sizeof(pname), "q%d", id);
            snprintf(bname, sizeof(bname), "q%d_x", id);
            ia = reg(type, pname, dflt, cur, sizeof(cur));
            ib = reg(type, bname, dfltb, cur2, sizeof(cur2));
            if( ia < 0 || ib < 0 ) { fprintf(out, "{\"e\":\"pair\",\"id\":%d,\"res\":{\"A\":{\"val\":\"REGISTER-ERROR\",\"src\":\"unknown\"},\"B\":{\"val\":\"REGISTER-ERROR\",\"src\":\"unknown\"}}}\n", id); continue; }
            lookup(ia, type, v0, sizeof(v0), &s0);
            lookup(ib, type, v1, sizeof(v1), &s1);
            fprintf(out, "{\"e\":\"pair\",\"id\":%d,\"res\":{\"A\":{\"val\":\"%s\",\"src\":\"%s\"},\"B\":{\"val\":\"%s\",\"src\":\"%s\"}}}\n", id, v0, s0, v1, s1);
            continue;
        }
        if( sscanf(line, "%d %15s %255s %d %255s %d", &id, type, dflt, &syn, ovr, &rereg) < 5 ) continue;
        snprintf(pname, sizeof(pname), "c%d", id);
        snprintf(sname, sizeof(sname), "s%d", id);
        idx = reg(type, pname, dflt, cur, sizeof(cur));
        if( idx < 0 ) { fprintf(out, "{\"e\":\"case\",\"id\":%d,\"val\":\"REGISTER-ERROR\",\"src\":\"unknown\",\"val0\":\"\",\"src0\":\"unknown\"}\n", id); continue; }
        if( syn ) parsec_mca_param_reg_syn_name(idx, "verif", sname, false);
        lookup(idx, type, v0, sizeof(v0), &s0);
        vr[0] = v2[0] = cur2[0] = '\0';
        if( rereg ) {           /* second registration under the same name: same index, same effective value */
            idx2 = reg(type, pname, dflt, cur2, sizeof(cur2));
            if( idx2 != idx ) snprintf(cur2, sizeof(cur2), "REREGISTER-ERROR");
            lookup(idx, type, vr, sizeof(vr), &sr);
        }
        if( strcmp(ovr, "-") ) {
            if( !strcmp(type, "int") ) parsec_mca_param_set_int(idx, atoi(ovr));
            else if( !strcmp(type, "sizet") ) parsec_mca_param_set_sizet(idx, (size_t)strtoull(ovr, NULL, 10));
            else parsec_mca_param_set_string(idx, ovr);
        }
        lookup(idx, type, v1, sizeof(v1), &s1);
        if( rereg ) {
            idx2 = reg(type, pname, dflt, cur, sizeof(cur));
            lookup(idx, type, v2, sizeof(v2), &s2);
            if( idx2 != idx ) snprintf(v2, sizeof(v2), "REREGISTER-ERROR");
        }
        fprintf(out, "{\"e\":\"case\",\"id\":%d,\"val\":\"%s\",\"src\":\"%s\",\"val0\":\"%s\",\"src0\":\"%s\"", id, v1, s1, v0, s0);
        if( rereg ) fprintf(out, ",\"curr\":\"%s\",\"valr\":\"%s\",\"srcr\":\"%s\",\"val2\":\"%s\",\"src2\":\"%s\"", cur2, vr, sr, v2, s2);
        fprintf(out, "}\n");
    }
    fclose(out);
    if( use_init ) { parsec_fini(&ctx); MPI_Finalize(); }
    return 0;
}
