/* C28 harness: replays malloc/free sequences (TLC behaviours of BestFit.tla) on the real zone allocator
 * (parsec/utils/zone_malloc.c) and logs, after every operation, the result, zone_in_use(), the segment table
 * and the allocator's red-black tree of free-run sizes (validated by ZoneTrace.tla).
 *
 *   zone_replay <histories.txt> <trace.ndjson> <nunits> <unit_bytes>
 * histories.txt: one behaviour per line: "m <bytes>;f <h>;..." where h is the 1-based position of the malloc
 * operation whose block is freed (skipped when that malloc returned NULL or the block was freed already).
 */
#include "parsec/parsec_config.h"
#include "parsec/class/parsec_object.h"
#include "parsec/class/list.h"
#include "parsec/class/parsec_rbtree.h"
#include "parsec/utils/zone_malloc.h"
#include <stdio.h>
#include <stdlib.h>
#include <string.h>
#include <stddef.h>

/* copy of the private node type of zone_malloc.c (checked against the tree's comp_offset at start-up) */
typedef struct {
    parsec_rbtree_node_t super;
    parsec_list_t list;
    int nb_units;
} chunk_list_t;

#define MAXOPS 4096
static zone_malloc_t *z;
static FILE *out;
static int nunits, unit;
static char *base;
static void *blk[MAXOPS + 1];

#define L(n) ((parsec_rbtree_node_t*)(n)->super.list_prev)
#define R(n) ((parsec_rbtree_node_t*)(n)->super.list_next)
static int keyof(parsec_rbtree_node_t *n) { return (n == z->rbtree.nil || NULL == n) ? 0 : ((chunk_list_t*)n)->nb_units; }

static int first;
static int walk(parsec_rbtree_node_t *n, int fuel)
{
    chunk_list_t *fl = (chunk_list_t*)n;
    parsec_list_item_t *it;
    int f2 = nunits + 2, k = 0;
    if( n == z->rbtree.nil || NULL == n || fuel <= 0 ) return fuel;
    fprintf(out, "%s{\"k\":%d,\"c\":%d,\"l\":%d,\"r\":%d,\"p\":%d,\"segs\":[", first ? "" : ",", keyof(n),
            n->color == PARSEC_RBTREE_BLACK ? 1 : 0, keyof(L(n)), keyof(R(n)), keyof(n->parent));
    first = 0;
    for( it = PARSEC_LIST_ITERATOR_FIRST(&fl->list); it != PARSEC_LIST_ITERATOR_END(&fl->list) && f2-- > 0;
         it = PARSEC_LIST_ITERATOR_NEXT(it) )
        fprintf(out, "%s%d", k++ ? "," : "", (int)((segment_t*)it - z->segments));
    fprintf(out, "]}");
    fuel = walk(L(n), fuel - 1);
    return walk(R(n), fuel);
}

static void log_state(const char *op, int b, int h, long r)
{
    int tid, k = 0, fuel = nunits + 2;
    fprintf(out, "{\"e\":\"op\",\"op\":\"%s\",\"b\":%d,\"h\":%d,\"r\":%ld,\"inuse\":%ld,\"segs\":[", op, b, h, r, (long)zone_in_use(z));
    /* segment table, walked like zone_in_use does (bounded) */
    for( tid = 0; tid >= 0 && tid < nunits && fuel-- > 0; ) {
        segment_t *s = &z->segments[tid];
        fprintf(out, "%s[%d,%d,%d,%d]", k++ ? "," : "", tid, s->nb_units, s->status, s->nb_prev);
        if( s->nb_units <= 0 ) break;
        tid += s->nb_units;
    }
    fprintf(out, "],\"root\":%d,\"nodes\":[", keyof(z->rbtree.root));
    first = 1;
    walk(z->rbtree.root, nunits + 2);
    fprintf(out, "]}\n");
}

int main(int argc, char **argv)
{
    char *line = NULL; size_t cap = 0; long nexec = 0;
    FILE *in;
    if( argc < 5 ) return 3;
    in = fopen(argv[1], "r"); out = fopen(argv[2], "w"); nunits = atoi(argv[3]); unit = atoi(argv[4]);
    if( !in || !out || nunits <= 0 || unit <= 0 ) return 3;
    base = (char*)malloc((size_t)nunits * unit + 64);
    while( getline(&line, &cap, in) > 0 ) {
        char *save = NULL, *tok;
        int nop = 0;
        if( nexec++ ) fprintf(out, "{\"e\":\"Reset\"}\n");
        z = zone_malloc_init(base, nunits, (size_t)unit);
        if( z->rbtree.comp_offset != offsetof(chunk_list_t, nb_units) ) { fprintf(stderr, "zone_replay: chunk list layout changed\n"); return 3; }
        memset(blk, 0, sizeof(blk));
        for( tok = strtok_r(line, ";\n", &save); tok && nop < MAXOPS; tok = strtok_r(NULL, ";\n", &save) ) {
            char op[8]; int a = 0;
            if( sscanf(tok, "%7s %d", op, &a) < 2 ) continue;
            nop++;
            if( !strcmp(op, "m") ) {
                char *p = (char*)zone_malloc(z, (size_t)a);
                long r = -1;
                blk[nop] = p;
                if( NULL != p ) {
                    long off = (long)(p - base);
                    r = (off < 0 || off % unit) ? -2 : off / unit;        /* -2: not aligned on a unit */
                }
                log_state("m", a, nop, r);
            } else if( !strcmp(op, "f") ) {
                if( a < 1 || a >= nop || NULL == blk[a] ) continue;       /* nothing to free */
                {
                    long r = ((char*)blk[a] - base) / unit;
                    zone_free(z, blk[a]);
                    blk[a] = NULL;
                    log_state("f", 0, a, r);
                }
            }
        }
        fflush(out);
        zone_malloc_fini(&z);
    }
    fclose(out);
    free(base);
    return 0;
}
