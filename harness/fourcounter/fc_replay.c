/* C11 harness: N virtual ranks of the real four-counter termination detector inside one process; the harness plays
 * the ENVIRONMENT of a TLC behaviour of FourCounter.tla (workload changes, application messages, which in-flight
 * control message is delivered next) into the real module functions.
 *
 *   fc_replay <behaviours.txt> <trace.ndjson> <meta.ndjson>
 *
 * behaviours.txt, one behaviour per line:  "N;Ready 2 -1;ActionDone 2 -1;MsgUp 2 0;SendApp 1 2;..."
 *
 * Virtual ranks: N copies of the parsec_context_t (my_rank = r, nb_nodes = N), N taskpools sharing one taskpool_id,
 * parsec_ce.send_am replaced by a recording stub (one FIFO per (src,dst) pair), delivery through the real
 * parsec_termdet_fourcounter_msg_dispatch after registering the receiver's taskpool under the shared id.  The
 * module's delayed-message list is process-wide: the harness keeps one per virtual rank and swaps it in and out.
 *
 * After the behaviour the harness drives the system to quiescence (all ranks ready, all application messages
 * received, all work completed) and then delivers control messages fairly (round robin over the channels) for a
 * bounded number of deliveries: every rank must have declared termination by then (otherwise a "stuck" event).
 *
 * trace.ndjson (validated by FourCounterTrace.tla): cfg / ready / spawn / taskdone / actiondone / sendapp / recvstart /
 * recvend / deliver / term (logged from the termination callback) / end | stuck.  Every environment event is logged
 * BEFORE the module function is called.
 * meta.ndjson: per behaviour {"diverged":0|1,"obs":[[state of every rank after step i],..],"cbs":[..],"ctl":[..]}.
 */
#include "parsec/parsec_config.h"
#include "parsec/runtime.h"
#include "parsec/parsec_internal.h"
#include "parsec/execution_stream.h"
#include "parsec/parsec_comm_engine.h"
#include "parsec/mca/termdet/termdet.h"
#include "parsec/mca/termdet/fourcounter/termdet_fourcounter.h"
#include "parsec/class/list.h"
#include <mpi.h>
#include <stdio.h>
#include <stdarg.h>
#include <stdlib.h>
#include <string.h>

typedef struct { unsigned char b[PARSEC_TERMDET_FOURCOUNTER_MAX_MSG_SIZE]; int size; } cmsg_t;
typedef struct { cmsg_t *q; int head, n, cap; } chan_t;

static parsec_context_t *real_ctx;
static int N;
static parsec_context_t *vctx;
static parsec_taskpool_t *vtp;
static int *cbcount, *tasks, *pa, *flight, *started, *ready;
static chan_t *chan;                    /* chan[src*N+dst] */
static parsec_list_item_t ***dly; static int *ndly;
static uint32_t shared_id;
static int cur_rank = -1;
static FILE *out, *meta;
static int first_obs, first_ctl;
static char *ctlbuf; static size_t ctllen, ctlcap;

static void ctl_note(const char *fmt, ...)
{
    va_list ap; char tmp[160]; int n;
    va_start(ap, fmt); n = vsnprintf(tmp, sizeof(tmp), fmt, ap); va_end(ap);
    if( ctllen + n + 2 > ctlcap ) { ctlcap = 2 * (ctlcap + n + 64); ctlbuf = realloc(ctlbuf, ctlcap); }
    if( !first_ctl ) ctlbuf[ctllen++] = ',';
    first_ctl = 0;
    memcpy(ctlbuf + ctllen, tmp, n); ctllen += n; ctlbuf[ctllen] = 0;
}

static int stub_send_am(parsec_comm_engine_t *ce, parsec_ce_tag_t tag, int remote, void *addr, size_t size)
{
    (void)ce;
    parsec_termdet_fourcounter_msg_up_t *up = (parsec_termdet_fourcounter_msg_up_t*)addr;
    parsec_termdet_fourcounter_msg_down_t *down = (parsec_termdet_fourcounter_msg_down_t*)addr;
    if( up->msg_type == PARSEC_TERMDET_FOURCOUNTER_MSG_TYPE_UP )
        ctl_note("[%d,%d,\"UP\",%u,%u]", cur_rank, remote, up->nb_sent, up->nb_received);
    else
        ctl_note("[%d,%d,\"DOWN\",%u,0]", cur_rank, remote, down->result);
    if( tag != PARSEC_TERMDET_FOURCOUNTER_MSG_TAG || remote < 0 || remote >= N || cur_rank < 0 ||
        size > PARSEC_TERMDET_FOURCOUNTER_MAX_MSG_SIZE ) {
        fprintf(out, "{\"e\":\"badsend\",\"src\":%d,\"dst\":%d}\n", cur_rank, remote);
        return 1;
    }
    chan_t *c = &chan[cur_rank * N + remote];
    if( c->n == c->cap ) { c->cap = c->cap ? 2 * c->cap : 8; c->q = realloc(c->q, c->cap * sizeof(cmsg_t)); }
    memcpy(c->q[c->n].b, addr, size); c->q[c->n].size = (int)size; c->n++;
    return 1;
}

static void term_cb(parsec_taskpool_t *tp)
{
    int r = tp->context->my_rank;
    cbcount[r]++;
    fprintf(out, "{\"e\":\"term\",\"r\":%d}\n", r);
}

static void dly_load(int r)
{
    for( int i = 0; i < ndly[r]; i++ )
        parsec_list_nolock_push_back(&parsec_termdet_fourcounter_delayed_messages, dly[r][i]);
    ndly[r] = 0;
}
static void dly_store(int r)
{
    parsec_list_item_t *it;
    while( NULL != (it = parsec_list_nolock_pop_front(&parsec_termdet_fourcounter_delayed_messages)) ) {
        dly[r] = realloc(dly[r], (ndly[r] + 1) * sizeof(parsec_list_item_t*));
        dly[r][ndly[r]++] = it;
    }
}

#define MOD(r) (vtp[r].tdm.module)

static void setup(int n)
{
    N = n;
    vctx = calloc(N, sizeof(parsec_context_t)); vtp = calloc(N, sizeof(parsec_taskpool_t));
    cbcount = calloc(N, sizeof(int)); tasks = calloc(N, sizeof(int)); pa = calloc(N, sizeof(int));
    flight = calloc(N, sizeof(int)); started = calloc(N, sizeof(int)); ready = calloc(N, sizeof(int));
    chan = calloc(N * N, sizeof(chan_t));
    dly = calloc(N, sizeof(*dly)); ndly = calloc(N, sizeof(int));
    for( int r = 0; r < N; r++ ) {
        memcpy(&vctx[r], real_ctx, sizeof(parsec_context_t));
        vctx[r].my_rank = r; vctx[r].nb_nodes = N;
        PARSEC_OBJ_CONSTRUCT(&vtp[r], parsec_list_item_t);
        vtp[r].context = &vctx[r];
        vtp[r].taskpool_id = shared_id;
        parsec_termdet_open_module(&vtp[r], "fourcounter");
        MOD(r)->monitor_taskpool(&vtp[r], term_cb);
        /* the runtime's start-up pending action (environment contract: ready is called while busy) */
        cur_rank = r;
        MOD(r)->taskpool_addto_runtime_actions(&vtp[r], 1); pa[r] = 1;
        cur_rank = -1;
    }
}

static void teardown(void)
{
    for( int r = 0; r < N; r++ ) {
        for( int i = 0; i < ndly[r]; i++ ) free(dly[r][i]);
        free(dly[r]); free(vtp[r].tdm.monitor);
        for( int q = 0; q < N; q++ ) free(chan[r * N + q].q);
    }
    free(dly); free(ndly); free(vctx); free(vtp); free(cbcount); free(tasks); free(pa); free(flight); free(started);
    free(ready); free(chan);
}

static void observe(void)
{
    fprintf(meta, "%s[", first_obs ? "" : ",");
    first_obs = 0;
    for( int r = 0; r < N; r++ ) fprintf(meta, "%s%d", r ? "," : "", (int)MOD(r)->taskpool_state(&vtp[r]));
    for( int r = 0; r < N; r++ ) fprintf(meta, ",%d", cbcount[r]);
    fprintf(meta, "]");
}

/* ---- environment actions: log first, then call the real module --------------------------------------------------------- */
static void act_ready(int r)
{
    fprintf(out, "{\"e\":\"ready\",\"r\":%d}\n", r);
    cur_rank = r; ready[r] = 1;
    parsec_taskpool_register(&vtp[r]);
    dly_load(r);
    MOD(r)->taskpool_ready(&vtp[r]);
    dly_store(r);
    cur_rank = -1;
}
static void act_spawn(int r)
{
    fprintf(out, "{\"e\":\"spawn\",\"r\":%d}\n", r);
    cur_rank = r; tasks[r]++;
    MOD(r)->taskpool_addto_nb_tasks(&vtp[r], 1);
    cur_rank = -1;
}
static void act_taskdone(int r)
{
    fprintf(out, "{\"e\":\"taskdone\",\"r\":%d}\n", r);
    cur_rank = r; tasks[r]--;
    MOD(r)->taskpool_addto_nb_tasks(&vtp[r], -1);
    cur_rank = -1;
}
static void act_actiondone(int r)
{
    fprintf(out, "{\"e\":\"actiondone\",\"r\":%d}\n", r);
    cur_rank = r; pa[r]--;
    MOD(r)->taskpool_addto_runtime_actions(&vtp[r], -1);
    cur_rank = -1;
}
static void act_sendapp(int r, int q)
{
    fprintf(out, "{\"e\":\"sendapp\",\"r\":%d,\"q\":%d}\n", r, q);
    cur_rank = r;
    flight[q]++;
    MOD(r)->outgoing_message_start(&vtp[r], q, NULL);
    cur_rank = -1;
}
static void act_recvstart(int q)
{
    int src = (q + 1) % N;             /* (the detector ignores the source of an application message) */
    fprintf(out, "{\"e\":\"recvstart\",\"q\":%d}\n", q);
    cur_rank = q; flight[q]--; started[q]++;
    MOD(q)->incoming_message_start(&vtp[q], src, NULL, NULL, 0, NULL);
    cur_rank = -1;
}
static void act_recvend(int q)
{
    fprintf(out, "{\"e\":\"recvend\",\"q\":%d}\n", q);
    cur_rank = q; started[q]--; pa[q]++;
    MOD(q)->taskpool_addto_runtime_actions(&vtp[q], 1);      /* remote_dep_inc_flying_messages */
    MOD(q)->incoming_message_end(&vtp[q], NULL);
    cur_rank = -1;
}
/* deliver the head of the control channel p -> q; returns the message type (0 DOWN, 1 UP) or -1 */
static int act_deliver(int p, int q)
{
    chan_t *c = &chan[p * N + q];
    if( c->head >= c->n ) return -1;
    cmsg_t m = c->q[c->head++];
    int type = (int)((parsec_termdet_fourcounter_msg_up_t*)m.b)->msg_type;
    fprintf(out, "{\"e\":\"deliver\",\"p\":%d,\"q\":%d}\n", p, q);
    cur_rank = q;
    parsec_taskpool_register(&vtp[q]);
    dly_load(q);
    parsec_termdet_fourcounter_msg_dispatch(&parsec_ce, PARSEC_TERMDET_FOURCOUNTER_MSG_TAG, m.b, m.size, p, NULL);
    dly_store(q);
    cur_rank = -1;
    return type;
}

static int all_terminated(void)
{
    for( int r = 0; r < N; r++ ) if( PARSEC_TERM_TP_TERMINATED != MOD(r)->taskpool_state(&vtp[r]) ) return 0;
    return 1;
}
static int ctl_pending(void)
{
    int s = 0;
    for( int i = 0; i < N * N; i++ ) s += chan[i].n - chan[i].head;
    return s;
}

static int run_behaviour(char *line)
{
    char *save = NULL, *tok = strtok_r(line, ";\n", &save);
    int n = tok ? atoi(tok) : 0, diverged = 0;
    if( n < 1 || n > 64 ) return -1;
    setup(n);
    first_obs = 1; first_ctl = 1; ctllen = 0; if( ctlbuf ) ctlbuf[0] = 0;
    fprintf(out, "{\"e\":\"cfg\",\"n\":%d}\n", n);
    fprintf(meta, "{\"obs\":[");
    for( tok = strtok_r(NULL, ";\n", &save); tok && !diverged; tok = strtok_r(NULL, ";\n", &save) ) {
        char op[24]; int a = -1, b = -1;
        if( sscanf(tok, "%23s %d %d", op, &a, &b) < 2 ) continue;
        /* legality in the real environment state (the model said the action is enabled) */
        if( !strcmp(op, "Ready") )            { if( ready[a] ) diverged = 1; else act_ready(a); }
        else if( !strcmp(op, "Spawn") )       { if( !ready[a] || tasks[a] + pa[a] <= 0 ) diverged = 1; else act_spawn(a); }
        else if( !strcmp(op, "TaskDone") )    { if( !ready[a] || tasks[a] <= 0 ) diverged = 1; else act_taskdone(a); }
        else if( !strcmp(op, "ActionDone") )  { if( !ready[a] || pa[a] <= 0 ) diverged = 1; else act_actiondone(a); }
        else if( !strcmp(op, "SendApp") )     { if( !ready[a] || tasks[a] <= 0 ) diverged = 1; else act_sendapp(a, b); }
        else if( !strcmp(op, "RecvStart") )   { if( !ready[a] || flight[a] <= 0 ) diverged = 1; else act_recvstart(a); }
        else if( !strcmp(op, "RecvEnd") )     { if( started[a] <= 0 ) diverged = 1; else act_recvend(a); }
        else if( !strcmp(op, "MsgUp") )       { if( !ready[b] || 1 != act_deliver(a, b) ) diverged = 1; }
        else if( !strcmp(op, "MsgDown") )     { if( !ready[b] || 0 != act_deliver(a, b) ) diverged = 1; }
        else if( !strcmp(op, "MsgDelay") )    { if( ready[b] || act_deliver(a, b) < 0 ) diverged = 1; }
        else diverged = 1;
        observe();
    }
    fprintf(meta, "],\"fin\":[");
    first_obs = 1;
    /* ---- drive to quiescence ---------------------------------------------------------------------------------------------- */
    for( int r = 0; r < N; r++ ) if( !ready[r] ) act_ready(r);
    for( int again = 1; again; ) {
        again = 0;
        for( int q = 0; q < N; q++ ) {
            while( flight[q] > 0 ) { act_recvstart(q); again = 1; }
            while( started[q] > 0 ) { act_recvend(q); again = 1; }
            while( tasks[q] > 0 ) { act_taskdone(q); again = 1; }
            while( pa[q] > 0 ) { act_actiondone(q); again = 1; }
        }
    }
    observe();
    /* ---- fair delivery of the control messages, bounded ------------------------------------------------------------------------ */
    {
        int budget = 40 * N * 2 + 40, progress = 1;
        while( !all_terminated() && budget > 0 && progress ) {
            progress = 0;
            for( int i = 0; i < N * N && budget > 0; i++ ) {
                if( chan[i].head < chan[i].n ) { act_deliver(i / N, i % N); budget--; progress = 1; }
            }
        }
        while( ctl_pending() > 0 && budget-- > 0 )          /* leftovers (DOWN(true) to the last leaves) */
            for( int i = 0; i < N * N; i++ ) if( chan[i].head < chan[i].n ) act_deliver(i / N, i % N);
        observe();
        if( !all_terminated() || ctl_pending() > 0 )
            fprintf(out, "{\"e\":\"stuck\",\"pending_ctl\":%d}\n", ctl_pending());
    }
    fprintf(out, "{\"e\":\"end\"}\n");
    fprintf(meta, "],\"diverged\":%d,\"ctl\":[%s]}\n", diverged, ctlbuf ? ctlbuf : "");
    teardown();
    return diverged;
}

int main(int argc, char **argv)
{
    char *line = NULL; size_t cap = 0; long nexec = 0; int prov;
    FILE *in;
    if( argc < 4 ) return 3;
    MPI_Init_thread(&argc, &argv, MPI_THREAD_MULTIPLE, &prov);
    { int pargc = 1; char *pargv[2] = { argv[0], NULL }; char **pv = pargv;
      real_ctx = parsec_init(1, &pargc, &pv); }
    if( NULL == real_ctx ) return 4;
    in = fopen(argv[1], "r"); out = fopen(argv[2], "w"); meta = fopen(argv[3], "w");
    if( !in || !out || !meta ) return 3;
    { parsec_taskpool_t tmp; memset(&tmp, 0, sizeof(tmp)); shared_id = parsec_taskpool_reserve_id(&tmp); }
    parsec_ce.send_am = stub_send_am;
    while( getline(&line, &cap, in) > 0 ) {
        if( line[0] == '\n' || line[0] == '#' ) continue;
        if( nexec++ ) fprintf(out, "{\"e\":\"Reset\"}\n");
        run_behaviour(line);
        fflush(out); fflush(meta);
    }
    fclose(out); fclose(meta);
    _exit(0);
}
