/* C11 harness: N virtual ranks of the real four-counter termination detector inside one process; the harness plays
 * the ENVIRONMENT of a TLC behaviour of FourCounter.tla (workload changes, application messages, which in-flight
 * control message is delivered next) into the real module functions.
 *
 *   fc_replay <behaviours.txt> <trace.ndjson> <meta.ndjson>                                      (line mode)
 *   fc_replay -g <graph.txt> <trace.ndjson> <meta.ndjson> <seed> <sample per 100000> <max flagged>   (graph mode)
 *
 * behaviours.txt, one behaviour per line:  "N;Ready 2 -1;ActionDone 2 -1;MsgUp 2 0;SendApp 1 2;..."
 *
 * graph.txt = the complete state graph of the bounded FourCounter model (TLC -dump), written by checks/C11.py:
 *     G <N> <nnodes> <nedges> <init>
 *     n <observable state of node i, as text>          (nnodes lines)
 *     e <src> <dst> <op> <a> <b>                       (nedges lines)
 * Graph mode = transition coverage: for EVERY transition (u, a, v) of the graph the harness puts the virtual ranks in
 * the state reached by the shortest path from Init to u (depth-first walk over the breadth-first spanning tree; the
 * state of the virtual ranks at u - the monitors of the module, byte for byte, the counters, the channels - is saved
 * when u is first reached and restored for every transition leaving u, which is the same as re-executing the
 * deterministic prefix), executes a on the real module, compares the observable state of the real ranks (taskpool_state,
 * callbacks, work counters, every control message in every channel with its payload, parked messages) with the
 * observable state of v, then drives the system to quiescence and requires every rank to terminate exactly once.
 * A mismatch does not stop the walk (the transitions below it are still executed when the environment allows them).
 * Executions that are flagged (mismatch, termination callback in a non-quiet system, not terminated at the end) and a
 * seeded sample of the others are written to the trace file for validation by FourCounterTrace.tla.
 *
 * Virtual ranks: N copies of the parsec_context_t (my_rank = r, nb_nodes = N), N taskpools sharing one taskpool_id,
 * parsec_ce.send_am replaced by a recording stub (one FIFO per (src,dst) pair), delivery through the real
 * parsec_termdet_fourcounter_msg_dispatch after registering the receiver's taskpool under the shared id.  The
 * module's delayed-message list is process-wide: the harness keeps one per virtual rank and swaps it in and out.
 *
 * After the behaviour the harness drives the system to quiescence (all ranks ready, all application messages
 * received, all work completed) and then delivers control messages fairly (round robin over the channels) for a
 * bounded number of deliveries: every rank must have declared termination by then (otherwise a "stuck" event).
 *
 * trace.ndjson (validated by FourCounterTrace.tla): cfg / ready / spawn / taskdone / actiondone / sendapp / recvstart /
 * recvend / recvendtask / deliver / term (logged from the termination callback) / end | stuck.  Every environment event
 * is logged BEFORE the module function is called.
 * meta.ndjson, line mode: per behaviour {"obs":[[state of every rank after step i],..],"fin":[..],"diverged":0|1,"ctl":[..]};
 * graph mode: one line per written execution {"edge":e,"path":[edge indices],"mismatch":..,"illegal":..,"badterm":..,
 * "stuck":..,"sampled":..,"real":"...","model":"..."} and a last line {"summary":1,...}.
 */

#include "parsec/parsec_config.h"
#include "parsec/runtime.h"
#include "parsec/parsec_internal.h"
#include "parsec/execution_stream.h"
#include "parsec/parsec_comm_engine.h"
#include "parsec/mca/termdet/termdet.h"
#include "parsec/mca/termdet/fourcounter/termdet_fourcounter.h"
#include "parsec/class/list.h"
#include <mpi.h>
#include <stdio.h>
#include <stdarg.h>
#include <stdlib.h>
#include <string.h>
#include <stdint.h>
#include <malloc.h>

typedef struct { unsigned char b[PARSEC_TERMDET_FOURCOUNTER_MAX_MSG_SIZE]; int size; } cmsg_t;
typedef struct { cmsg_t *q; int head, n, cap; } chan_t;

static parsec_context_t *real_ctx;
static int N;
static parsec_context_t *vctx;
static parsec_taskpool_t *vtp;
static int *cbcount, *tasks, *pa, *flight, *started, *ready;
static chan_t *chan;                    /* chan[src*N+dst] */
static parsec_list_item_t ***dly; static int *ndly;
static uint32_t shared_id;
static int cur_rank = -1;
static FILE *out, *meta;
static int first_obs, first_ctl;
static char *ctlbuf; static size_t ctllen, ctlcap;
static int bad_term;                    /* harness-side oracle: termination callbacks fired in a non-quiet system */

/* ---- event log: straight to the trace file (line mode) or into a buffer that can be truncated (graph mode) ---------------- */
static int ev_buffered;
static char *evb; static size_t evlen, evcap;
static void ev(const char *fmt, ...)
{
    va_list ap;
    if( !ev_buffered ) { va_start(ap, fmt); vfprintf(out, fmt, ap); va_end(ap); return; }
    if( evlen + 128 > evcap ) { evcap = 2 * evcap + 4096; evb = realloc(evb, evcap); }
    va_start(ap, fmt); evlen += vsnprintf(evb + evlen, 128, fmt, ap); va_end(ap);
}

static void ctl_note(const char *fmt, ...)
{
    va_list ap; char tmp[160]; int n;
    if( ev_buffered ) return;
    va_start(ap, fmt); n = vsnprintf(tmp, sizeof(tmp), fmt, ap); va_end(ap);
    if( ctllen + n + 2 > ctlcap ) { ctlcap = 2 * (ctlcap + n + 64); ctlbuf = realloc(ctlbuf, ctlcap); }
    if( !first_ctl ) ctlbuf[ctllen++] = ',';
    first_ctl = 0;
    memcpy(ctlbuf + ctllen, tmp, n); ctllen += n; ctlbuf[ctllen] = 0;
}

static int stub_send_am(parsec_comm_engine_t *ce, parsec_ce_tag_t tag, int remote, void *addr, size_t size)
{
    (void)ce;
    parsec_termdet_fourcounter_msg_up_t *up = (parsec_termdet_fourcounter_msg_up_t*)addr;
    parsec_termdet_fourcounter_msg_down_t *down = (parsec_termdet_fourcounter_msg_down_t*)addr;
    if( up->msg_type == PARSEC_TERMDET_FOURCOUNTER_MSG_TYPE_UP )
        ctl_note("[%d,%d,\"UP\",%u,%u]", cur_rank, remote, up->nb_sent, up->nb_received);
    else
        ctl_note("[%d,%d,\"DOWN\",%u,0]", cur_rank, remote, down->result);
    if( tag != PARSEC_TERMDET_FOURCOUNTER_MSG_TAG || remote < 0 || remote >= N || cur_rank < 0 ||
        size > PARSEC_TERMDET_FOURCOUNTER_MAX_MSG_SIZE ) {
        ev("{\"e\":\"badsend\",\"src\":%d,\"dst\":%d}\n", cur_rank, remote);
        return 1;
    }
    chan_t *c = &chan[cur_rank * N + remote];
    if( c->n == c->cap ) { c->cap = c->cap ? 2 * c->cap : 8; c->q = realloc(c->q, c->cap * sizeof(cmsg_t)); }
    memcpy(c->q[c->n].b, addr, size); c->q[c->n].size = (int)size; c->n++;
    return 1;
}

static int env_quiet(void)
{
    for( int r = 0; r < N; r++ ) if( tasks[r] || pa[r] || flight[r] || started[r] ) return 0;
    return 1;
}

static void term_cb(parsec_taskpool_t *tp)
{
    int r = tp->context->my_rank;
    cbcount[r]++;
    if( !env_quiet() || cbcount[r] > 1 ) bad_term++;
    ev("{\"e\":\"term\",\"r\":%d}\n", r);
}

static void dly_load(int r)
{
    for( int i = 0; i < ndly[r]; i++ )
        parsec_list_nolock_push_back(&parsec_termdet_fourcounter_delayed_messages, dly[r][i]);
    ndly[r] = 0;
}
static void dly_store(int r)
{
    parsec_list_item_t *it;
    while( NULL != (it = parsec_list_nolock_pop_front(&parsec_termdet_fourcounter_delayed_messages)) ) {
        dly[r] = realloc(dly[r], (ndly[r] + 1) * sizeof(parsec_list_item_t*));
        dly[r][ndly[r]++] = it;
    }
}

#define MOD(r) (vtp[r].tdm.module)

static void setup(int n)
{
    N = n;
    vctx = calloc(N, sizeof(parsec_context_t)); vtp = calloc(N, sizeof(parsec_taskpool_t));
    cbcount = calloc(N, sizeof(int)); tasks = calloc(N, sizeof(int)); pa = calloc(N, sizeof(int));
    flight = calloc(N, sizeof(int)); started = calloc(N, sizeof(int)); ready = calloc(N, sizeof(int));
    chan = calloc(N * N, sizeof(chan_t));
    dly = calloc(N, sizeof(*dly)); ndly = calloc(N, sizeof(int));
    bad_term = 0;
    for( int r = 0; r < N; r++ ) {
        memcpy(&vctx[r], real_ctx, sizeof(parsec_context_t));
        vctx[r].my_rank = r; vctx[r].nb_nodes = N;
        PARSEC_OBJ_CONSTRUCT(&vtp[r], parsec_list_item_t);
        vtp[r].context = &vctx[r];
        vtp[r].taskpool_id = shared_id;
        parsec_termdet_open_module(&vtp[r], "fourcounter");
        MOD(r)->monitor_taskpool(&vtp[r], term_cb);
        /* the runtime's start-up pending action (environment contract: ready is called while busy) */
        cur_rank = r;
        MOD(r)->taskpool_addto_runtime_actions(&vtp[r], 1); pa[r] = 1;
        cur_rank = -1;
    }
}

static void teardown(void)
{
    for( int r = 0; r < N; r++ ) {
        for( int i = 0; i < ndly[r]; i++ ) free(dly[r][i]);
        free(dly[r]); free(vtp[r].tdm.monitor);
        for( int q = 0; q < N; q++ ) free(chan[r * N + q].q);
    }
    free(dly); free(ndly); free(vctx); free(vtp); free(cbcount); free(tasks); free(pa); free(flight); free(started);
    free(ready); free(chan);
}

static void observe(void)
{
    fprintf(meta, "%s[", first_obs ? "" : ",");
    first_obs = 0;
    for( int r = 0; r < N; r++ ) fprintf(meta, "%s%d", r ? "," : "", (int)MOD(r)->taskpool_state(&vtp[r]));
    for( int r = 0; r < N; r++ ) fprintf(meta, ",%d", cbcount[r]);
    fprintf(meta, "]");
}

/* ---- environment actions: log first, then call the real module --------------------------------------------------------- */
static void act_ready(int r)
{
    ev("{\"e\":\"ready\",\"r\":%d}\n", r);
    cur_rank = r; ready[r] = 1;
    parsec_taskpool_register(&vtp[r]);
    dly_load(r);
    MOD(r)->taskpool_ready(&vtp[r]);
    dly_store(r);
    cur_rank = -1;
}
static void act_spawn(int r)
{
    ev("{\"e\":\"spawn\",\"r\":%d}\n", r);
    cur_rank = r; tasks[r]++;
    MOD(r)->taskpool_addto_nb_tasks(&vtp[r], 1);
    cur_rank = -1;
}
static void act_taskdone(int r)
{
    ev("{\"e\":\"taskdone\",\"r\":%d}\n", r);
    cur_rank = r; tasks[r]--;
    MOD(r)->taskpool_addto_nb_tasks(&vtp[r], -1);
    cur_rank = -1;
}
static void act_actiondone(int r)
{
    ev("{\"e\":\"actiondone\",\"r\":%d}\n", r);
    cur_rank = r; pa[r]--;
    MOD(r)->taskpool_addto_runtime_actions(&vtp[r], -1);
    cur_rank = -1;
}
static void act_sendapp(int r, int q)
{
    ev("{\"e\":\"sendapp\",\"r\":%d,\"q\":%d}\n", r, q);
    cur_rank = r;
    flight[q]++;
    MOD(r)->outgoing_message_start(&vtp[r], q, NULL);
    cur_rank = -1;
}
static void act_recvstart(int q)
{
    int src = (q + 1) % N;             /* (the detector ignores the source of an application message) */
    ev("{\"e\":\"recvstart\",\"q\":%d}\n", q);
    cur_rank = q; flight[q]--; started[q]++;
    MOD(q)->incoming_message_start(&vtp[q], src, NULL, NULL, 0, NULL);
    cur_rank = -1;
}
static void act_recvend(int q)
{
    ev("{\"e\":\"recvend\",\"q\":%d}\n", q);
    cur_rank = q; started[q]--; pa[q]++;
    MOD(q)->taskpool_addto_runtime_actions(&vtp[q], 1);      /* remote_dep_inc_flying_messages */
    MOD(q)->incoming_message_end(&vtp[q], NULL);
    cur_rank = -1;
}
static void act_recvendtask(int q)
{
    ev("{\"e\":\"recvendtask\",\"q\":%d}\n", q);
    cur_rank = q; started[q]--; tasks[q]++;
    MOD(q)->taskpool_addto_nb_tasks(&vtp[q], 1);             /* release_deps counts the task the message released */
    MOD(q)->incoming_message_end(&vtp[q], NULL);
    cur_rank = -1;
}
/* deliver the head of the control channel p -> q; returns the message type (0 DOWN, 1 UP) or -1 */
static int act_deliver(int p, int q)
{
    chan_t *c = &chan[p * N + q];
    if( c->head >= c->n ) return -1;
    cmsg_t m = c->q[c->head++];
    int type = (int)((parsec_termdet_fourcounter_msg_up_t*)m.b)->msg_type;
    ev("{\"e\":\"deliver\",\"p\":%d,\"q\":%d}\n", p, q);
    cur_rank = q;
    parsec_taskpool_register(&vtp[q]);
    dly_load(q);
    parsec_termdet_fourcounter_msg_dispatch(&parsec_ce, PARSEC_TERMDET_FOURCOUNTER_MSG_TAG, m.b, m.size, p, NULL);
    dly_store(q);
    cur_rank = -1;
    return type;
}
static int head_type(int p, int q)
{
    chan_t *c = &chan[p * N + q];
    if( p < 0 || q < 0 || p >= N || q >= N || c->head >= c->n ) return -1;
    return (int)((parsec_termdet_fourcounter_msg_up_t*)c->q[c->head].b)->msg_type;
}

enum { OP_READY, OP_SPAWN, OP_TASKDONE, OP_ACTIONDONE, OP_SENDAPP, OP_RECVSTART, OP_RECVEND, OP_RECVENDTASK, OP_MSGUP,
       OP_MSGDOWN, OP_MSGDELAY, OP_NB };
static const char *op_names[OP_NB] = { "Ready", "Spawn", "TaskDone", "ActionDone", "SendApp", "RecvStart", "RecvEnd",
                                       "RecvEndTask", "MsgUp", "MsgDown", "MsgDelay" };
static int op_code(const char *s)
{
    for( int i = 0; i < OP_NB; i++ ) if( !strcmp(s, op_names[i]) ) return i;
    return -1;
}
/* one environment action of the model; returns 0 when it is not legal in the REAL environment state (the model said it
 * is enabled: only possible after the real module and the model disagreed) */
static int step(int op, int a, int b)
{
    if( a < 0 || a >= N ) return 0;
    switch( op ) {
    case OP_READY:       if( ready[a] ) return 0; act_ready(a); return 1;
    case OP_SPAWN:       if( !ready[a] || (tasks[a] + pa[a] <= 0 && started[a] <= 0) ) return 0; act_spawn(a); return 1;
    case OP_TASKDONE:    if( !ready[a] || tasks[a] <= 0 ) return 0; act_taskdone(a); return 1;
    case OP_ACTIONDONE:  if( !ready[a] || pa[a] <= 0 ) return 0; act_actiondone(a); return 1;
    case OP_SENDAPP:     if( !ready[a] || tasks[a] <= 0 || b < 0 || b >= N ) return 0; act_sendapp(a, b); return 1;
    case OP_RECVSTART:   if( !ready[a] || flight[a] <= 0 ) return 0; act_recvstart(a); return 1;
    case OP_RECVEND:     if( started[a] <= 0 ) return 0; act_recvend(a); return 1;
    case OP_RECVENDTASK: if( started[a] <= 0 ) return 0; act_recvendtask(a); return 1;
    case OP_MSGUP:       if( b < 0 || b >= N || !ready[b] || 1 != head_type(a, b) ) return 0; act_deliver(a, b); return 1;
    case OP_MSGDOWN:     if( b < 0 || b >= N || !ready[b] || 0 != head_type(a, b) ) return 0; act_deliver(a, b); return 1;
    case OP_MSGDELAY:    if( b < 0 || b >= N || ready[b] || head_type(a, b) < 0 ) return 0; act_deliver(a, b); return 1;
    }
    return 0;
}

static int all_terminated(void)
{
    for( int r = 0; r < N; r++ ) if( PARSEC_TERM_TP_TERMINATED != MOD(r)->taskpool_state(&vtp[r]) ) return 0;
    return 1;
}
static int ctl_pending(void)
{
    int s = 0;
    for( int i = 0; i < N * N; i++ ) s += chan[i].n - chan[i].head;
    return s;
}

/* drive to quiescence, then fair bounded delivery of the control messages; returns 1 when some rank is left unterminated */
static int drive(int line_mode)
{
    int stuck = 0;
    for( int r = 0; r < N; r++ ) if( !ready[r] ) act_ready(r);
    for( int again = 1; again; ) {
        again = 0;
        for( int q = 0; q < N; q++ ) {
            while( flight[q] > 0 ) { act_recvstart(q); again = 1; }
            while( started[q] > 0 ) { act_recvend(q); again = 1; }
            while( tasks[q] > 0 ) { act_taskdone(q); again = 1; }
            while( pa[q] > 0 ) { act_actiondone(q); again = 1; }
        }
    }
    if( line_mode ) observe();
    {
        int budget = 40 * N * 2 + 40, progress = 1;
        while( !all_terminated() && budget > 0 && progress ) {
            progress = 0;
            for( int i = 0; i < N * N && budget > 0; i++ ) {
                if( chan[i].head < chan[i].n ) { act_deliver(i / N, i % N); budget--; progress = 1; }
            }
        }
        while( ctl_pending() > 0 && budget-- > 0 )          /* leftovers (DOWN(true) to the last leaves) */
            for( int i = 0; i < N * N; i++ ) if( chan[i].head < chan[i].n ) act_deliver(i / N, i % N);
        if( line_mode ) observe();
        if( !all_terminated() || ctl_pending() > 0 ) {
            ev("{\"e\":\"stuck\",\"pending_ctl\":%d}\n", ctl_pending());
            stuck = 1;
        }
    }
    ev("{\"e\":\"end\"}\n");
    for( int r = 0; r < N; r++ ) if( cbcount[r] != 1 ) stuck = 1;
    return stuck;
}

static int run_behaviour(char *line)
{
    char *save = NULL, *tok = strtok_r(line, ";\n", &save);
    int n = tok ? atoi(tok) : 0, diverged = 0;
    if( n < 1 || n > 64 ) return -1;
    setup(n);
    first_obs = 1; first_ctl = 1; ctllen = 0; if( ctlbuf ) ctlbuf[0] = 0;
    ev("{\"e\":\"cfg\",\"n\":%d}\n", n);
    fprintf(meta, "{\"obs\":[");
    for( tok = strtok_r(NULL, ";\n", &save); tok && !diverged; tok = strtok_r(NULL, ";\n", &save) ) {
        char op[24]; int a = -1, b = -1;
        if( sscanf(tok, "%23s %d %d", op, &a, &b) < 2 ) continue;
        /* legality in the real environment state (the model said the action is enabled) */
        if( !step(op_code(op), a, b) ) diverged = 1;
        observe();
    }
    fprintf(meta, "],\"fin\":[");
    first_obs = 1;
    int stuck = drive(1);
    fprintf(meta, "],\"diverged\":%d,\"badterm\":%d,\"stuck\":%d,\"ctl\":[%s]}\n", diverged, bad_term, stuck, ctlbuf ? ctlbuf : "");
    teardown();
    return diverged;
}

/* ==== graph mode ================================================================================================================ */
#define MAXN 8
typedef struct { int src, dst, op, a, b; } gedge_t;
typedef struct {
    unsigned char *mon[MAXN]; int32_t nbt[MAXN], nbp[MAXN];
    int cb[MAXN], tasks[MAXN], pa[MAXN], flight[MAXN], started[MAXN], ready[MAXN], ndly[MAXN];
    parsec_list_item_t **dly[MAXN]; int dlycap[MAXN];
    int chead[MAXN * MAXN], cn[MAXN * MAXN];
    size_t evlen; int bad_term;
} snap_t;
static size_t monsz[MAXN];
static int g_nn, g_ne, g_init;
static char **g_obs; static gedge_t *g_e; static int *g_first, *g_parent_edge;      /* CSR adjacency: edges sorted by src */
static snap_t *snaps; static int nsnaps;
static long st_edges, st_mismatch, st_illegal, st_badexec, st_emitted, st_steps, st_nodes, st_capped;
static uint64_t g_seed; static long g_sample, g_maxflag; static long n_flag_bad, n_flag_mis;
static int *pathstk; static int pathlen;
static int first_exec = 1;

static void snap_take(snap_t *s)
{
    for( int r = 0; r < N; r++ ) {
        if( NULL == s->mon[r] ) s->mon[r] = malloc(monsz[r]);
        memcpy(s->mon[r], vtp[r].tdm.monitor, monsz[r]);
        s->nbt[r] = vtp[r].nb_tasks; s->nbp[r] = vtp[r].nb_pending_actions;
        s->cb[r] = cbcount[r]; s->tasks[r] = tasks[r]; s->pa[r] = pa[r]; s->flight[r] = flight[r];
        s->started[r] = started[r]; s->ready[r] = ready[r]; s->ndly[r] = ndly[r];
        if( ndly[r] > s->dlycap[r] ) { s->dlycap[r] = ndly[r] + 4; s->dly[r] = realloc(s->dly[r], s->dlycap[r] * sizeof(void*)); }
        if( ndly[r] ) memcpy(s->dly[r], dly[r], ndly[r] * sizeof(void*));
    }
    for( int i = 0; i < N * N; i++ ) { s->chead[i] = chan[i].head; s->cn[i] = chan[i].n; }
    s->evlen = evlen; s->bad_term = bad_term;
}
static void snap_restore(const snap_t *s)
{
    for( int r = 0; r < N; r++ ) {
        memcpy(vtp[r].tdm.monitor, s->mon[r], monsz[r]);
        vtp[r].nb_tasks = s->nbt[r]; vtp[r].nb_pending_actions = s->nbp[r];
        cbcount[r] = s->cb[r]; tasks[r] = s->tasks[r]; pa[r] = s->pa[r]; flight[r] = s->flight[r];
        started[r] = s->started[r]; ready[r] = s->ready[r];
        if( s->ndly[r] ) { dly[r] = realloc(dly[r], s->ndly[r] * sizeof(void*)); memcpy(dly[r], s->dly[r], s->ndly[r] * sizeof(void*)); }
        ndly[r] = s->ndly[r];        /* (items parked or consumed in the abandoned branch are not freed by the module: still valid) */
    }
    for( int i = 0; i < N * N; i++ ) { chan[i].head = s->chead[i]; chan[i].n = s->cn[i]; }
    evlen = s->evlen; bad_term = s->bad_term;
}

/* the observable state of the real virtual ranks, in the text format of checks/C11.py (obs_of_label) */
static char *real_obs(char *buf, size_t cap)
{
    size_t k = 0;
#define PUT(...) do { if( k + 48 < cap ) k += snprintf(buf + k, cap - k, __VA_ARGS__); } while(0)
    for( int r = 0; r < N; r++ ) PUT("%s%d", r ? "," : "", (int)MOD(r)->taskpool_state(&vtp[r]));
    PUT("|"); for( int r = 0; r < N; r++ ) PUT("%s%d", r ? "," : "", cbcount[r]);
    PUT("|"); for( int r = 0; r < N; r++ ) PUT("%s%d", r ? "," : "", (int)vtp[r].nb_tasks);
    PUT("|"); for( int r = 0; r < N; r++ ) PUT("%s%d", r ? "," : "", (int)vtp[r].nb_pending_actions);
    PUT("|"); for( int r = 0; r < N; r++ ) PUT("%s%d", r ? "," : "", flight[r]);
    PUT("|"); for( int r = 0; r < N; r++ ) PUT("%s%d", r ? "," : "", started[r]);
    PUT("|"); for( int r = 0; r < N; r++ ) PUT("%s%d", r ? "," : "", ndly[r]);
    PUT("|");
    for( int i = 0; i < N * N; i++ ) {
        chan_t *c = &chan[i];
        if( c->head >= c->n ) continue;
        PUT("%d>%d:", i / N, i % N);
        for( int j = c->head; j < c->n && k + 64 < cap; j++ ) {
            parsec_termdet_fourcounter_msg_up_t *up = (parsec_termdet_fourcounter_msg_up_t*)c->q[j].b;
            parsec_termdet_fourcounter_msg_down_t *down = (parsec_termdet_fourcounter_msg_down_t*)c->q[j].b;
            if( up->msg_type == PARSEC_TERMDET_FOURCOUNTER_MSG_TYPE_UP ) PUT("%sU%u.%u", j > c->head ? "," : "", up->nb_sent, up->nb_received);
            else PUT("%sD%u", j > c->head ? "," : "", down->result ? 1u : 0u);
        }
        PUT(";");
    }
#undef PUT
    return buf;
}

static uint64_t mix(uint64_t x)
{
    x += 0x9e3779b97f4a7c15ULL; x = (x ^ (x >> 30)) * 0xbf58476d1ce4e5b9ULL; x = (x ^ (x >> 27)) * 0x94d049bb133111ebULL;
    return x ^ (x >> 31);
}

static void emit_exec(int e, int mismatch, int illegal, int badterm, int stuck, int sampled, const char *robs)
{
    if( !first_exec ) fputs("{\"e\":\"Reset\"}\n", out);
    first_exec = 0;
    fwrite(evb, 1, evlen, out);
    fprintf(meta, "{\"edge\":%d,\"path\":[", e);
    for( int i = 0; i < pathlen; i++ ) fprintf(meta, "%s%d", i ? "," : "", pathstk[i]);
    fprintf(meta, "],\"mismatch\":%d,\"illegal\":%d,\"badterm\":%d,\"stuck\":%d,\"sampled\":%d", mismatch, illegal, badterm, stuck, sampled);
    if( mismatch ) fprintf(meta, ",\"real\":\"%s\",\"model\":\"%s\"", robs, g_obs[g_e[e].dst]);
    fprintf(meta, "}\n");
    st_emitted++;
}

static void visit(int u, int depth)
{
    char robs[4096];
    snap_t *su = &snaps[depth];
    st_nodes++;
    snap_take(su);
    for( int e = g_first[u]; e < g_first[u + 1]; e++ ) {
        gedge_t *ge = &g_e[e];
        int tree = (g_parent_edge[ge->dst] == e), mismatch = 0, illegal = 0, stuck, bt, sampled, flagged;
        snap_restore(su);
        st_edges++;
        pathstk[pathlen++] = e;
        if( !step(ge->op, ge->a, ge->b) ) {
            illegal = 1; st_illegal++;               /* the subtree below a tree edge is then not reachable on the real ranks */
        } else {
            st_steps++;
            real_obs(robs, sizeof(robs));
            if( strcmp(robs, g_obs[ge->dst]) ) { mismatch = 1; st_mismatch++; }
            if( tree ) snap_take(&snaps[depth + 1]);
        }
        stuck = drive(0);
        bt = bad_term;
        if( stuck || bt ) st_badexec++;
        flagged = (mismatch || illegal || stuck || bt);
        sampled = (long)(mix(g_seed * 0x100000001b3ULL + (uint64_t)e) % 100000ULL) < g_sample;
        if( flagged ) {
            long *cnt = (stuck || bt) ? &n_flag_bad : &n_flag_mis;
            if( *cnt < g_maxflag ) { (*cnt)++; emit_exec(e, mismatch, illegal, bt, stuck, sampled, robs); }
            else st_capped++;
        } else if( sampled ) emit_exec(e, 0, 0, 0, 0, 1, robs);
        if( tree && !illegal ) {
            snap_restore(&snaps[depth + 1]);
            visit(ge->dst, depth + 1);
        }
        pathlen--;
    }
}

static int cmp_edge(const void *x, const void *y)
{
    const gedge_t *a = x, *b = y;
    return a->src != b->src ? (a->src < b->src ? -1 : 1) : 0;
}

static int run_graph(const char *path)
{
    FILE *in = fopen(path, "r");
    char *line = NULL; size_t cap = 0; int n, ni = 0, ei = 0;
    if( !in || getline(&line, &cap, in) <= 0 || 4 != sscanf(line, "G %d %d %d %d", &n, &g_nn, &g_ne, &g_init) ) return 3;
    if( n < 1 || n > MAXN || g_nn < 1 || g_init < 0 || g_init >= g_nn ) return 3;
    g_obs = calloc(g_nn, sizeof(char*)); g_e = calloc(g_ne + 1, sizeof(gedge_t));
    while( getline(&line, &cap, in) > 0 ) {
        size_t l = strlen(line);
        while( l && (line[l-1] == '\n' || line[l-1] == '\r') ) line[--l] = 0;
        if( line[0] == 'n' && line[1] == ' ' ) { if( ni >= g_nn ) return 3; g_obs[ni++] = strdup(line + 2); }
        else if( line[0] == 'e' && line[1] == ' ' ) {
            gedge_t *ge = &g_e[ei];
            if( ei >= g_ne || 5 != sscanf(line + 2, "%d %d %d %d %d", &ge->src, &ge->dst, &ge->op, &ge->a, &ge->b) ) return 3;
            if( ge->src < 0 || ge->src >= g_nn || ge->dst < 0 || ge->dst >= g_nn || ge->op < 0 || ge->op >= OP_NB ) return 3;
            ei++;
        }
    }
    fclose(in);
    if( ni != g_nn || ei != g_ne ) return 3;
    /* adjacency (stable order of the file inside one source), breadth-first spanning tree */
    { gedge_t *tmp = malloc((g_ne + 1) * sizeof(gedge_t)); int *cnt = calloc(g_nn + 2, sizeof(int));
      for( int e = 0; e < g_ne; e++ ) cnt[g_e[e].src + 1]++;
      for( int u = 0; u < g_nn; u++ ) cnt[u + 1] += cnt[u];
      g_first = malloc((g_nn + 1) * sizeof(int)); memcpy(g_first, cnt, (g_nn + 1) * sizeof(int));
      for( int e = 0; e < g_ne; e++ ) tmp[cnt[g_e[e].src]++] = g_e[e];
      free(g_e); g_e = tmp; free(cnt); (void)cmp_edge; }
    g_parent_edge = malloc(g_nn * sizeof(int));
    { int *queue = malloc(g_nn * sizeof(int)), *dist = malloc(g_nn * sizeof(int)), qh = 0, qt = 0, maxd = 0;
      for( int u = 0; u < g_nn; u++ ) { g_parent_edge[u] = -1; dist[u] = -1; }
      queue[qt++] = g_init; dist[g_init] = 0; g_parent_edge[g_init] = -2;
      while( qh < qt ) {
          int u = queue[qh++];
          for( int e = g_first[u]; e < g_first[u + 1]; e++ ) {
              int v = g_e[e].dst;
              if( dist[v] < 0 ) { dist[v] = dist[u] + 1; g_parent_edge[v] = e; queue[qt++] = v; if( dist[v] > maxd ) maxd = dist[v]; }
          }
      }
      nsnaps = maxd + 3; snaps = calloc(nsnaps, sizeof(snap_t)); pathstk = malloc((maxd + 3) * sizeof(int));
      free(queue); free(dist); }
    ev_buffered = 1; evlen = 0;
    setup(n);
    for( int r = 0; r < N; r++ ) monsz[r] = malloc_usable_size(vtp[r].tdm.monitor);
    ev("{\"e\":\"cfg\",\"n\":%d}\n", n);
    { char robs[4096];
      if( strcmp(real_obs(robs, sizeof(robs)), g_obs[g_init]) ) {
          fprintf(meta, "{\"edge\":-1,\"path\":[],\"mismatch\":1,\"illegal\":0,\"badterm\":0,\"stuck\":0,\"sampled\":0,\"real\":\"%s\",\"model\":\"%s\"}\n",
                  robs, g_obs[g_init]);
          st_mismatch++;
      } }
    visit(g_init, 0);
    fprintf(meta, "{\"summary\":1,\"n\":%d,\"nodes\":%d,\"edges\":%d,\"visited_nodes\":%ld,\"executed_edges\":%ld,\"steps\":%ld,"
                  "\"mismatch\":%ld,\"illegal\":%ld,\"badexec\":%ld,\"emitted\":%ld,\"capped\":%ld}\n",
            N, g_nn, g_ne, st_nodes, st_edges, st_steps, st_mismatch, st_illegal, st_badexec, st_emitted, st_capped);
    return 0;
}

int main(int argc, char **argv)
{
    char *line = NULL; size_t cap = 0; long nexec = 0; int prov, graph = (argc > 1 && !strcmp(argv[1], "-g")), rc = 0;
    FILE *in = NULL;
    if( argc < (graph ? 8 : 4) ) return 3;
    MPI_Init_thread(&argc, &argv, MPI_THREAD_MULTIPLE, &prov);
    { int pargc = 1; char *pargv[2] = { argv[0], NULL }; char **pv = pargv;
      real_ctx = parsec_init(1, &pargc, &pv); }
    if( NULL == real_ctx ) return 4;
    if( !graph ) in = fopen(argv[1], "r");
    out = fopen(argv[2 + graph], "w"); meta = fopen(argv[3 + graph], "w");
    if( (!graph && !in) || !out || !meta ) return 3;
    { parsec_taskpool_t tmp; memset(&tmp, 0, sizeof(tmp)); shared_id = parsec_taskpool_reserve_id(&tmp); }
    parsec_ce.send_am = stub_send_am;
    if( graph ) {
        g_seed = strtoull(argv[5], NULL, 10); g_sample = atol(argv[6]); g_maxflag = atol(argv[7]);
        rc = run_graph(argv[2]);
    } else {
        while( getline(&line, &cap, in) > 0 ) {
            if( line[0] == '\n' || line[0] == '#' ) continue;
            if( nexec++ ) fprintf(out, "{\"e\":\"Reset\"}\n");
            run_behaviour(line);
            fflush(out); fflush(meta);
        }
    }
    fclose(out); fclose(meta);
    _exit(rc);
}
