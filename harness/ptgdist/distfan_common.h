#ifndef DISTFAN_COMMON_H
#define DISTFAN_COMMON_H
#include <stdint.h>
#include <stdio.h>
#define DF_MOD 1000003L
/* deterministic body functions, mirrored in spec/PTGDist/DistFan.tla */
static inline long df_F(long x, long j, long k) { return (x * 31 + j * 7 + k * 13 + 5) % DF_MOD; }
static inline long df_G(long z, long u, long v, long m) { return (z * 17 + u * 3 + v * 5 + m * 11 + 1) % DF_MOD; }
/* a tile is TS int32: element i holds value + i (so truncated / shifted payloads are detected); returns -1 if not intact */
static inline long df_tile_get(const void *p, int ts)
{
    const int32_t *a = (const int32_t*)p; int i;
    for( i = 1; i < ts; i++ ) if( a[i] != a[0] + i ) return -1;
    return a[0];
}
static inline void df_tile_set(void *p, int ts, long v)
{
    int32_t *a = (int32_t*)p; int i;
    for( i = 0; i < ts; i++ ) a[i] = (int32_t)v + i;
}
void df_start(const char *cls, int k, long a, long b, long c, long d);
void df_end(const char *cls, int k, long out);
#endif
