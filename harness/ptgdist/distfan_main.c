/* driver of the distfan family:  distfan NP W1 NQ W2 S TS PMUL POFF <trace-prefix> [cores]
 * writes <trace-prefix>.<rank> (ndjson).  Collection A has NA = NP+NQ+2*NC elements, NC = NP*W1,
 * element i lives on rank (i*PMUL + POFF) % nodes and initially holds 1000 + i; the last NP elements feed P's second flow. */
#include "parsec/runtime.h"
#include "parsec/data_distribution.h"
#include "parsec/data_internal.h"
#include "parsec/arena.h"
#include "parsec/utils/debug.h"
#include <mpi.h>
#include <stdarg.h>
#include <stdlib.h>
#include <string.h>
#include "vtrace.h"
#include "distfan_common.h"
#include "distfan.h"

static int myrank, nodes;

void df_start(const char *cls, int k, long a, long b, long c, long d)
{ vt_ev("\"e\":\"Start\",\"p\":%d,\"c\":\"%s\",\"k\":%d,\"in\":[%ld,%ld,%ld,%ld]", myrank, cls, k, a, b, c, d); }
void df_end(const char *cls, int k, long out)
{ vt_ev("\"e\":\"End\",\"p\":%d,\"c\":\"%s\",\"k\":%d,\"out\":%ld", myrank, cls, k, out); }

typedef struct {
    parsec_data_collection_t super;
    parsec_data_t **data;
    int na, ts, pmul, poff;
    int32_t *ptr;
} coll_t;

static int arg_k(va_list ap) { return va_arg(ap, int); }
static uint32_t rank_of_k(coll_t *c, int k) { return (uint32_t)(((long)k * c->pmul + c->poff) % c->super.nodes); }
static uint32_t rank_of(parsec_data_collection_t *d, ...)
{ va_list ap; int k; va_start(ap, d); k = arg_k(ap); va_end(ap); return rank_of_k((coll_t*)d, k); }
static int32_t vpid_of(parsec_data_collection_t *d, ...) { (void)d; return 0; }
static parsec_data_key_t data_key(parsec_data_collection_t *d, ...)
{ va_list ap; int k; va_start(ap, d); k = arg_k(ap); va_end(ap); return (parsec_data_key_t)k; }
static parsec_data_t *data_of(parsec_data_collection_t *d, ...)
{
    coll_t *c = (coll_t*)d; va_list ap; int k;
    va_start(ap, d); k = arg_k(ap); va_end(ap);
    return parsec_data_create(&c->data[k], d, k, &c->ptr[(size_t)k * c->ts], c->ts * sizeof(int32_t), 0);
}
static uint32_t rank_of_key(parsec_data_collection_t *d, parsec_data_key_t key) { return rank_of_k((coll_t*)d, (int)key); }
static int32_t vpid_of_key(parsec_data_collection_t *d, parsec_data_key_t key) { (void)d; (void)key; return 0; }
static parsec_data_t *data_of_key(parsec_data_collection_t *d, parsec_data_key_t key)
{
    coll_t *c = (coll_t*)d; int k = (int)key;
    return parsec_data_create(&c->data[k], d, k, &c->ptr[(size_t)k * c->ts], c->ts * sizeof(int32_t), 0);
}

int main(int argc, char **argv)
{
    int provided, NP, W1, NQ, W2, S, TS, NC, NA, X2B, i, cores = 2, rc;
    parsec_context_t *ctx;
    coll_t *c;
    parsec_distfan_taskpool_t *tp;
    parsec_datatype_t block;
    ptrdiff_t lb, extent;
    char path[512];
    if( argc < 10 ) { fprintf(stderr, "usage\n"); return 3; }
    MPI_Init_thread(&argc, &argv, MPI_THREAD_MULTIPLE, &provided);
    MPI_Comm_size(MPI_COMM_WORLD, &nodes);
    MPI_Comm_rank(MPI_COMM_WORLD, &myrank);
    NP = atoi(argv[1]); W1 = atoi(argv[2]); NQ = atoi(argv[3]); W2 = atoi(argv[4]); S = atoi(argv[5]); TS = atoi(argv[6]);
    NC = NP * W1;
    if( argc > 10 ) cores = atoi(argv[10]);
    /* the elements of P's second flow start at a multiple of the process count, so that element X2B+k lives where A(k) lives */
    X2B = ((NP + NQ + 2 * NC + nodes - 1) / nodes) * nodes; NA = X2B + NP;
    snprintf(path, sizeof(path), "%s.%d", argv[9], myrank);
    vt_init(1 << 16);
    if( vt_open(path) ) return 3;
    ctx = parsec_init(cores, &argc, &argv);
    if( NULL == ctx ) return 4;

    c = (coll_t*)calloc(1, sizeof(coll_t));
    parsec_data_collection_init(&c->super, nodes, myrank);
    c->super.rank_of = rank_of; c->super.data_of = data_of; c->super.vpid_of = vpid_of; c->super.data_key = data_key;
    c->super.rank_of_key = rank_of_key; c->super.data_of_key = data_of_key; c->super.vpid_of_key = vpid_of_key;
    c->na = NA; c->ts = TS; c->pmul = atoi(argv[7]); c->poff = atoi(argv[8]);
    c->data = (parsec_data_t**)calloc(NA, sizeof(parsec_data_t*));
    c->ptr = (int32_t*)malloc((size_t)NA * TS * sizeof(int32_t));
    for( i = 0; i < NA; i++ ) df_tile_set(&c->ptr[(size_t)i * TS], TS, 1000 + i);
    parsec_data_collection_set_key(&c->super, "A");
    parsec_type_create_contiguous(TS, parsec_datatype_int32_t, &c->super.default_dtt);

    tp = parsec_distfan_new(&c->super, NP, W1, NQ, W2, S, NC, TS, X2B);
    parsec_type_create_contiguous(TS, parsec_datatype_int32_t, &block);
    parsec_type_extent(block, &lb, &extent);
    parsec_arena_datatype_set_type(&tp->arenas_datatypes[PARSEC_distfan_DEFAULT_ADT_IDX], extent, PARSEC_ARENA_ALIGNMENT_SSE, block);

    rc = parsec_context_add_taskpool(ctx, &tp->super);
    if( rc != 0 ) return 5;
    parsec_context_start(ctx);
    parsec_context_wait(ctx);

    /* final contents of the local elements that have a declared write-back */
    for( i = 0; i < NA; i++ ) {
        if( (int)rank_of_k(c, i) != myrank ) continue;
        if( (i >= NP + NQ + NC && i < NP + NQ + 2 * NC - 1) || (i >= NP + NQ + 2 * NC && i < X2B) ) continue;      /* pipeline scratch elements: no write-back declared */
        vt_ev("\"e\":\"Final\",\"p\":%d,\"i\":%d,\"v\":%ld", myrank, i, df_tile_get(&c->ptr[(size_t)i * TS], TS));
    }
    vt_ev("\"e\":\"Done\",\"p\":%d", myrank);
    vt_dump();
    vt_close();
    parsec_taskpool_free(&tp->super);
    parsec_fini(&ctx);
    MPI_Finalize();
    return 0;
}
