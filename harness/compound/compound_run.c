/* C15: compositions (parsec_compose) of tiny and EMPTY taskpools, enqueued before parsec_context_start or into an
 * already running context, with an optional "preempted enabler" noise mode.
 *
 *   compound_run runs=<file> out=<trace.ndjson> cores=<n> [window_ms=<no-progress window>]
 *
 * Every line of the runs file is one composition, executed as one scheduling epoch of the same parsec context:
 *   id=<k> members=<M>,<M>,...  late=<0|1|2>  delay=<bit mask>  dmode=<1|2>  wait_us=<n>  nz=<percent>
 * members: T<mt>x<nt>  a map-operator taskpool (parsec_map_operator_New) over a matrix of mt x nt local tiles: one task
 *                      per tile, every task logs Start / End with (member, m, n)
 *          E           a map-operator taskpool over a matrix WITHOUT local tile: nothing to do on this process, it
 *                      terminates inside parsec_context_add_taskpool() (taskpool_ready() finds no pending action)
 *          Z           a one-task map-operator taskpool whose task logs nothing: a member without observable task that
 *                      terminates asynchronously (like a PTG taskpool with an empty execution space)
 *          a composition of one member is the taskpool itself (parsec_compose(NULL, tp))
 * late:    0 = parsec_context_add_taskpool(compound); parsec_context_start(); parsec_context_wait()
 *          1 = parsec_context_start(); parsec_context_add_taskpool(compound); parsec_context_wait()
 *          2 = like 1, but a one-task taskpool is enqueued before the start and cannot complete before the start has
 *              returned: the workers are certainly inside their scheduling loop when the compound is enqueued
 * delay:   bit i set = the thread that enables member i (the compound startup for member 0, the completion callback of
 *          member i-1 otherwise) is held back right after the tasks of member i were handed to the scheduler, until
 *          the termination of member i was detected on another thread or wait_us elapsed (only when the context is running):
 *          dmode 1 = at the end of the member's startup hook, dmode 2 = at the first atomic operation (yield point of
 *          the PARSEC_VERIF build, parsec_verif_point_fn) the enabling thread executes after that hook returned.
 * nz:      percentage of the atomic operations (all threads, during the composition) delayed by 20-200 us.
 * None of this changes what the property demands: it only steers the interleaving.
 *
 * Events (ndjson, "r" = id of the composition): Layout (sizes of the members as [mt, nt], [0, 0] for E and Z), Run,
 * Start / End (sp = member, c = 0, p = [m, n]), TpDone (n-th call of the completion callback of the object returned by
 * parsec_compose), Final.  A watchdog turns "no event and no completion for window_ms" into a Timeout event and ends
 * the process (exit code 6): the caller restarts after the composition that hangs.
 */
#define VT_LINE 512
#include "vtrace.h"
#include "parsec.h"
#include "parsec/parsec_internal.h"
#include "parsec/execution_stream.h"
#include "parsec/mca/termdet/termdet.h"
#include "parsec/data_dist/matrix/matrix.h"
#include "parsec/data_dist/matrix/two_dim_rectangle_cyclic.h"
#include "parsec/sys/verif_hooks.h"
#include <mpi.h>
#include <pthread.h>
#include <signal.h>
#include <time.h>

#define MAXM   16
#define MAXDIM 3
#define TILE   4

typedef struct {
    int idx, run, mt, nt, silent, empty;
    parsec_taskpool_t *tp;
} member_t;

typedef struct {
    int id, n, late, delay, dmode, wait_us, nz;
    char kinds[MAXM][8];
} runspec_t;

static member_t mem[MAXM + 1];               /* mem[MAXM] = the "pre" taskpool of late=2 */
static int nmem = 0;
static runspec_t cur;
static volatile int in_run = 0, context_running = 0, done_count = 0, start_returned = 0;
static volatile long progress = 0;
static long window_ms = 3000;
static int ncores = 2;
static parsec_startup_fn_t map_startup = NULL;
static parsec_matrix_block_cyclic_t dcT[MAXDIM + 1][MAXDIM + 1], dcE;
static int dcT_ready[MAXDIM + 1][MAXDIM + 1];
static __thread int pending_wait = 0;        /* dmode 2: member + 1 the next yield point of this thread waits for */
static unsigned noise_state = 12345u;
static long n_waits = 0, n_waits_ok = 0, n_noise = 0;

static long now_us(void)
{
    struct timespec t;
    clock_gettime(CLOCK_MONOTONIC, &t);
    return t.tv_sec * 1000000L + t.tv_nsec / 1000L;
}

static void spin_us(long us)
{
    long t0 = now_us();
    while( now_us() - t0 < us ) { }
}

static parsec_matrix_block_cyclic_t *matrix_of(int mt, int nt)
{
    if( !dcT_ready[mt][nt] ) {
        parsec_matrix_block_cyclic_t *d = &dcT[mt][nt];
        parsec_matrix_block_cyclic_init(d, PARSEC_MATRIX_INTEGER, PARSEC_MATRIX_TILE, 0,
                                        TILE, 1, TILE * mt, nt, 0, 0, TILE * mt, nt, 1, 1, 1, 1, 0, 0);
        d->mat = parsec_data_allocate((size_t)TILE * mt * nt * parsec_datadist_getsizeoftype(PARSEC_MATRIX_INTEGER));
        memset(d->mat, 0, (size_t)TILE * mt * nt * sizeof(int));
        dcT_ready[mt][nt] = 1;
    }
    return &dcT[mt][nt];
}

/* ------------------------------------------------------------------ bodies, callbacks */
static int body(struct parsec_execution_stream_s *es, const void *src, void *dst, void *op_data, ...)
{
    member_t *mb = (member_t*)op_data;
    va_list ap;
    int m, n;
    va_start(ap, op_data);
    m = va_arg(ap, int);
    n = va_arg(ap, int);
    va_end(ap);
    (void)src; (void)dst;
    if( MAXM == mb->idx ) {        /* the taskpool enqueued before the start (late=2): it ends once parsec_context_start
                                    * has returned, so that the workers never see a context without active taskpool */
        while( !start_returned ) usleep(10);
    }
    if( mb->silent ) return PARSEC_HOOK_RETURN_DONE;
    vt_ev("\"e\":\"Start\",\"r\":%d,\"sp\":%d,\"c\":0,\"p\":[%d,%d],\"th\":%d", mb->run, mb->idx, m, n, es->th_id);
    spin_us(5 + (m * 7 + n * 3 + mb->idx) % 20);
    vt_ev("\"e\":\"End\",\"r\":%d,\"sp\":%d,\"c\":0,\"p\":[%d,%d],\"th\":%d", mb->run, mb->idx, m, n, es->th_id);
    return PARSEC_HOOK_RETURN_DONE;
}

static int on_complete(parsec_taskpool_t *tp, void *data)
{
    int n = __sync_add_and_fetch(&done_count, 1);
    (void)tp; (void)data;
    vt_ev("\"e\":\"TpDone\",\"r\":%d,\"n\":%d", cur.id, n);
    return PARSEC_SUCCESS;
}

/* the local detector of the member has seen the termination: its completion callback is running or has run
 * (monitor values of termdet_local: 0x3 = terminating, i.e. inside the callback, NULL = terminated) */
static int terminating(parsec_taskpool_t *tp)
{
    void *m = tp->tdm.monitor;
    return NULL != tp->tdm.module && (NULL == m || (void*)0x3 == m);
}

/* the enabling thread is "preempted" until the member it has just made runnable has terminated on the other threads */
static void enabler_wait(int i)
{
    long t0 = now_us();
    int ok = 0;
    __sync_fetch_and_add(&n_waits, 1);
    while( now_us() - t0 < cur.wait_us ) {
        if( terminating(mem[i].tp) ) { ok = 1; break; }
        usleep(20);
    }
    if( NULL != getenv("C15_DEBUG") )
        fprintf(stderr, "r=%d wait member %d: %s after %ld us (mon %p)\n", cur.id, i, ok ? "ok" : "timeout", now_us() - t0, mem[i].tp->tdm.monitor);
    if( ok ) {
        __sync_fetch_and_add(&n_waits_ok, 1);
        spin_us(100);           /* the thread that detected it is now inside (or past) the member's completion callback */
    } else {
        cur.delay = 0;          /* no other thread is working (or the machine is too loaded): do not wait again */
    }
}

static void wrap_startup(parsec_context_t *context, parsec_taskpool_t *tp, parsec_task_t **startup_list)
{
    int i;
    map_startup(context, tp, startup_list);          /* the tasks of the member are now in the scheduler */
    for( i = 0; i < nmem; i++ ) if( mem[i].tp == tp ) break;
    if( i == nmem || !context_running || !((cur.delay >> i) & 1) || mem[i].empty ) return;
    if( 2 == cur.dmode ) pending_wait = i + 1;
    else enabler_wait(i);
}

static void point_fn(int kind, const volatile void *addr)
{
    (void)kind; (void)addr;
    if( !in_run ) return;
    if( pending_wait ) {
        int i = pending_wait - 1;
        pending_wait = 0;
        if( i < nmem ) enabler_wait(i);
        return;
    }
    if( cur.nz > 0 ) {
        unsigned r = __sync_add_and_fetch(&noise_state, 2654435761u);
        r ^= r >> 15;
        if( (int)(r % 100u) < cur.nz ) { spin_us(20 + (long)((r >> 8) % 180u)); __sync_fetch_and_add(&n_noise, 1); }
    }
}

/* ------------------------------------------------------------------ watchdog, crashes */
static void die_with(const char *what, int sig, int code)
{
    if( in_run ) vt_ev("\"e\":\"%s\",\"r\":%d,\"sig\":%d,\"done\":%d", what, cur.id, sig, done_count);
    vt_dump();
    vt_close();
    _exit(code);
}

static void on_crash(int sig) { die_with("Crash", sig, 4); }

static void *watchdog(void *arg)
{
    long seen = -1, seen_ev = -1, t_last = now_us();
    (void)arg;
    for( ;; ) {
        usleep(5000);
        if( !in_run ) { t_last = now_us(); continue; }
        if( progress != seen || vt_next != seen_ev ) { seen = progress; seen_ev = vt_next; t_last = now_us(); continue; }
        if( now_us() - t_last > window_ms * 1000L ) die_with("Timeout", 0, 6);
    }
    return NULL;
}

/* ------------------------------------------------------------------ driver */
static const char *arg_of(int argc, char **argv, const char *key, const char *dflt)
{
    size_t n = strlen(key);
    for( int i = 1; i < argc; i++ )
        if( 0 == strncmp(argv[i], key, n) && argv[i][n] == '=' ) return argv[i] + n + 1;
    return dflt;
}

static int tok_int(const char *line, const char *key, int dflt)
{
    char pat[32];
    const char *s;
    snprintf(pat, sizeof(pat), "%s=", key);
    s = strstr(line, pat);
    while( NULL != s && s != line && s[-1] != ' ' ) s = strstr(s + 1, pat);
    return NULL == s ? dflt : atoi(s + strlen(pat));
}

static int parse_line(const char *line, runspec_t *r)
{
    const char *s = strstr(line, "members=");
    memset(r, 0, sizeof(*r));
    if( NULL == s ) return -1;
    s += 8;
    while( *s && *s != ' ' && *s != '\n' && r->n < MAXM ) {
        int k = 0;
        while( *s && *s != ',' && *s != ' ' && *s != '\n' && k < 7 ) r->kinds[r->n][k++] = *s++;
        r->kinds[r->n][k] = 0;
        r->n++;
        if( *s == ',' ) s++;
    }
    r->id = tok_int(line, "id", 0);
    r->late = tok_int(line, "late", 0);
    r->delay = tok_int(line, "delay", 0);
    r->dmode = tok_int(line, "dmode", 1);
    r->wait_us = tok_int(line, "wait_us", 20000);
    r->nz = tok_int(line, "nz", 0);
    return r->n > 0 ? 0 : -1;
}

static int make_member(member_t *mb, const char *kind, int idx, int run)
{
    const parsec_tiled_matrix_t *src;
    memset(mb, 0, sizeof(*mb));
    mb->idx = idx; mb->run = run;
    if( kind[0] == 'E' ) { mb->empty = 1; src = (const parsec_tiled_matrix_t*)&dcE; }
    else if( kind[0] == 'Z' ) { mb->silent = 1; src = (const parsec_tiled_matrix_t*)matrix_of(1, 1); }
    else if( kind[0] == 'T' && 2 == sscanf(kind + 1, "%dx%d", &mb->mt, &mb->nt) &&
             mb->mt >= 1 && mb->mt <= MAXDIM && mb->nt >= 1 && mb->nt <= MAXDIM ) {
        src = (const parsec_tiled_matrix_t*)matrix_of(mb->mt, mb->nt);
    } else return -1;
    mb->tp = parsec_map_operator_New(src, NULL, body, mb);
    if( NULL == map_startup ) map_startup = mb->tp->startup_hook;
    mb->tp->startup_hook = wrap_startup;
    return 0;
}

static void one_run(parsec_context_t *parsec)
{
    parsec_taskpool_t *top = NULL;
    char sizes[256];
    int o = 0, rc, late2;

    nmem = 0;
    done_count = 0;
    for( int i = 0; i < cur.n; i++ ) {
        if( make_member(&mem[i], cur.kinds[i], i, cur.id) < 0 ) { fprintf(stderr, "bad member %s\n", cur.kinds[i]); exit(3); }
        nmem = i + 1;
        top = parsec_compose(top, mem[i].tp);
        o += snprintf(sizes + o, sizeof(sizes) - o, "%s[%d,%d]", i ? "," : "", mem[i].silent ? 0 : mem[i].mt, mem[i].silent ? 0 : mem[i].nt);
    }
    parsec_taskpool_set_complete_callback(top, on_complete, NULL);
    vt_ev("\"e\":\"Layout\",\"r\":%d,\"sizes\":[%s],\"late\":%d,\"delay\":%d", cur.id, sizes, cur.late, cur.delay);
    vt_ev("\"e\":\"Run\",\"r\":%d", cur.id);
    parsec_verif_point_fn = (cur.nz > 0 || (cur.delay && 2 == cur.dmode)) ? point_fn : NULL;
    __sync_synchronize();
    in_run = 1;
    start_returned = 0;
    if( 2 == cur.late && 1 == ncores ) cur.late = 1;       /* nobody could run the taskpool enqueued before the start */
    late2 = (2 == cur.late);
    if( late2 ) {
        member_t *pre = &mem[MAXM];
        make_member(pre, "Z", MAXM, cur.id);
        pre->tp->startup_hook = map_startup;
        rc = parsec_context_add_taskpool(parsec, pre->tp);
        if( PARSEC_SUCCESS != rc ) exit(3);
        parsec_context_start(parsec);
        start_returned = 1;         /* (no waiting for it here: with some schedulers only this thread can reach its task) */
        progress++;
    } else if( 1 == cur.late ) {
        parsec_context_start(parsec);
    }
    context_running = (0 != cur.late);
    rc = parsec_context_add_taskpool(parsec, top);
    if( PARSEC_SUCCESS != rc ) { fprintf(stderr, "add_taskpool %d\n", rc); exit(3); }
    progress++;
    if( 0 == cur.late ) {
        context_running = 1;
        parsec_context_start(parsec);
    }
    rc = parsec_context_wait(parsec);
    if( PARSEC_SUCCESS != rc ) { fprintf(stderr, "context_wait %d\n", rc); exit(3); }
    context_running = 0;
    in_run = 0;
    parsec_verif_point_fn = NULL;
    vt_ev("\"e\":\"Final\",\"r\":%d,\"done\":%d", cur.id, done_count);
    for( int i = 0; i < nmem; i++ ) parsec_taskpool_free(mem[i].tp);
    if( nmem > 1 ) parsec_taskpool_free(top);
    if( late2 ) parsec_taskpool_free(mem[MAXM].tp);
    vt_dump();
}

int main(int argc, char **argv)
{
    const char *out = arg_of(argc, argv, "out", "trace.ndjson");
    const char *runsf = arg_of(argc, argv, "runs", NULL);
    int cores = ncores = atoi(arg_of(argc, argv, "cores", "2"));
    parsec_context_t *parsec;
    int provided, pargc = 0, nruns = 0;
    char **pargv = NULL, line[1024];
    pthread_t wd;
    FILE *rf;

    window_ms = atol(arg_of(argc, argv, "window_ms", "3000"));
    vt_init(20000);
    if( vt_open(out) < 0 ) { perror(out); return 3; }
    if( NULL == runsf || NULL == (rf = fopen(runsf, "r")) ) { fprintf(stderr, "runs file?\n"); return 3; }
    signal(SIGSEGV, on_crash); signal(SIGABRT, on_crash); signal(SIGBUS, on_crash); signal(SIGFPE, on_crash);

    MPI_Init_thread(&argc, &argv, MPI_THREAD_MULTIPLE, &provided);
    parsec = parsec_init(cores, &pargc, &pargv);
    if( NULL == parsec ) { fprintf(stderr, "parsec_init failed\n"); return 3; }
    /* a one-tile matrix distributed over a 2x1 process grid, seen from process 1: no local tile */
    parsec_matrix_block_cyclic_init(&dcE, PARSEC_MATRIX_INTEGER, PARSEC_MATRIX_TILE, 1,
                                    TILE, 1, TILE, 1, 0, 0, TILE, 1, 2, 1, 1, 1, 0, 0);
    if( 0 != dcE.super.nb_local_tiles ) { fprintf(stderr, "setup: the empty matrix has local tiles\n"); return 3; }
    /* one empty epoch first: the first parsec_context_wait() configures the communication engine, which can take
     * seconds on a loaded machine and is not part of any composition */
    parsec_context_start(parsec);
    parsec_context_wait(parsec);
    pthread_create(&wd, NULL, watchdog, NULL);

    while( NULL != fgets(line, sizeof(line), rf) ) {
        if( line[0] == '#' || line[0] == '\n' ) continue;
        if( parse_line(line, &cur) < 0 ) { fprintf(stderr, "bad line %s\n", line); return 3; }
        one_run(parsec);
        nruns++;
    }
    fclose(rf);
    vt_raw("{\"e\":\"ProcessDone\",\"runs\":%d,\"waits\":%ld,\"waits_ok\":%ld,\"noise\":%ld}", nruns, n_waits, n_waits_ok, n_noise);
    vt_close();
    for( int a = 1; a <= MAXDIM; a++ )
        for( int b = 1; b <= MAXDIM; b++ )
            if( dcT_ready[a][b] ) {
                parsec_data_free(dcT[a][b].mat);
                parsec_tiled_matrix_destroy((parsec_tiled_matrix_t*)&dcT[a][b]);
            }
    parsec_tiled_matrix_destroy((parsec_tiled_matrix_t*)&dcE);
    parsec_fini(&parsec);
    MPI_Finalize();
    return 0;
}
