/* C34 harness: drives the real PARSEC_OBJ_NEW / PARSEC_OBJ_CONSTRUCT / PARSEC_OBJ_RETAIN / PARSEC_OBJ_RELEASE on objects of
 * test-owned class hierarchies of depth 1..4 whose destructors log their invocation, along TLC-generated schedules
 * (mode replay), over every interleaving at yield-point granularity (mode explore), or free-running (mode stress);
 * records an ndjson history for validation by spec/Object/RefTrace.tla.
 *
 *   obj_replay replay  <scenario> <schedules> <trace.ndjson> <meta.ndjson>
 *   obj_replay explore <scenario> <limit>     <trace.ndjson> <meta.ndjson>
 *   obj_replay stress  <scenario> <runs>      <trace.ndjson> <meta.ndjson>
 *
 * scenario file:
 *   cold 0|1                       1 = class descriptors are reset before every execution (lazy parsec_class_initialize races)
 *   pre op op ...                  executed by the main thread before the worker threads start
 *   threads T / t <tid> op op ...
 * ops:  new:<obj>:<class>:<tok>  construct:<obj>:<class>:<tok>  retain:<tok>:<newtok>  release:<tok>  pass:<tok>  take:<tok>
 * classes: C1 C2 C3 C4 (every level has a destructor), N4 (level 3 has none), N2 (level 1 has none)
 * A token is one reference; references created in `pre` are available to `take`.
 */
#include "parsec/parsec_config.h"
#include "parsec/class/parsec_object.h"
#include <stdio.h>
#include <stdlib.h>
#include <string.h>
#include <ctype.h>
#include "vtrace.h"
#include "vsched.h"

#define MAXOPS 24
#define MAXTOK 64
#define MAXOBJ 9
enum { OP_NEW, OP_CONSTRUCT, OP_RETAIN, OP_RELEASE, OP_PASS, OP_TAKE };
typedef struct { int kind; int a, b; char cls[4]; } op_t;

/* ---- class hierarchies ----------------------------------------------------------------------------- */
typedef struct { parsec_object_t super; int id; int alive; } l1_t;
typedef struct { l1_t super; int x2; } l2_t;
typedef struct { l2_t super; int x3; } l3_t;
typedef struct { l3_t super; int x4; } l4_t;
typedef struct { l1_t super; int y2; } n2_t;          /* parent m1 (no destructor) */
typedef struct { l2_t super; int y3; } m3_t;          /* level 3 without destructor */
typedef struct { m3_t super; int y4; } n4_t;
typedef l1_t m1_t;

static __thread int my_tid = 0;                         /* 0 = main thread, workers 1.. */
static int quiet = 0;
static volatile int obj_dead[16];                       /* kept outside the objects: a dead object's storage is freed */
static void dtor(parsec_object_t *o, int lvl)
{
    if( !quiet ) vt_ev("\"e\":\"dtor\",\"t\":%d,\"o\":%d,\"lvl\":%d", my_tid, ((l1_t*)o)->id, lvl);
    obj_dead[((l1_t*)o)->id & 15] = 1;
}
static void d1(parsec_object_t *o) { dtor(o, 1); }
static void d2(parsec_object_t *o) { dtor(o, 2); }
static void d3(parsec_object_t *o) { dtor(o, 3); }
static void d4(parsec_object_t *o) { dtor(o, 4); }
static void c1(parsec_object_t *o) { ((l1_t*)o)->alive = 1; }
static void c2(parsec_object_t *o) { ((l2_t*)o)->x2 = 2; }

PARSEC_OBJ_CLASS_INSTANCE(l1_t, parsec_object_t, c1, d1);
PARSEC_OBJ_CLASS_INSTANCE(l2_t, l1_t, c2, d2);
PARSEC_OBJ_CLASS_INSTANCE(l3_t, l2_t, NULL, d3);
PARSEC_OBJ_CLASS_INSTANCE(l4_t, l3_t, NULL, d4);
PARSEC_OBJ_CLASS_INSTANCE(m1_t, parsec_object_t, c1, NULL);
PARSEC_OBJ_CLASS_INSTANCE(n2_t, m1_t, NULL, d2);
PARSEC_OBJ_CLASS_INSTANCE(m3_t, l2_t, NULL, NULL);
PARSEC_OBJ_CLASS_INSTANCE(n4_t, m3_t, NULL, d4);

typedef struct { const char *name; parsec_class_t *cls; const char *chain; } clsdesc_t;
static clsdesc_t classes[] = {
    { "C1", &l1_t_class, "1" }, { "C2", &l2_t_class, "2,1" }, { "C3", &l3_t_class, "3,2,1" }, { "C4", &l4_t_class, "4,3,2,1" },
    { "N4", &n4_t_class, "4,2,1" }, { "N2", &n2_t_class, "2" }, { NULL, NULL, NULL } };
static parsec_class_t *all_classes[] = { &l1_t_class, &l2_t_class, &l3_t_class, &l4_t_class, &m1_t_class, &n2_t_class, &m3_t_class,
                                         &n4_t_class, NULL };

static int nthreads, nops[VS_MAXT + 1], cold;
static op_t ops[VS_MAXT + 1][MAXOPS];                    /* index 0 = pre (main thread), workers 1..T */
static int controlled = 1;
static volatile int avail[MAXTOK];
static parsec_object_t *tokobj[MAXTOK];
static parsec_object_t *objs[MAXOBJ];
static int is_static[MAXOBJ];
static l4_t storage[MAXOBJ];                             /* for construct: (large enough for every class) */

static void die(const char *m) { fprintf(stderr, "obj_replay: %s\n", m); exit(3); }

static void parse_ops(int t, char *tok)
{
    static const char *names[] = { "new", "construct", "retain", "release", "pass", "take" };
    while( (tok = strtok(NULL, " \t\n")) ) {
        op_t *o = &ops[t][nops[t]++];
        char *f[4] = { NULL, NULL, NULL, NULL };
        int k, n = 0;
        if( nops[t] > MAXOPS ) die("too many ops");
        memset(o, 0, sizeof(*o));
        for( f[n++] = tok; n < 4 && (tok = strchr(f[n-1], ':')); ) { *tok = 0; f[n++] = tok + 1; }
        for( k = 0; k < 6; k++ ) if( !strcmp(f[0], names[k]) ) break;
        if( 6 == k ) die("bad op");
        o->kind = k;
        if( k <= OP_CONSTRUCT ) { o->a = atoi(f[1]); strncpy(o->cls, f[2], 3); o->b = atoi(f[3]); }
        else { o->a = atoi(f[1]); o->b = f[2] ? atoi(f[2]) : 0; }
    }
}

static void parse_scenario(const char *path)
{
    FILE *f = fopen(path, "r");
    char line[4096];
    if( !f ) die("cannot open scenario");
    while( fgets(line, sizeof(line), f) ) {
        char *tok = strtok(line, " \t\n");
        if( !tok ) continue;
        if( !strcmp(tok, "threads") ) nthreads = atoi(strtok(NULL, " \t\n"));
        else if( !strcmp(tok, "cold") ) cold = atoi(strtok(NULL, " \t\n"));
        else if( !strcmp(tok, "pre") ) parse_ops(0, tok);
        else if( !strcmp(tok, "t") ) {
            int t = atoi(strtok(NULL, " \t\n"));
            if( t < 0 || t >= VS_MAXT ) die("bad thread");
            parse_ops(t + 1, tok);
        }
    }
    fclose(f);
    if( nthreads < 1 || nthreads > VS_MAXT ) die("bad thread count");
}

static void do_op(int tid, op_t *o)
{
    clsdesc_t *c;
    parsec_object_t *obj;
    switch( o->kind ) {
    case OP_NEW:
    case OP_CONSTRUCT:
        for( c = classes; c->name && strcmp(c->name, o->cls); c++ ) ;
        if( !c->name ) die("bad class");
        if( OP_NEW == o->kind ) {
            obj = parsec_obj_new(c->cls);
        } else {
            obj = (parsec_object_t*)&storage[o->a];
            PARSEC_OBJ_CONSTRUCT_WRELEASE_INTERNAL(obj, c->cls, &parsec_obj_destruct);
            is_static[o->a] = 1;
        }
        ((l1_t*)obj)->id = o->a;
        objs[o->a] = obj;
        tokobj[o->b] = obj;
        vt_ev("\"e\":\"new\",\"t\":%d,\"o\":%d,\"chain\":[%s]", tid, o->a, c->chain);
        break;
    case OP_RETAIN:
        obj = tokobj[o->a];
        vt_ev("\"e\":\"inv\",\"t\":%d,\"op\":\"retain\",\"o\":%d", tid, ((l1_t*)obj)->id);
        { int id = ((l1_t*)obj)->id;
          PARSEC_OBJ_RETAIN(obj);
          tokobj[o->b] = obj;
          vt_ev("\"e\":\"res\",\"t\":%d,\"op\":\"retain\",\"o\":%d", tid, id); }
        break;
    case OP_RELEASE:
        obj = tokobj[o->a];
        { int id = ((l1_t*)obj)->id;              /* the object may be gone after the release */
          vt_ev("\"e\":\"inv\",\"t\":%d,\"op\":\"release\",\"o\":%d", tid, id);
          PARSEC_OBJ_RELEASE(obj);
          vt_ev("\"e\":\"res\",\"t\":%d,\"op\":\"release\",\"o\":%d", tid, id); }
        break;
    case OP_PASS:
        __sync_synchronize();
        avail[o->a] = 1;
        break;
    case OP_TAKE:
        while( !avail[o->a] ) { if( controlled && tid > 0 ) vs_point(PARSEC_VERIF_K_SPIN, &avail[o->a]); else sched_yield(); }
        avail[o->a] = 0;
        break;
    }
}

static void setup(void)
{
    int k;
    parsec_class_t **c;
    memset((void*)avail, 0, sizeof(avail));
    memset(tokobj, 0, sizeof(tokobj));
    memset(objs, 0, sizeof(objs));
    memset(is_static, 0, sizeof(is_static));
    memset((void*)obj_dead, 0, sizeof(obj_dead));
    if( cold ) for( c = all_classes; *c; c++ ) { (*c)->cls_initialized = 0; (*c)->cls_construct_array = NULL; (*c)->cls_destruct_array = NULL; }
    else for( c = all_classes; *c; c++ ) if( !(*c)->cls_initialized ) parsec_class_initialize(*c);
    my_tid = 0;
    for( k = 0; k < nops[0]; k++ ) {
        do_op(0, &ops[0][k]);
        if( ops[0][k].kind <= OP_RETAIN ) avail[ops[0][k].b] = 1;       /* references made in `pre` can be taken */
    }
}

/* give back, silently, whatever the scenario left alive */
static void teardown(void)
{
    int k;
    quiet = 1;
    for( k = 0; k < MAXOBJ; k++ ) {
        parsec_object_t *o = objs[k];
        if( NULL == o || obj_dead[k] ) continue;                       /* dead objects were destructed (and freed) */
        if( is_static[k] ) parsec_obj_destruct(o);
        else { o->obj_reference_count = 1; PARSEC_OBJ_RELEASE(o); }
    }
    quiet = 0;
}

static void body(int tid, void *arg)
{
    int k;
    (void)arg;
    my_tid = tid + 1;
    for( k = 0; k < nops[tid + 1]; k++ ) {
        if( k > 0 && controlled ) vs_yield();          /* operation boundary = yield point */
        do_op(tid + 1, &ops[tid + 1][k]);
    }
}

static FILE *meta;
static long nexec = 0;

static void finish_execution(vs_run_t *r)
{
    int i, k;
    if( nexec++ ) vt_reset_marker();
    vt_dump();
    if( r && r->deadlock ) vt_raw("{\"e\":\"Timeout\"}");
    else vt_raw("{\"e\":\"end\"}");
    fprintf(meta, "{\"sched\":\"");
    if( r ) for( i = 0; i < r->nsteps; i++ ) fputc('0' + r->who[i], meta);
    fprintf(meta, "\",\"deadlock\":%d,\"ref\":[", r ? r->deadlock : 0);
    /* reference count of the objects still alive (a dead, freed object reads as 0) */
    for( k = 1; k < MAXOBJ; k++ )
        fprintf(meta, "%s%d", k > 1 ? "," : "", (objs[k] && !obj_dead[k]) ? (int)objs[k]->obj_reference_count : (objs[k] ? 0 : -1));
    fprintf(meta, "]}\n");
}

static int once(void *ctx, const unsigned char *sched, int slen, vs_run_t *r)
{
    (void)ctx;
    setup();
    vs_run(r, nthreads, body, NULL, sched, slen, 3000);
    finish_execution(r);
    if( r->deadlock ) { fflush(meta); vt_close(); _exit(0); }
    teardown();
    return 0;
}

static pthread_barrier_t gate;
static long stress_runs;
static volatile int32_t spin_in;              /* spin rendezvous: the threads leave it within a few cycles of each other */
static void *stress_thread(void *p)
{
    long k;
    for( k = 0; k < stress_runs; k++ ) {
        pthread_barrier_wait(&gate);
        __sync_fetch_and_add(&spin_in, 1);
        while( spin_in < nthreads ) ;
        body((int)(intptr_t)p, NULL);
        pthread_barrier_wait(&gate);
    }
    return NULL;
}

int main(int argc, char **argv)
{
    if( argc < 6 ) die("usage");
    parse_scenario(argv[2]);
    vt_init(1 << 12);
    if( vt_open(argv[4]) ) die("cannot open trace output");
    meta = fopen(argv[5], "w");
    if( !meta ) die("cannot open meta output");
    if( !strcmp(argv[1], "replay") ) {
        FILE *sf = fopen(argv[3], "r");
        static char line[VS_MAXSTEPS + 2];
        static vs_run_t r;
        if( !sf ) die("cannot open schedules");
        vs_install();
        while( fgets(line, sizeof(line), sf) ) {
            static unsigned char sched[VS_MAXSTEPS]; int n = 0; char *p;
            for( p = line; *p && n < VS_MAXSTEPS; p++ ) if( isdigit((unsigned char)*p) ) sched[n++] = (unsigned char)(*p - '0');
            once(NULL, sched, n, &r);
        }
        fclose(sf);
    } else if( !strcmp(argv[1], "explore") ) {
        long n;
        vs_install();
        n = vs_explore(once, NULL, atol(argv[3]));
        fprintf(meta, "{\"explored\":%ld,\"exhaustive\":%s}\n", n < 0 ? -n : n, n < 0 ? "false" : "true");
    } else if( !strcmp(argv[1], "stress") ) {
        long k; int t;
        pthread_t th[VS_MAXT];
        stress_runs = atol(argv[3]);
        controlled = 0;
        pthread_barrier_init(&gate, NULL, (unsigned)nthreads + 1);
        for( t = 0; t < nthreads; t++ ) pthread_create(&th[t], NULL, stress_thread, (void*)(intptr_t)t);
        for( k = 0; k < stress_runs; k++ ) {
            setup();
            spin_in = 0;
            pthread_barrier_wait(&gate);
            pthread_barrier_wait(&gate);
            finish_execution(NULL);
            teardown();
        }
        for( t = 0; t < nthreads; t++ ) pthread_join(th[t], NULL);
    } else die("bad mode");
    fclose(meta);
    vt_close();
    return 0;
}
