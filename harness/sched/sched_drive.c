/* C08 / C09 harness: drives the schedule/select functions of the scheduler module installed by parsec_init
 * (PARSEC_MCA_mca_sched=<name>) directly on the real execution streams of virtual process 0, while the worker
 * threads created by parsec_init are parked on the start barrier (they never call the scheduler).
 *
 *   sched_drive seq  <ncores> <behaviours.txt> <trace.ndjson>
 *       one behaviour per line, operations separated by ';' :
 *          S <es> <distance> <p1>,<p2>,...   schedule a ring of tasks with these priorities on stream <es> of VP 0
 *                                            (<es> may be written <vp>.<es>)
 *                                            (a priority may carry flags: <p>h = task class with
 *                                             PARSEC_HIGH_PRIORITY_TASK, <p>:<k> = first input data is data #k)
 *          X <es>                            one select on stream <es>
 *       after the last operation the harness drains the scheduler: rounds of one select on every stream until a
 *       full round returned NULL (terminal rule of C08), every select is logged.
 *   sched_drive conc <ncores> <scenarios.txt> <trace.ndjson> <seed>
 *       one scenario per line: threads separated by '|', each thread = operations as above (executed by its own
 *       pthread, free running, inv/res stamped around every call); then the sequential drain as above.
 *
 *   sched_drive explore <ncores> <scenarios.txt> <trace.ndjson> <limit> <meta.ndjson> [seed]
 *       scenarios as for conc (at most 8 threads); every interleaving of the threads at yield-point granularity
 *       (each parsec_atomic_* operation, fence and marked spin of the hooked build; operation boundaries) is executed
 *       under the cooperative scheduler harness/common/vsched.h, depth-first, at most <limit> executions per
 *       scenario (when the limit is hit, limit/2 seeded random schedules are added); events as for conc;
 *       meta: {"scenario":K,"explored":N,"exhaustive":true|false,"random":R} per scenario.
 *
 * trace events:  {"e":"S","es":E,"d":D,"ids":[..],"ps":[..]}  {"e":"X","es":E,"id":N,"rd":RD}      (seq)
 *                {"e":"Sinv","t":T,"es":E,"d":D,"ids":[..]} {"e":"Sres","t":T} {"e":"Xinv","t":T,"es":E}
 *                {"e":"Xres","t":T,"id":N}  {"e":"Join"}  then X events of the drain, {"e":"End","n":NSTREAMS} (conc)
 * ids are handed out in scheduling order 1,2,3.. inside a behaviour; id 0 = NULL.
 */
#include "parsec/parsec_config.h"
#include "parsec/runtime.h"
#include "parsec/parsec_internal.h"
#include "parsec/execution_stream.h"
#include "parsec/scheduling.h"
#include "parsec/mca/sched/sched.h"
#include "parsec/data_internal.h"
#include <mpi.h>
#include <pthread.h>
#include <stdio.h>
#include <stdlib.h>
#include <string.h>
#define VT_LINE 1024
#include "vtrace.h"
#include "vsched.h"

#define MAXTASKS 8192
#define MAXOPS   4096
#define MAXTHR   16
#define NDATA    8

typedef struct { char kind; int vp, es, d, first, n; } op_t;      /* tasks first..first+n-1 */
typedef struct { int prio, high, din; } tdesc_t;

static parsec_context_t *pctx;
static int nvp, nstreams;                                         /* nstreams = streams of every VP driven */
static parsec_task_class_t tc_plain, tc_high, tc_flow, tc_flow_high;
static parsec_data_copy_t fake_copies[NDATA];
static parsec_task_t *tasks[MAXTASKS + 1];
static tdesc_t tdesc[MAXTASKS + 1];
static int ntasks;

static void die(const char *m) { fprintf(stderr, "sched_drive: %s\n", m); exit(3); }

static int task_id(parsec_task_t *t)
{
    if( NULL == t ) return 0;
    return t->locals[0].value;
}

static parsec_task_t *new_task(int id)
{
    parsec_task_t *t = PARSEC_OBJ_NEW(parsec_task_t);
    tdesc_t *td = &tdesc[id];
    t->taskpool = NULL;
    t->mempool_owner = NULL;
    t->priority = td->prio;
    t->status = PARSEC_TASK_STATUS_NONE;
    memset(t->locals, 0, sizeof(t->locals));
    memset(t->data, 0, sizeof(t->data));
    t->locals[0].value = id;
    if( td->din >= 0 ) {
        t->task_class = td->high ? &tc_flow_high : &tc_flow;
        t->data[0].data_in = &fake_copies[td->din % NDATA];
    } else {
        t->task_class = td->high ? &tc_high : &tc_plain;
    }
    PARSEC_LIST_ITEM_SINGLETON(&t->super);
    return t;
}

/* parse "S es d p,p,p" / "X es" operations of one thread; allocates task ids in textual order */
static int parse_ops(char *txt, op_t *ops, int maxops)
{
    int n = 0;
    char *save = NULL, *tok;
    for( tok = strtok_r(txt, ";\n", &save); tok; tok = strtok_r(NULL, ";\n", &save) ) {
        op_t *o;
        while( *tok == ' ' ) tok++;
        if( !*tok ) continue;
        if( n >= maxops ) die("too many operations");
        o = &ops[n++];
        memset(o, 0, sizeof(*o));
        o->kind = tok[0];
        if( 'X' == tok[0] ) {
            if( sscanf(tok + 1, "%d.%d", &o->vp, &o->es) != 2 ) {
                o->vp = 0;
                if( sscanf(tok + 1, "%d", &o->es) != 1 ) die("bad X");
            }
        } else if( 'S' == tok[0] ) {
            int off = 0;
            char *p;
            if( sscanf(tok + 1, "%d.%d %d %n", &o->vp, &o->es, &o->d, &off) < 3 ) {
                o->vp = 0;
                if( sscanf(tok + 1, "%d %d %n", &o->es, &o->d, &off) < 2 ) die("bad S");
            }
            p = tok + 1 + off;
            o->first = ntasks + 1;
            while( *p ) {
                tdesc_t *td;
                if( ntasks >= MAXTASKS ) die("too many tasks");
                td = &tdesc[++ntasks];
                td->prio = (int)strtol(p, &p, 10); td->high = 0; td->din = -1;
                if( *p == 'h' ) { td->high = 1; p++; }
                if( *p == ':' ) { p++; td->din = (int)strtol(p, &p, 10); }
                if( *p == ',' ) p++;
                else if( *p && *p != ' ' ) die("bad priority list");
                while( *p == ' ' ) p++;
                o->n++;
            }
            if( 0 == o->n ) die("empty ring");
        } else die("bad operation");
        if( o->es < 0 || o->es >= nstreams || o->vp < 0 || o->vp >= nvp ) die("stream out of range");
    }
    return n;
}

static parsec_task_t *make_ring(op_t *o)
{
    parsec_task_t *ring = NULL;
    int i;
    for( i = 0; i < o->n; i++ ) {
        parsec_task_t *t = tasks[o->first + i] = new_task(o->first + i);
        if( NULL == ring ) ring = t;
        else parsec_list_item_ring_push(&ring->super, &t->super);   /* appended: ring order = id order */
    }
    return ring;
}

static int fmt_ring(char *buf, int cap, op_t *o, int with_ps)
{
    int i, n = 0;
    n += snprintf(buf + n, cap - n, "\"ids\":[");
    for( i = 0; i < o->n && n < cap - 32; i++ ) n += snprintf(buf + n, cap - n, "%s%d", i ? "," : "", o->first + i);
    n += snprintf(buf + n, cap - n, "]");
    if( with_ps ) {
        n += snprintf(buf + n, cap - n, ",\"ps\":[");
        for( i = 0; i < o->n && n < cap - 32; i++ ) n += snprintf(buf + n, cap - n, "%s%d", i ? "," : "", tdesc[o->first + i].prio);
        n += snprintf(buf + n, cap - n, "]");
    }
    return n;
}

static parsec_execution_stream_t *stream(int v, int e) { return pctx->virtual_processes[v]->execution_streams[e]; }

/* sequential drain: one select per stream, round after round, until a full round returned NULL */
static void drain(FILE *out)
{
    int v, e, got, rounds = 0;
    do {
        got = 0;
        for( v = 0; v < nvp; v++ ) for( e = 0; e < nstreams; e++ ) {
            int32_t rd = 0;
            parsec_task_t *t = parsec_current_scheduler->module.select(stream(v, e), &rd);
            fprintf(out, "{\"e\":\"X\",\"vp\":%d,\"es\":%d,\"id\":%d,\"rd\":%d}\n", v, e, task_id(t), (int)rd);
            if( NULL != t ) got++;
        }
        if( ++rounds > 4 * MAXTASKS ) { fprintf(out, "{\"e\":\"Timeout\",\"why\":\"drain does not end\"}\n"); break; }
    } while( got );
}

static void release_tasks(void)
{
    int i;
    for( i = 1; i <= ntasks; i++ ) if( tasks[i] ) { PARSEC_OBJ_RELEASE(tasks[i]); tasks[i] = NULL; }
}

static void free_tasks(void)
{
    release_tasks();
    ntasks = 0;
}

static int run_seq(const char *in_path, const char *out_path)
{
    static op_t ops[MAXOPS];
    char *line = NULL; size_t cap = 0; long nexec = 0;
    char buf[VT_LINE];
    FILE *in = fopen(in_path, "r"), *out = fopen(out_path, "w");
    if( !in || !out ) die("cannot open files");
    while( getline(&line, &cap, in) > 0 ) {
        int nops, i;
        if( nexec++ ) fprintf(out, "{\"e\":\"Reset\"}\n");
        ntasks = 0;
        nops = parse_ops(line, ops, MAXOPS);
        for( i = 0; i < nops; i++ ) {
            op_t *o = &ops[i];
            if( 'S' == o->kind ) {
                parsec_task_t *ring = make_ring(o);
                fmt_ring(buf, sizeof(buf), o, 1);
                parsec_current_scheduler->module.schedule(stream(o->vp, o->es), ring, o->d);
                fprintf(out, "{\"e\":\"S\",\"vp\":%d,\"es\":%d,\"d\":%d,%s}\n", o->vp, o->es, o->d, buf);
            } else {
                int32_t rd = 0;
                parsec_task_t *t = parsec_current_scheduler->module.select(stream(o->vp, o->es), &rd);
                fprintf(out, "{\"e\":\"X\",\"vp\":%d,\"es\":%d,\"id\":%d,\"rd\":%d}\n", o->vp, o->es, task_id(t), (int)rd);
            }
            fflush(out);
        }
        drain(out);
        fprintf(out, "{\"e\":\"End\",\"n\":%d}\n", nstreams);
        fflush(out);
        free_tasks();
    }
    fclose(out);
    return 0;
}

/* ------------------------------------------------------------------------------------------ concurrent */
typedef struct { int t, nops; op_t *ops; } thr_t;
static pthread_barrier_t start_bar;
static unsigned noise_seed;

static void *thr_body(void *arg)
{
    thr_t *th = (thr_t*)arg;
    char buf[VT_LINE - 96];
    unsigned rs = noise_seed * 7919u + (unsigned)th->t * 104729u + 1u;
    int i;
    pthread_barrier_wait(&start_bar);
    for( i = 0; i < th->nops; i++ ) {
        op_t *o = &th->ops[i];
        if( (rand_r(&rs) & 7) == 0 ) sched_yield();
        if( 'S' == o->kind ) {
            parsec_task_t *ring = make_ring(o);
            fmt_ring(buf, sizeof(buf), o, 0);
            vt_ev("\"e\":\"Sinv\",\"t\":%d,\"vp\":%d,\"es\":%d,\"d\":%d,%s", th->t, o->vp, o->es, o->d, buf);
            parsec_current_scheduler->module.schedule(stream(o->vp, o->es), ring, o->d);
            vt_ev("\"e\":\"Sres\",\"t\":%d", th->t);
        } else {
            int32_t rd = 0;
            parsec_task_t *t;
            vt_ev("\"e\":\"Xinv\",\"t\":%d,\"vp\":%d,\"es\":%d", th->t, o->vp, o->es);
            t = parsec_current_scheduler->module.select(stream(o->vp, o->es), &rd);
            vt_ev("\"e\":\"Xres\",\"t\":%d,\"id\":%d", th->t, task_id(t));
        }
    }
    return NULL;
}

static int run_conc(const char *in_path, const char *out_path, unsigned seed)
{
    static op_t ops[MAXTHR][MAXOPS / 4];
    char *line = NULL; size_t cap = 0; long nexec = 0;
    FILE *in = fopen(in_path, "r");
    if( !in ) die("cannot open scenarios");
    if( vt_open(out_path) ) die("cannot open trace");
    noise_seed = seed;
    while( getline(&line, &cap, in) > 0 ) {
        thr_t thr[MAXTHR];
        pthread_t pt[MAXTHR];
        char *save = NULL, *tok;
        int nthr = 0, t, totops = 0;
        if( nexec++ ) vt_reset_marker();
        ntasks = 0;
        for( tok = strtok_r(line, "|\n", &save); tok; tok = strtok_r(NULL, "|\n", &save) ) {
            if( nthr >= MAXTHR ) die("too many threads");
            thr[nthr].t = nthr + 1;
            thr[nthr].ops = ops[nthr];
            thr[nthr].nops = parse_ops(tok, ops[nthr], MAXOPS / 4);
            totops += thr[nthr].nops;
            nthr++;
        }
        vt_init(2 * totops + 16);
        pthread_barrier_init(&start_bar, NULL, nthr);
        noise_seed = seed + (unsigned)nexec;
        for( t = 0; t < nthr; t++ ) pthread_create(&pt[t], NULL, thr_body, &thr[t]);
        for( t = 0; t < nthr; t++ ) pthread_join(pt[t], NULL);
        pthread_barrier_destroy(&start_bar);
        vt_dump();
        vt_raw("{\"e\":\"Join\"}");
        drain(vt_file);
        vt_raw("{\"e\":\"End\",\"n\":%d}", nstreams);
        fflush(vt_file);
        free_tasks();
    }
    vt_close();
    return 0;
}

/* ------------------------------------------------------------------------------------------ controlled */
static thr_t xthr[VS_MAXT];
static int xnthr;
static long xexec;

static void xbody(int tid, void *arg)
{
    thr_t *th = &xthr[tid];
    char buf[VT_LINE - 96];
    int i;
    (void)arg;
    for( i = 0; i < th->nops; i++ ) {
        op_t *o = &th->ops[i];
        if( i > 0 ) vs_yield();                          /* operation boundary = yield point */
        if( 'S' == o->kind ) {
            parsec_task_t *ring = make_ring(o);
            fmt_ring(buf, sizeof(buf), o, 0);
            vt_ev("\"e\":\"Sinv\",\"t\":%d,\"vp\":%d,\"es\":%d,\"d\":%d,%s", th->t, o->vp, o->es, o->d, buf);
            parsec_current_scheduler->module.schedule(stream(o->vp, o->es), ring, o->d);
            vt_ev("\"e\":\"Sres\",\"t\":%d", th->t);
        } else {
            int32_t rd = 0;
            parsec_task_t *t;
            vt_ev("\"e\":\"Xinv\",\"t\":%d,\"vp\":%d,\"es\":%d", th->t, o->vp, o->es);
            t = parsec_current_scheduler->module.select(stream(o->vp, o->es), &rd);
            vt_ev("\"e\":\"Xres\",\"t\":%d,\"id\":%d", th->t, task_id(t));
        }
    }
}

static int xonce(void *ctx, const unsigned char *sched, int slen, vs_run_t *r)
{
    (void)ctx;
    if( xexec++ ) vt_reset_marker();
    vs_run(r, xnthr, xbody, NULL, sched, slen, 3000);
    vt_dump();
    if( r->deadlock ) {                                  /* parked threads: cannot continue safely */
        vt_raw("{\"e\":\"Timeout\",\"why\":\"no thread can move or step budget exhausted\"}");
        vt_close();
        _exit(0);
    }
    vt_raw("{\"e\":\"Join\"}");
    drain(vt_file);
    vt_raw("{\"e\":\"End\",\"n\":%d}", nstreams);
    release_tasks();
    return 0;
}

static int run_explore(const char *in_path, const char *out_path, long limit, const char *meta_path, unsigned seed)
{
    static vs_run_t rr;
    static unsigned char rsched[512];
    static op_t ops[VS_MAXT][MAXOPS / 8];
    char *line = NULL; size_t cap = 0; long nscen = 0;
    FILE *in = fopen(in_path, "r"), *meta = fopen(meta_path, "w");
    if( !in || !meta ) die("cannot open scenarios / meta");
    if( vt_open(out_path) ) die("cannot open trace");
    vs_install();
    while( getline(&line, &cap, in) > 0 ) {
        char *save = NULL, *tok;
        long n;
        int totops = 0;
        xnthr = 0; ntasks = 0;
        for( tok = strtok_r(line, "|\n", &save); tok; tok = strtok_r(NULL, "|\n", &save) ) {
            if( xnthr >= VS_MAXT ) die("too many threads");
            xthr[xnthr].t = xnthr + 1;
            xthr[xnthr].ops = ops[xnthr];
            xthr[xnthr].nops = parse_ops(tok, ops[xnthr], MAXOPS / 8);
            totops += xthr[xnthr].nops;
            xnthr++;
        }
        vt_init(2 * totops + 16);
        long nrand = 0;
        n = vs_explore(xonce, NULL, limit);
        if( n < 0 ) {
            /* the depth-first slice only varies the end of the schedule: add seeded random schedules */
            unsigned rs = seed * 2654435761u + (unsigned)nscen * 40503u + 17u;
            for( nrand = 0; nrand < limit / 2; nrand++ ) {
                int k;
                for( k = 0; k < (int)sizeof(rsched); k++ ) rsched[k] = (unsigned char)(rand_r(&rs) % xnthr);
                xonce(NULL, rsched, (int)sizeof(rsched), &rr);
            }
        }
        fprintf(meta, "{\"scenario\":%ld,\"explored\":%ld,\"exhaustive\":%s,\"random\":%ld}\n", nscen, n < 0 ? -n : n, n < 0 ? "false" : "true", nrand);
        fflush(meta);
        nscen++;
        ntasks = 0;
    }
    fclose(meta);
    vt_close();
    return 0;
}

int main(int argc, char **argv)
{
    int provided, ncores, rc, i;
    int pargc = 1; char *pargv_s[2] = { argv[0], NULL }; char **pargv = pargv_s;
    if( argc < 5 ) die("usage: sched_drive seq|conc <ncores> <in> <trace> [seed]");
    ncores = atoi(argv[2]);
    MPI_Init_thread(&argc, &argv, MPI_THREAD_MULTIPLE, &provided);
    pctx = parsec_init(ncores, &pargc, &pargv);
    if( NULL == pctx ) die("parsec_init failed");
    nvp = pctx->nb_vp;
    nstreams = pctx->virtual_processes[0]->nb_cores;
    for( i = 1; i < nvp; i++ ) if( pctx->virtual_processes[i]->nb_cores < nstreams ) nstreams = pctx->virtual_processes[i]->nb_cores;
    if( NULL == parsec_current_scheduler ) die("no scheduler installed");
    memset(&tc_plain, 0, sizeof(tc_plain));
    tc_plain.name = "T"; tc_plain.nb_flows = 0;
    tc_high = tc_plain; tc_high.name = "TH"; tc_high.flags = PARSEC_HIGH_PRIORITY_TASK;
    tc_flow = tc_plain; tc_flow.name = "TF"; tc_flow.nb_flows = 1;
    tc_flow_high = tc_flow; tc_flow_high.name = "TFH"; tc_flow_high.flags = PARSEC_HIGH_PRIORITY_TASK;
    memset(fake_copies, 0, sizeof(fake_copies));
    for( i = 0; i < NDATA; i++ ) fake_copies[i].original = NULL;
    fprintf(stderr, "sched_drive: scheduler %s streams %d vps %d\n",
            parsec_current_scheduler->component->base_version.mca_component_name, nstreams, nvp);
    if( !strcmp(argv[1], "seq") ) rc = run_seq(argv[3], argv[4]);
    else if( !strcmp(argv[1], "conc") ) rc = run_conc(argv[3], argv[4], argc > 5 ? (unsigned)atoi(argv[5]) : 1u);
    else if( !strcmp(argv[1], "explore") && argc > 6 ) rc = run_explore(argv[3], argv[4], atol(argv[5]), argv[6], argc > 7 ? (unsigned)atoi(argv[7]) : 1u);
    else die("bad mode");
    parsec_fini(&pctx);
    MPI_Finalize();
    return rc;
}
