/* C35 harness: drives the real hierarchical bounded buffer (parsec/hbbuffer.c) and the scheduler max-heap
 * (parsec/maxheap.c).  Tasks are real parsec_task_t objects (id in locals[0], priority in ->priority).
 *
 *   heap_replay hbseq   <histories.txt> <trace.ndjson> <size> <prio1,prio2,..>
 *       histories: "push_all <d> <i,j,..>;push_prio <d> <i,j,..>;pop"       (validated by HBTrace.tla)
 *   heap_replay heapseq <histories.txt> <trace.ndjson> <prio1,prio2,..> [maxheaps]
 *       histories: "ins <h> <x>;rem <h>;split <h>"                            (validated by HeapTrace.tla)
 *   heap_replay explore|random|stress <scenario> <limit|runs> <trace.ndjson> <meta.ndjson> [seed]
 *       concurrent hbbuffer histories (validated by HBConcTrace.tla); scenario file:
 *           size N / prios p1,p2,.. / init i j k (pushed with push_all by the main thread) /
 *           t <tid> op op ..   op: push_all:I,J  push_prio:I,J  up_all:I,J (distance 1)  pop  repush_all:K  repush_prio:K
 */
#include "parsec/parsec_config.h"
#include "parsec/parsec_internal.h"
#include "parsec/class/list_item.h"
#include "parsec/hbbuffer.h"
#include "parsec/maxheap.h"
#include <stdio.h>
#include <stdlib.h>
#include <string.h>
#include <ctype.h>
#include "vtrace.h"
#include "vsched.h"

#define MAXI 72
#define MAXOPS 24
static parsec_task_t *tasks[MAXI + 1];
static int nitems, prios[MAXI + 1];

static void die(const char *m) { fprintf(stderr, "heap_replay: %s\n", m); exit(3); }
static int idof(volatile void *t) { return NULL == t ? 0 : ((parsec_task_t*)t)->locals[0].value; }
static void parse_prios(const char *s)
{
    char *p = (char*)s;
    nitems = 0;
    while( *p && nitems < MAXI ) { prios[++nitems] = (int)strtol(p, &p, 10); if( *p == ',' ) p++; }
}
static int parse_ring(const char *s, int *r)
{
    char *p = (char*)s; int n = 0;
    if( NULL == s || *s == '-' ) return 0;
    while( *p && n < MAXI ) { r[n++] = (int)strtol(p, &p, 10); if( *p == ',' ) p++; }
    return n;
}
static void mk_tasks(void)
{
    int i;
    for( i = 1; i <= nitems; i++ ) {
        tasks[i] = (parsec_task_t*)calloc(1, sizeof(parsec_task_t));
        PARSEC_OBJ_CONSTRUCT(&tasks[i]->super, parsec_list_item_t);
        tasks[i]->locals[0].value = i; tasks[i]->priority = prios[i];
        PARSEC_LIST_ITEM_SINGLETON(&tasks[i]->super);
    }
}
static void free_tasks(void) { int i; for( i = 1; i <= nitems; i++ ) { free(tasks[i]); tasks[i] = NULL; } }
static parsec_list_item_t *mkring(const int *r, int n)
{
    int j;
    for( j = 0; j < n; j++ ) {
        parsec_task_t *a = tasks[r[j]], *b = tasks[r[(j + 1) % n]];
        a->super.list_next = &b->super; b->super.list_prev = &a->super;
    }
    return &tasks[r[0]]->super;
}
static int fmt_ring(char *buf, size_t sz, const int *r, int n)
{
    int j, k = 0;
    buf[0] = 0;
    for( j = 0; j < n; j++ ) k += snprintf(buf + k, sz - k, "%s%d", j ? "," : "", r[j]);
    return k;
}

/* ---- parent store: records what it receives (thread safe: own spin lock, not a parsec atomic) ------------- */
static int par[4 * MAXI], npar, ringbad;
static volatile int par_lock;
static __thread int my_par[MAXI], my_npar;       /* what the current call of this thread handed over */
static void parent_push(void *store, parsec_list_item_t *elt, int32_t distance)
{
    parsec_list_item_t *it = elt; int n = 0, m = 0;
    (void)store; (void)distance;
    while( __sync_lock_test_and_set(&par_lock, 1) ) ;
    do { if( npar < 4 * MAXI ) par[npar++] = idof(it); if( my_npar < MAXI ) my_par[my_npar++] = idof(it);
         n++; it = (parsec_list_item_t*)it->list_next; } while( it != elt && n < 2 * MAXI );
    it = elt;
    do { m++; it = (parsec_list_item_t*)it->list_prev; } while( it != elt && m < 2 * MAXI );
    if( n != m ) ringbad = 1;                     /* the ring is not the same in both directions */
    __sync_lock_release(&par_lock);
    /* the tasks stay in the parent store for the rest of the execution */
}

static parsec_hbbuffer_t *hb;
static int hbsize;
static int store_dummy;

static void log_hb(FILE *out, const char *op, const int *r, int nr, int d, int ret)
{
    char rb[256]; int i;
    fmt_ring(rb, sizeof(rb), r, nr);
    fprintf(out, "{\"e\":\"op\",\"op\":\"%s\",\"r\":[%s],\"d\":%d,\"ret\":%d,\"slots\":[", op, rb, d, ret);
    for( i = 0; i < hbsize; i++ ) fprintf(out, "%s%d", i ? "," : "", idof(hb->items[i]));
    fprintf(out, "],\"par\":[");
    for( i = 0; i < npar; i++ ) fprintf(out, "%s%d", i ? "," : "", par[i]);
    fprintf(out, "],\"ringbad\":%d}\n", ringbad);
}

static int in_use[MAXI + 1];     /* 1: in the buffer or in the parent store (sequential modes) */

static int run_hbseq(const char *hpath, const char *tpath)
{
    FILE *in = fopen(hpath, "r"), *out = fopen(tpath, "w");
    char *line = NULL; size_t cap = 0; long nexec = 0;
    if( !in || !out ) die("cannot open files");
    while( getline(&line, &cap, in) > 0 ) {
        char *save = NULL, *tok;
        if( nexec++ ) fprintf(out, "{\"e\":\"Reset\"}\n");
        mk_tasks(); npar = 0; ringbad = 0; memset(in_use, 0, sizeof(in_use));
        hb = parsec_hbbuffer_new((size_t)hbsize, (size_t)hbsize, parent_push, &store_dummy);
        for( tok = strtok_r(line, ";\n", &save); tok; tok = strtok_r(NULL, ";\n", &save) ) {
            char op[32], rs[256]; int d = 0, r[MAXI], nr, j, ok = 1;
            rs[0] = '-'; rs[1] = 0;
            if( sscanf(tok, "%31s %d %255s", op, &d, rs) < 1 ) continue;
            nr = parse_ring(rs, r);
            if( !strcmp(op, "pop") ) {
                parsec_list_item_t *it = parsec_hbbuffer_pop_best(hb, parsec_execution_context_priority_comparator);
                if( it ) in_use[idof(it)] = 0;
                log_hb(out, "pop", r, 0, 0, idof(it));
                continue;
            }
            for( j = 0; j < nr; j++ ) if( in_use[r[j]] ) ok = 0;
            if( !ok || 0 == nr ) continue;                  /* a task of the ring is not free in the real run: skip */
            for( j = 0; j < nr; j++ ) in_use[r[j]] = 1;
            if( !strcmp(op, "push_all") ) parsec_hbbuffer_push_all(hb, mkring(r, nr), d);
            else parsec_hbbuffer_push_all_by_priority(hb, mkring(r, nr), d);
            log_hb(out, op, r, nr, d, 0);
        }
        fflush(out);
        parsec_hbbuffer_destruct(hb);
        free_tasks();
    }
    fclose(out);
    return 0;
}

/* ---- max heap ----------------------------------------------------------------------------------------------- */
#define MAXH 16
static parsec_heap_t *heaps[MAXH + 1];
static int first;
static int walk_heap(FILE *out, parsec_task_t *n, long pos, int fuel)
{
    if( NULL == n || fuel <= 0 ) return fuel;
    fprintf(out, "%s{\"k\":%d,\"l\":%d,\"r\":%d,\"pos\":%ld}", first ? "" : ",", idof(n), idof(n->super.list_prev),
            idof(n->super.list_next), pos);
    first = 0;
    fuel = walk_heap(out, (parsec_task_t*)n->super.list_prev, 2 * pos, fuel - 1);
    return walk_heap(out, (parsec_task_t*)n->super.list_next, 2 * pos + 1, fuel);
}
static void log_heaps(FILE *out, const char *op, int h, int x, int ret, int newh)
{
    int k, f = 1;
    fprintf(out, "{\"e\":\"op\",\"op\":\"%s\",\"h\":%d,\"x\":%d,\"ret\":%d,\"nh\":%d,\"heaps\":[", op, h, x, ret, newh);
    for( k = 1; k <= MAXH; k++ ) {
        if( NULL == heaps[k] ) continue;
        fprintf(out, "%s{\"h\":%d,\"size\":%u,\"prio\":%u,\"top\":%d,\"nodes\":[", f ? "" : ",", k, heaps[k]->size,
                heaps[k]->priority, idof(heaps[k]->top));
        f = 0; first = 1;
        walk_heap(out, heaps[k]->top, 1, nitems + 2);
        fprintf(out, "]}");
    }
    fprintf(out, "]}\n");
}
static int maxheaps = MAXH;
static int run_heapseq(const char *hpath, const char *tpath)
{
    FILE *in = fopen(hpath, "r"), *out = fopen(tpath, "w");
    char *line = NULL; size_t cap = 0; long nexec = 0;
    if( !in || !out ) die("cannot open files");
    while( getline(&line, &cap, in) > 0 ) {
        char *save = NULL, *tok; int k;
        if( nexec++ ) fprintf(out, "{\"e\":\"Reset\"}\n");
        mk_tasks(); memset(in_use, 0, sizeof(in_use)); memset(heaps, 0, sizeof(heaps));
        for( tok = strtok_r(line, ";\n", &save); tok; tok = strtok_r(NULL, ";\n", &save) ) {
            char op[16]; int h = 0, x = 0;
            if( sscanf(tok, "%15s %d %d", op, &h, &x) < 2 ) continue;
            if( h < 1 || h > maxheaps ) continue;
            if( !strcmp(op, "ins") ) {
                if( in_use[x] ) continue;                      /* not free in the real run: skip */
                if( NULL == heaps[h] ) heaps[h] = heap_create();
                in_use[x] = 1;
                heap_insert(heaps[h], tasks[x]);
                log_heaps(out, "ins", h, x, 0, 0);
            } else if( !strcmp(op, "rem") ) {
                parsec_task_t *t;
                if( NULL == heaps[h] ) continue;
                t = heap_remove(&heaps[h]);
                if( t ) in_use[idof(t)] = 0;
                log_heaps(out, "rem", h, 0, idof(t), 0);
            } else if( !strcmp(op, "split") ) {
                parsec_task_t *t; parsec_heap_t *nw = NULL; int newh = 0, fr = 0;
                if( NULL == heaps[h] ) continue;
                /* the new heap gets the smallest unused handle (the model's numbering may differ: it does not know
                 * which operations were skipped); without a free handle a splitting split is skipped */
                for( k = 1; k <= maxheaps; k++ ) if( NULL == heaps[k] ) { fr = k; break; }
                if( 0 == fr && heaps[h]->size >= 3 ) continue;
                t = heap_split_and_steal(&heaps[h], &nw);
                if( t ) in_use[idof(t)] = 0;
                if( NULL != nw ) { if( 0 == fr ) die("unexpected new heap"); newh = fr; heaps[newh] = nw; }
                log_heaps(out, "split", h, 0, idof(t), newh);
            }
        }
        fflush(out);
        for( k = 1; k <= MAXH; k++ ) while( NULL != heaps[k] ) heap_remove(&heaps[k]);
        free_tasks();
    }
    fclose(out);
    return 0;
}

/* ---- concurrent hbbuffer -------------------------------------------------------------------------------------- */
enum { C_PUSH_ALL, C_PUSH_PRIO, C_UP_ALL, C_POP, C_REPUSH_ALL, C_REPUSH_PRIO };
static const char *cname[] = { "push_all", "push_prio", "up_all", "pop", "repush_all", "repush_prio" };
typedef struct { int kind; int r[8]; int nr; } cop_t;
static cop_t prog[VS_MAXT][MAXOPS]; static int nops[VS_MAXT], nthreads;
static int init_l[MAXI], ninit;
static int results[VS_MAXT][MAXOPS];
static int controlled = 1;
static FILE *meta;
static long nexec = 0;

static void parse_scenario(const char *path)
{
    FILE *f = fopen(path, "r");
    char line[2048];
    if( !f ) die("cannot open scenario");
    while( fgets(line, sizeof(line), f) ) {
        char *tok = strtok(line, " \t\n");
        if( !tok ) continue;
        if( !strcmp(tok, "prios") ) parse_prios(strtok(NULL, " \t\n"));
        else if( !strcmp(tok, "size") ) hbsize = atoi(strtok(NULL, " \t\n"));
        else if( !strcmp(tok, "init") ) { while( (tok = strtok(NULL, " \t\n")) ) init_l[ninit++] = atoi(tok); }
        else if( !strcmp(tok, "t") ) {
            int t = atoi(strtok(NULL, " \t\n"));
            if( t < 0 || t >= VS_MAXT ) die("bad thread");
            if( t + 1 > nthreads ) nthreads = t + 1;
            while( (tok = strtok(NULL, " \t\n")) ) {
                cop_t *o = &prog[t][nops[t]++]; int k; char *c = strchr(tok, ':');
                memset(o, 0, sizeof(*o));
                if( c ) *c++ = 0;
                o->kind = -1;
                for( k = 0; k < 6; k++ ) if( !strcmp(tok, cname[k]) ) o->kind = k;
                if( o->kind < 0 ) die("bad op in scenario");
                if( c ) o->nr = parse_ring(c, o->r);
            }
        }
    }
    fclose(f);
}

static void do_push(int T, int kind, const int *r, int nr)
{
    char rb[128], pb[256];
    const char *op = kind == C_PUSH_PRIO ? "push_prio" : "push_all";
    int d = kind == C_UP_ALL ? 1 : 0;
    parsec_list_item_t *ring = mkring(r, nr);
    fmt_ring(rb, sizeof(rb), r, nr);
    my_npar = 0;
    vt_ev("\"e\":\"inv\",\"t\":%d,\"op\":\"%s\",\"r\":[%s],\"d\":%d", T, op, rb, d);
    if( kind == C_PUSH_PRIO ) parsec_hbbuffer_push_all_by_priority(hb, ring, d);
    else parsec_hbbuffer_push_all(hb, ring, d);
    fmt_ring(pb, sizeof(pb), my_par, my_npar);
    vt_ev("\"e\":\"res\",\"t\":%d,\"op\":\"%s\",\"ret\":0,\"par\":[%s]", T, op, pb);
}
static int do_pop(int T, const char *op)
{
    parsec_list_item_t *it;
    vt_ev("\"e\":\"inv\",\"t\":%d,\"op\":\"%s\",\"r\":[],\"d\":0", T, op);
    it = parsec_hbbuffer_pop_best(hb, parsec_execution_context_priority_comparator);
    vt_ev("\"e\":\"res\",\"t\":%d,\"op\":\"%s\",\"ret\":%d,\"par\":[]", T, op, idof(it));
    return idof(it);
}
static void body(int tid, void *arg)
{
    int i;
    (void)arg;
    for( i = 0; i < nops[tid]; i++ ) {
        cop_t *o = &prog[tid][i];
        if( i > 0 && controlled ) vs_yield();
        switch( o->kind ) {
        case C_PUSH_ALL: case C_PUSH_PRIO: case C_UP_ALL: do_push(tid + 1, o->kind, o->r, o->nr); break;
        case C_POP: results[tid][i] = do_pop(tid + 1, "pop"); break;
        case C_REPUSH_ALL: case C_REPUSH_PRIO: {
            int x = results[tid][o->r[0] - 1];
            if( x > 0 ) do_push(tid + 1, o->kind == C_REPUSH_ALL ? C_PUSH_ALL : C_PUSH_PRIO, &x, 1);
            break; }
        }
    }
}
static void csetup(void)
{
    mk_tasks(); npar = 0; ringbad = 0;
    hb = parsec_hbbuffer_new((size_t)hbsize, (size_t)hbsize, parent_push, &store_dummy);
    memset(results, 0, sizeof(results));
    if( ninit ) do_push(nthreads + 1, C_PUSH_ALL, init_l, ninit);
}
static void finish_execution(vs_run_t *r)
{
    int i; char sb[256], pb[1024]; int sl[MAXI];
    if( r && r->deadlock ) { if( nexec++ ) vt_reset_marker(); vt_dump(); vt_raw("{\"e\":\"Timeout\"}"); }
    else {
        /* quiescent: final state, then drain with quiescent pops */
        for( i = 0; i < hbsize; i++ ) sl[i] = idof(hb->items[i]);
        fmt_ring(sb, sizeof(sb), sl, hbsize); fmt_ring(pb, sizeof(pb), par, npar);
        if( nexec++ ) vt_reset_marker();
        vt_dump();
        vt_raw("{\"e\":\"final\",\"slots\":[%s],\"par\":[%s],\"ringbad\":%d}", sb, pb, ringbad);
        for( i = 0; i < hbsize + 1; i++ ) if( 0 == do_pop(nthreads + 1, "qpop") ) break;
        vt_dump();
    }
    fprintf(meta, "{\"sched\":\"");
    if( r ) for( i = 0; i < r->nsteps; i++ ) fputc('0' + r->who[i], meta);
    fprintf(meta, "\",\"deadlock\":%d}\n", r ? r->deadlock : 0);
}
static int once(void *ctx, const unsigned char *sched, int slen, vs_run_t *r)
{
    (void)ctx;
    csetup();
    vs_run(r, nthreads, body, NULL, sched, slen, 3000);
    finish_execution(r);
    if( r->deadlock ) { fflush(meta); vt_close(); _exit(0); }
    parsec_hbbuffer_destruct(hb);
    free_tasks();
    return 0;
}
static void *stress_thread(void *p) { body((int)(intptr_t)p, NULL); return NULL; }

int main(int argc, char **argv)
{
    if( argc >= 6 && !strcmp(argv[1], "hbseq") ) { hbsize = atoi(argv[4]); parse_prios(argv[5]); return run_hbseq(argv[2], argv[3]); }
    if( argc >= 5 && !strcmp(argv[1], "heapseq") ) {
        parse_prios(argv[4]);
        if( argc >= 6 ) maxheaps = atoi(argv[5]);
        if( maxheaps < 1 || maxheaps > MAXH ) die("bad number of heaps");
        return run_heapseq(argv[2], argv[3]);
    }
    if( argc < 6 ) die("usage");
    parse_scenario(argv[2]);
    vt_init(1 << 14);
    if( vt_open(argv[4]) ) die("cannot open trace output");
    meta = fopen(argv[5], "w");
    if( !strcmp(argv[1], "explore") ) {
        long n;
        vs_install();
        n = vs_explore(once, NULL, atol(argv[3]));
        fprintf(meta, "{\"explored\":%ld,\"exhaustive\":%s}\n", n < 0 ? -n : n, n < 0 ? "false" : "true");
    } else if( !strcmp(argv[1], "random") ) {
        long runs = atol(argv[3]), k; int i;
        static vs_run_t r;
        unsigned int seed = argc > 6 ? (unsigned int)atol(argv[6]) : 1;
        vs_install();
        for( k = 0; k < runs; k++ ) {
            unsigned char sched[512];
            int burst = 1 + (int)(rand_r(&seed) % 4), cur = 0;
            for( i = 0; i < 512; i++ ) {
                if( 0 == i % burst ) cur = (int)(rand_r(&seed) % (unsigned)nthreads);
                sched[i] = (unsigned char)cur;
            }
            once(NULL, sched, 512, &r);
        }
    } else if( !strcmp(argv[1], "stress") ) {
        long runs = atol(argv[3]), k; int t;
        controlled = 0;
        for( k = 0; k < runs; k++ ) {
            pthread_t th[VS_MAXT];
            csetup();
            for( t = 0; t < nthreads; t++ ) pthread_create(&th[t], NULL, stress_thread, (void*)(intptr_t)t);
            for( t = 0; t < nthreads; t++ ) pthread_join(th[t], NULL);
            finish_execution(NULL);
            parsec_hbbuffer_destruct(hb);
            free_tasks();
        }
    } else die("bad mode");
    fclose(meta);
    vt_close();
    return 0;
}
