/* C31 harness: drives the real list / dequeue / fifo functions (parsec/class/list.h, list_item.h, dequeue.h,
 * fifo.h; all static inline, compiled into this harness).
 *
 *   list_replay seq <histories.txt> <trace.ndjson> <prio1,prio2,...>
 *       sequential replay of TLC behaviours of Seq.tla.  Every abstract operation is executed through one of
 *       the real functions that implement it (nolock / locked list functions, dequeue and fifo wrappers, chosen
 *       round-robin by behaviour and position); after every operation the list is walked forwards and backwards
 *       and logged; validated by SeqTrace.tla.
 *       histories.txt: one behaviour per line, ';' separated:  <op> <x> <r1,r2,..|->
 *   list_replay explore|random|stress <scenario> <limit|runs> <trace.ndjson> <meta.ndjson> [seed]
 *       concurrent inv/res histories of the LOCKED functions; validated for linearizability by ListLinTrace.tla.
 *       scenario file:  prios p1,p2,...
 *                       init i j k            (initial content, head first)
 *                       t <tid> op op ...     op: push_front:I push_back:I push_sorted:I pop_front pop_back
 *                                                 try_pop_front try_pop_back chain_front:I,J chain_back:I,J
 *                                                 chain_sorted:I,J sort unchain is_empty repush_front:K repush_back:K
 *                                                 repush_sorted:K   (K = 1-based index of an earlier pop of the thread)
 */
#include "parsec/parsec_config.h"
#include "parsec/class/parsec_object.h"
#include "parsec/class/list.h"
#include "parsec/class/dequeue.h"
#include "parsec/class/fifo.h"
#include <stdio.h>
#include <stdlib.h>
#include <string.h>
#include <stddef.h>
#include <ctype.h>
#include "vtrace.h"
#include "vsched.h"

#define MAXI 32
#define MAXOPS 24
typedef struct { parsec_list_item_t super; int id; int prio; } item_t;
#define OFF offsetof(item_t, prio)

static parsec_list_t list;
static item_t *items[MAXI + 1];
static int nitems, prios[MAXI + 1];

static void die(const char *m) { fprintf(stderr, "list_replay: %s\n", m); exit(3); }
static int idof(volatile parsec_list_item_t *it) { return NULL == it ? 0 : ((item_t*)it)->id; }

static void parse_prios(const char *s)
{
    char *p = (char*)s;
    nitems = 0;
    while( *p && nitems < MAXI ) { prios[++nitems] = (int)strtol(p, &p, 10); if( *p == ',' ) p++; }
}
static int parse_ring(const char *s, int *r)
{
    char *p = (char*)s; int n = 0;
    if( NULL == s || *s == '-' ) return 0;
    while( *p && n < MAXI ) { r[n++] = (int)strtol(p, &p, 10); if( *p == ',' ) p++; }
    return n;
}
static void setup(void)
{
    int i;
    PARSEC_OBJ_CONSTRUCT(&list, parsec_list_t);
    for( i = 1; i <= nitems; i++ ) {
        items[i] = (item_t*)malloc(sizeof(item_t));
        PARSEC_OBJ_CONSTRUCT(&items[i]->super, parsec_list_item_t);
        items[i]->id = i; items[i]->prio = prios[i];
        PARSEC_LIST_ITEM_SINGLETON(&items[i]->super);
    }
}
static void teardown(void)
{
    int i;
    while( !parsec_list_nolock_is_empty(&list) ) parsec_list_nolock_pop_front(&list);
    for( i = 1; i <= nitems; i++ ) { free(items[i]); items[i] = NULL; }
    PARSEC_OBJ_DESTRUCT(&list);
}
/* chain the items r[0..n) into a ring, r[0] first */
static parsec_list_item_t *mkring(const int *r, int n)
{
    int j;
    for( j = 0; j < n; j++ ) {
        item_t *a = items[r[j]], *b = items[r[(j + 1) % n]];
        a->super.list_next = &b->super; b->super.list_prev = &a->super;
    }
    return &items[r[0]]->super;
}
static int fmt_ring(char *buf, size_t sz, const int *r, int n)
{
    int j, k = 0;
    buf[0] = 0;
    for( j = 0; j < n; j++ ) k += snprintf(buf + k, sz - k, "%s%d", j ? "," : "", r[j]);
    return k;
}
/* walk a ring returned by the real code (bounded) */
static int walk_ring(parsec_list_item_t *h, int *out)
{
    int n = 0; parsec_list_item_t *it = h;
    if( NULL == h ) return 0;
    do { out[n++] = idof(it); it = (parsec_list_item_t*)it->list_next; } while( it != h && n < MAXI );
    return n;
}

/* ---- sequential mode ------------------------------------------------------------------------------------- */
static parsec_list_item_t *ring_head;      /* the free-standing sorted ring */
static int where[MAXI + 1];                /* real whereabouts of every item: 0 free, 1 in the list, 2 in the ring */
static FILE *out;

static void log_walks(void)
{
    parsec_list_item_t *it; int k, fuel;
    fprintf(out, "\"fwd\":[");
    for( k = 0, fuel = MAXI + 2, it = (parsec_list_item_t*)list.ghost_element.list_next;
         it != &list.ghost_element && fuel-- > 0; it = (parsec_list_item_t*)it->list_next )
        fprintf(out, "%s%d", k++ ? "," : "", idof(it));
    fprintf(out, "],\"bwd\":[");
    for( k = 0, fuel = MAXI + 2, it = (parsec_list_item_t*)list.ghost_element.list_prev;
         it != &list.ghost_element && fuel-- > 0; it = (parsec_list_item_t*)it->list_prev )
        fprintf(out, "%s%d", k++ ? "," : "", idof(it));
    fprintf(out, "],\"ring\":[");
    if( ring_head ) {
        k = 0; fuel = MAXI + 2; it = ring_head;
        do { fprintf(out, "%s%d", k++ ? "," : "", idof(it)); it = (parsec_list_item_t*)it->list_next; } while( it != ring_head && fuel-- > 0 );
    }
    fprintf(out, "],\"rbwd\":[");
    if( ring_head ) {
        k = 0; fuel = MAXI + 2; it = (parsec_list_item_t*)ring_head->list_prev;
        do { fprintf(out, "%s%d", k++ ? "," : "", idof(it)); if( it == ring_head ) break; it = (parsec_list_item_t*)it->list_prev; } while( fuel-- > 0 );
    }
    fprintf(out, "]");
}

static int run_seq(const char *hpath, const char *tpath)
{
    FILE *in = fopen(hpath, "r");
    char *line = NULL; size_t cap = 0; long nexec = 0;
    out = fopen(tpath, "w");
    if( !in || !out ) die("cannot open files");
    while( getline(&line, &cap, in) > 0 ) {
        char *save = NULL, *tok; int nop = 0;
        if( nexec ) fprintf(out, "{\"e\":\"Reset\"}\n");
        setup(); ring_head = NULL; memset(where, 0, sizeof(where));
        for( tok = strtok_r(line, ";\n", &save); tok; tok = strtok_r(NULL, ";\n", &save) ) {
            char op[32], rs[128]; int x = 0, r[MAXI], nr, v, ret = 0, outr[MAXI], nout = 0;
            const char *via = "";
            char rb[128], ob[128];
            parsec_list_item_t *it = NULL;
            rs[0] = '-'; rs[1] = 0;
            if( sscanf(tok, "%31s %d %127s", op, &x, rs) < 2 ) continue;
            nr = parse_ring(rs, r);
            v = (int)((nexec + nop) % 12);      /* which real function implements the abstract operation */
            nop++;
            /* The behaviour comes from a model in which sort may order equal priorities (and choose the direction)
             * differently from the real code, so a later pop can return another item than the model assumed: skip an
             * operation whose items are not in the state the operation needs in the REAL run (nothing is logged). */
            {
                int j, ok = 1;
                if( !strcmp(op, "remove") ) ok = where[x] == 1;
                else if( !strcmp(op, "add_before") ) ok = (where[x] == 0) && nr == 1 && where[r[0]] == 1;
                else if( !strncmp(op, "push_", 5) || !strcmp(op, "ring_push_sorted") ) ok = where[x] == 0;
                else if( !strncmp(op, "chain_", 6) ) { ok = nr > 0; for( j = 0; j < nr; j++ ) if( where[r[j]] != 0 ) ok = 0; }
                if( !ok ) continue;
                if( !strncmp(op, "push_", 5) || !strcmp(op, "add_before") ) where[x] = 1;
                else if( !strcmp(op, "ring_push_sorted") ) where[x] = 2;
                else if( !strcmp(op, "remove") ) where[x] = 0;
                else if( !strncmp(op, "chain_", 6) ) for( j = 0; j < nr; j++ ) where[r[j]] = 1;
            }
#define PICK(n) (v % (n))
            if( !strcmp(op, "push_front") ) {
                switch( PICK(4) ) {
                case 0: via = "parsec_list_nolock_push_front"; parsec_list_nolock_push_front(&list, &items[x]->super); break;
                case 1: via = "parsec_list_push_front"; parsec_list_push_front(&list, &items[x]->super); break;
                case 2: via = "parsec_dequeue_push_front"; parsec_dequeue_push_front(&list, &items[x]->super); break;
                default: via = "parsec_dequeue_nolock_push_front"; parsec_dequeue_nolock_push_front(&list, &items[x]->super); break;
                }
            } else if( !strcmp(op, "push_back") ) {
                switch( PICK(6) ) {
                case 0: via = "parsec_list_nolock_push_back"; parsec_list_nolock_push_back(&list, &items[x]->super); break;
                case 1: via = "parsec_list_push_back"; parsec_list_push_back(&list, &items[x]->super); break;
                case 2: via = "parsec_dequeue_push_back"; parsec_dequeue_push_back(&list, &items[x]->super); break;
                case 3: via = "parsec_dequeue_nolock_push_back"; parsec_dequeue_nolock_push_back(&list, &items[x]->super); break;
                case 4: via = "parsec_fifo_push"; parsec_fifo_push(&list, &items[x]->super); break;
                default: via = "parsec_fifo_nolock_push"; parsec_fifo_nolock_push(&list, &items[x]->super); break;
                }
            } else if( !strcmp(op, "pop_front") ) {
                switch( PICK(9) ) {
                case 0: via = "parsec_list_nolock_pop_front"; it = parsec_list_nolock_pop_front(&list); break;
                case 1: via = "parsec_list_pop_front"; it = parsec_list_pop_front(&list); break;
                case 2: via = "parsec_list_try_pop_front"; it = parsec_list_try_pop_front(&list); break;
                case 3: via = "parsec_dequeue_pop_front"; it = parsec_dequeue_pop_front(&list); break;
                case 4: via = "parsec_dequeue_try_pop_front"; it = parsec_dequeue_try_pop_front(&list); break;
                case 5: via = "parsec_dequeue_nolock_pop_front"; it = parsec_dequeue_nolock_pop_front(&list); break;
                case 6: via = "parsec_fifo_pop"; it = parsec_fifo_pop(&list); break;
                case 7: via = "parsec_fifo_try_pop"; it = parsec_fifo_try_pop(&list); break;
                default: via = "parsec_fifo_nolock_pop"; it = parsec_fifo_nolock_pop(&list); break;
                }
                ret = idof(it); where[ret] = 0;
            } else if( !strcmp(op, "pop_back") ) {
                switch( PICK(6) ) {
                case 0: via = "parsec_list_nolock_pop_back"; it = parsec_list_nolock_pop_back(&list); break;
                case 1: via = "parsec_list_pop_back"; it = parsec_list_pop_back(&list); break;
                case 2: via = "parsec_list_try_pop_back"; it = parsec_list_try_pop_back(&list); break;
                case 3: via = "parsec_dequeue_pop_back"; it = parsec_dequeue_pop_back(&list); break;
                case 4: via = "parsec_dequeue_try_pop_back"; it = parsec_dequeue_try_pop_back(&list); break;
                default: via = "parsec_dequeue_nolock_pop_back"; it = parsec_dequeue_nolock_pop_back(&list); break;
                }
                ret = idof(it); where[ret] = 0;
            } else if( !strcmp(op, "chain_front") ) {
                parsec_list_item_t *rg = mkring(r, nr);
                switch( PICK(4) ) {
                case 0: via = "parsec_list_nolock_chain_front"; parsec_list_nolock_chain_front(&list, rg); break;
                case 1: via = "parsec_list_chain_front"; parsec_list_chain_front(&list, rg); break;
                case 2: via = "parsec_dequeue_chain_front"; parsec_dequeue_chain_front(&list, rg); break;
                default: via = "parsec_dequeue_nolock_chain_front"; parsec_dequeue_nolock_chain_front(&list, rg); break;
                }
            } else if( !strcmp(op, "chain_back") ) {
                parsec_list_item_t *rg = mkring(r, nr);
                switch( PICK(6) ) {
                case 0: via = "parsec_list_nolock_chain_back"; parsec_list_nolock_chain_back(&list, rg); break;
                case 1: via = "parsec_list_chain_back"; parsec_list_chain_back(&list, rg); break;
                case 2: via = "parsec_dequeue_chain_back"; parsec_dequeue_chain_back(&list, rg); break;
                case 3: via = "parsec_dequeue_nolock_chain_back"; parsec_dequeue_nolock_chain_back(&list, rg); break;
                case 4: via = "parsec_fifo_chain"; parsec_fifo_chain(&list, rg); break;
                default: via = "parsec_fifo_nolock_chain"; parsec_fifo_nolock_chain(&list, rg); break;
                }
            } else if( !strcmp(op, "unchain") ) {
                if( PICK(2) ) { via = "parsec_list_unchain"; it = parsec_list_unchain(&list); }
                else { via = "parsec_list_nolock_unchain"; it = parsec_list_nolock_unchain(&list); }
                nout = walk_ring(it, outr);
                { int j; for( j = 0; j < nout; j++ ) where[outr[j]] = 0; }
            } else if( !strcmp(op, "remove") ) {
                via = "parsec_list_nolock_remove"; parsec_list_nolock_remove(&list, &items[x]->super);
            } else if( !strcmp(op, "add_before") ) {
                if( PICK(2) ) { via = "parsec_list_nolock_add_before"; parsec_list_nolock_add_before(&list, &items[r[0]]->super, &items[x]->super); }
                else { /* before p == after p's predecessor (possibly the ghost element) */
                    via = "parsec_list_nolock_add_after"; parsec_list_nolock_add_after(&list, (parsec_list_item_t*)items[r[0]]->super.list_prev, &items[x]->super); }
            } else if( !strcmp(op, "push_sorted") ) {
                if( PICK(2) ) { via = "parsec_list_push_sorted"; parsec_list_push_sorted(&list, &items[x]->super, OFF); }
                else { via = "parsec_list_nolock_push_sorted"; parsec_list_nolock_push_sorted(&list, &items[x]->super, OFF); }
            } else if( !strcmp(op, "chain_sorted") ) {
                parsec_list_item_t *rg = mkring(r, nr);
                if( PICK(2) ) { via = "parsec_list_chain_sorted"; parsec_list_chain_sorted(&list, rg, OFF); }
                else { via = "parsec_list_nolock_chain_sorted"; parsec_list_nolock_chain_sorted(&list, rg, OFF); }
            } else if( !strcmp(op, "sort") ) {
                if( PICK(2) ) { via = "parsec_list_sort"; parsec_list_sort(&list, OFF); }
                else { via = "parsec_list_nolock_sort"; parsec_list_nolock_sort(&list, OFF); }
            } else if( !strcmp(op, "ring_push_sorted") ) {
                via = "parsec_list_item_ring_push_sorted";
                ring_head = parsec_list_item_ring_push_sorted(ring_head, &items[x]->super, OFF);
            } else die("bad op");
            fmt_ring(rb, sizeof(rb), r, nr); fmt_ring(ob, sizeof(ob), outr, nout);
            fprintf(out, "{\"e\":\"op\",\"op\":\"%s\",\"x\":%d,\"r\":[%s],\"ret\":%d,\"out\":[%s],\"via\":\"%s\",", op, x, rb, ret, ob, via);
            log_walks();
            fprintf(out, "}\n");
        }
        fflush(out);
        nexec++;
        teardown();
    }
    fclose(out);
    return 0;
}

/* ---- concurrent modes ------------------------------------------------------------------------------------ */
enum { O_PUSH_FRONT, O_PUSH_BACK, O_PUSH_SORTED, O_POP_FRONT, O_POP_BACK, O_TRY_POP_FRONT, O_TRY_POP_BACK,
       O_CHAIN_FRONT, O_CHAIN_BACK, O_CHAIN_SORTED, O_SORT, O_UNCHAIN, O_IS_EMPTY,
       O_REPUSH_FRONT, O_REPUSH_BACK, O_REPUSH_SORTED };
static const char *opname[] = { "push_front", "push_back", "push_sorted", "pop_front", "pop_back", "try_pop_front",
                                "try_pop_back", "chain_front", "chain_back", "chain_sorted", "sort", "unchain", "is_empty",
                                "repush_front", "repush_back", "repush_sorted" };
typedef struct { int kind; int x; int r[8]; int nr; } cop_t;
static cop_t prog[VS_MAXT][MAXOPS]; static int nops[VS_MAXT], nthreads;
static int init_l[MAXI], ninit;
static int results[VS_MAXT][MAXOPS];
static int controlled = 1;
static FILE *meta;
static long nexec = 0;

static void parse_scenario(const char *path)
{
    FILE *f = fopen(path, "r");
    char line[2048];
    if( !f ) die("cannot open scenario");
    while( fgets(line, sizeof(line), f) ) {
        char *tok = strtok(line, " \t\n");
        if( !tok ) continue;
        if( !strcmp(tok, "prios") ) parse_prios(strtok(NULL, " \t\n"));
        else if( !strcmp(tok, "init") ) { while( (tok = strtok(NULL, " \t\n")) ) init_l[ninit++] = atoi(tok); }
        else if( !strcmp(tok, "t") ) {
            int t = atoi(strtok(NULL, " \t\n"));
            if( t < 0 || t >= VS_MAXT ) die("bad thread");
            if( t + 1 > nthreads ) nthreads = t + 1;
            while( (tok = strtok(NULL, " \t\n")) ) {
                cop_t *o = &prog[t][nops[t]++]; int k; char *c = strchr(tok, ':');
                memset(o, 0, sizeof(*o));
                if( c ) *c++ = 0;
                o->kind = -1;
                for( k = 0; k < (int)(sizeof(opname) / sizeof(opname[0])); k++ ) if( !strcmp(tok, opname[k]) ) o->kind = k;
                if( o->kind < 0 ) die("bad op in scenario");
                if( c ) { o->nr = parse_ring(c, o->r); o->x = o->r[0]; }
            }
        }
    }
    fclose(f);
}

static void body(int tid, void *arg)
{
    int i, T = tid + 1;
    (void)arg;
    for( i = 0; i < nops[tid]; i++ ) {
        cop_t *o = &prog[tid][i];
        parsec_list_item_t *it;
        int kind = o->kind, x = o->x, n;
        char rb[64]; int outr[MAXI];
        if( i > 0 && controlled ) vs_yield();
        if( kind >= O_REPUSH_FRONT ) {
            x = results[tid][o->x - 1];
            if( x <= 0 ) continue;
            kind = kind - O_REPUSH_FRONT;      /* O_PUSH_FRONT, O_PUSH_BACK, O_PUSH_SORTED */
        }
        switch( kind ) {
        case O_PUSH_FRONT: case O_PUSH_BACK: case O_PUSH_SORTED:
            vt_ev("\"e\":\"inv\",\"t\":%d,\"op\":\"%s\",\"x\":%d,\"r\":[]", T, opname[kind], x);
            if( kind == O_PUSH_FRONT ) parsec_list_push_front(&list, &items[x]->super);
            else if( kind == O_PUSH_BACK ) parsec_list_push_back(&list, &items[x]->super);
            else parsec_list_push_sorted(&list, &items[x]->super, OFF);
            vt_ev("\"e\":\"res\",\"t\":%d,\"op\":\"%s\",\"ret\":0,\"out\":[]", T, opname[kind]);
            break;
        case O_POP_FRONT: case O_POP_BACK: case O_TRY_POP_FRONT: case O_TRY_POP_BACK:
            vt_ev("\"e\":\"inv\",\"t\":%d,\"op\":\"%s\",\"x\":0,\"r\":[]", T, opname[kind]);
            it = kind == O_POP_FRONT ? parsec_list_pop_front(&list) : kind == O_POP_BACK ? parsec_list_pop_back(&list) :
                 kind == O_TRY_POP_FRONT ? parsec_list_try_pop_front(&list) : parsec_list_try_pop_back(&list);
            results[tid][i] = idof(it);
            vt_ev("\"e\":\"res\",\"t\":%d,\"op\":\"%s\",\"ret\":%d,\"out\":[]", T, opname[kind], idof(it));
            break;
        case O_CHAIN_FRONT: case O_CHAIN_BACK: case O_CHAIN_SORTED:
            fmt_ring(rb, sizeof(rb), o->r, o->nr);
            it = mkring(o->r, o->nr);
            vt_ev("\"e\":\"inv\",\"t\":%d,\"op\":\"%s\",\"x\":0,\"r\":[%s]", T, opname[kind], rb);
            if( kind == O_CHAIN_FRONT ) parsec_list_chain_front(&list, it);
            else if( kind == O_CHAIN_BACK ) parsec_list_chain_back(&list, it);
            else parsec_list_chain_sorted(&list, it, OFF);
            vt_ev("\"e\":\"res\",\"t\":%d,\"op\":\"%s\",\"ret\":0,\"out\":[]", T, opname[kind]);
            break;
        case O_SORT:
            vt_ev("\"e\":\"inv\",\"t\":%d,\"op\":\"sort\",\"x\":0,\"r\":[]", T);
            parsec_list_sort(&list, OFF);
            vt_ev("\"e\":\"res\",\"t\":%d,\"op\":\"sort\",\"ret\":0,\"out\":[]", T);
            break;
        case O_UNCHAIN:
            vt_ev("\"e\":\"inv\",\"t\":%d,\"op\":\"unchain\",\"x\":0,\"r\":[]", T);
            it = parsec_list_unchain(&list);
            n = walk_ring(it, outr);
            fmt_ring(rb, sizeof(rb), outr, n);
            vt_ev("\"e\":\"res\",\"t\":%d,\"op\":\"unchain\",\"ret\":0,\"out\":[%s]", T, rb);
            break;
        case O_IS_EMPTY:
            vt_ev("\"e\":\"inv\",\"t\":%d,\"op\":\"is_empty\",\"x\":0,\"r\":[]", T);
            n = parsec_list_is_empty(&list);
            vt_ev("\"e\":\"res\",\"t\":%d,\"op\":\"is_empty\",\"ret\":%d,\"out\":[]", T, n ? 1 : 0);
            break;
        }
    }
}

static void csetup(void)
{
    int i;
    setup();
    for( i = 0; i < ninit; i++ ) parsec_list_nolock_push_back(&list, &items[init_l[i]]->super);
    memset(results, 0, sizeof(results));
}

/* after the threads: observe the final content by popping everything (one more sequential caller) */
static void drain(void)
{
    int k;
    for( k = 0; k < nitems + 2; k++ ) {
        parsec_list_item_t *it;
        vt_ev("\"e\":\"inv\",\"t\":%d,\"op\":\"pop_front\",\"x\":0,\"r\":[]", nthreads + 1);
        it = parsec_list_pop_front(&list);
        vt_ev("\"e\":\"res\",\"t\":%d,\"op\":\"pop_front\",\"ret\":%d,\"out\":[]", nthreads + 1, idof(it));
        if( NULL == it ) break;
    }
}

static void finish_execution(vs_run_t *r)
{
    int i; char buf[256];
    if( nexec++ ) vt_reset_marker();
    fmt_ring(buf, sizeof(buf), init_l, ninit);
    vt_raw("{\"e\":\"init\",\"lst\":[%s]}", buf);
    vt_dump();
    if( r && r->deadlock ) vt_raw("{\"e\":\"Timeout\"}");
    fprintf(meta, "{\"sched\":\"");
    if( r ) for( i = 0; i < r->nsteps; i++ ) fputc('0' + r->who[i], meta);
    fprintf(meta, "\",\"deadlock\":%d}\n", r ? r->deadlock : 0);
}

static int once(void *ctx, const unsigned char *sched, int slen, vs_run_t *r)
{
    (void)ctx;
    csetup();
    vs_run(r, nthreads, body, NULL, sched, slen, 3000);
    if( !r->deadlock ) drain();
    finish_execution(r);
    if( r->deadlock ) { fflush(meta); vt_close(); _exit(0); }
    teardown();
    return 0;
}

static void *stress_thread(void *p) { body((int)(intptr_t)p, NULL); return NULL; }

int main(int argc, char **argv)
{
    if( argc >= 5 && !strcmp(argv[1], "seq") ) { parse_prios(argv[4]); return run_seq(argv[2], argv[3]); }
    if( argc < 6 ) die("usage");
    parse_scenario(argv[2]);
    vt_init(1 << 14);
    if( vt_open(argv[4]) ) die("cannot open trace output");
    meta = fopen(argv[5], "w");
    if( !strcmp(argv[1], "explore") ) {
        long n;
        vs_install();
        n = vs_explore(once, NULL, atol(argv[3]));
        fprintf(meta, "{\"explored\":%ld,\"exhaustive\":%s}\n", n < 0 ? -n : n, n < 0 ? "false" : "true");
    } else if( !strcmp(argv[1], "random") ) {
        long runs = atol(argv[3]), k; int i;
        static vs_run_t r;
        unsigned int seed = argc > 6 ? (unsigned int)atol(argv[6]) : 1;
        vs_install();
        for( k = 0; k < runs; k++ ) {
            unsigned char sched[512];
            int burst = 1 + (int)(rand_r(&seed) % 5), cur = 0;
            for( i = 0; i < 512; i++ ) {
                if( 0 == i % burst ) cur = (int)(rand_r(&seed) % (unsigned)nthreads);
                sched[i] = (unsigned char)cur;
            }
            once(NULL, sched, 512, &r);
        }
    } else if( !strcmp(argv[1], "stress") ) {
        long runs = atol(argv[3]), k; int t;
        controlled = 0;
        for( k = 0; k < runs; k++ ) {
            pthread_t th[VS_MAXT];
            csetup();
            for( t = 0; t < nthreads; t++ ) pthread_create(&th[t], NULL, stress_thread, (void*)(intptr_t)t);
            for( t = 0; t < nthreads; t++ ) pthread_join(th[t], NULL);
            drain();
            finish_execution(NULL);
            teardown();
        }
    } else die("bad mode");
    fclose(meta);
    vt_close();
    return 0;
}
