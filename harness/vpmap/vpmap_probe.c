/* C40 harness: one process = one virtual-process-map specification.  The specification comes through the MCA
 * parameter runtime_vpmap (environment PARSEC_MCA_runtime_vpmap), the visible core count through HWLOC_SYNTHETIC.
 *   vpmap_probe <nb_cores argument of parsec_init> <out.ndjson>
 * After parsec_init the harness reports what was created:
 *   {"e":"map","nbvp":V,"threads":[n0,n1,..],"vthreads":[..],"bind":[[c,..],..],"ncores":N,"total":T}
 *     threads  = nb_cores of every virtual process of the context
 *     vthreads = parsec_vpmap_get_vp_threads(v)
 *     bind     = core_id of every execution stream (-1 = not bound)
 *     ncores   = parsec_hwloc_nb_real_cores()
 * A crash (signal) of the process is the observation "Crash" added by the check.
 */
#include "parsec/parsec_config.h"
#include "parsec/runtime.h"
#include "parsec/parsec_internal.h"
#include "parsec/execution_stream.h"
#include "parsec/vpmap.h"
#include "parsec/parsec_hwloc.h"
#include <mpi.h>
#include <stdio.h>
#include <hwloc.h>
#include <stdlib.h>

int main(int argc, char **argv)
{
    int provided, nbc, v, t, pargc = 1;
    char *pargv_s[2] = { argv[0], NULL }; char **pargv = pargv_s;
    parsec_context_t *ctx;
    FILE *out;
    if( argc < 3 ) return 3;
    nbc = atoi(argv[1]);
    MPI_Init_thread(&argc, &argv, MPI_THREAD_MULTIPLE, &provided);
    ctx = parsec_init(nbc, &pargc, &pargv);
    if( NULL == ctx ) return 4;
    out = fopen(argv[2], "w");
    if( !out ) return 3;
    fprintf(out, "{\"e\":\"map\",\"nbvp\":%d,\"threads\":[", ctx->nb_vp);
    for( v = 0; v < ctx->nb_vp; v++ ) fprintf(out, "%s%d", v ? "," : "", ctx->virtual_processes[v]->nb_cores);
    fprintf(out, "],\"vthreads\":[");
    for( v = 0; v < ctx->nb_vp; v++ ) fprintf(out, "%s%d", v ? "," : "", parsec_vpmap_get_vp_threads(v));
    fprintf(out, "],\"bind\":[");
    for( v = 0; v < ctx->nb_vp; v++ ) {
        fprintf(out, "%s[", v ? "," : "");
        for( t = 0; t < ctx->virtual_processes[v]->nb_cores; t++ )
            fprintf(out, "%s%d", t ? "," : "", ctx->virtual_processes[v]->execution_streams[t]->core_id);
        fprintf(out, "]");
    }
    /* the map's own view: highest core index in the affinity the map gives to each thread (-1 = none) */
    fprintf(out, "],\"aff\":[");
    for( v = 0; v < ctx->nb_vp; v++ ) {
        fprintf(out, "%s[", v ? "," : "");
        for( t = 0; t < ctx->virtual_processes[v]->nb_cores; t++ ) {
            int ht = 0;
            hwloc_cpuset_t cs = parsec_vpmap_get_vp_thread_affinity(v, t, &ht);
            fprintf(out, "%s%d", t ? "," : "", NULL == cs ? -1 : hwloc_bitmap_last(cs));
        }
        fprintf(out, "]");
    }
    fprintf(out, "],\"ncores\":%d,\"total\":%d}\n", parsec_hwloc_nb_real_cores(), parsec_vpmap_get_nb_total_threads());
    fclose(out);
    parsec_fini(&ctx);
    MPI_Finalize();
    return 0;
}
