/* C25 harness: drives the real data repository (parsec/datarepo.c) along TLC-generated schedules (mode replay), over
 * every interleaving of its critical sections (mode explore), or free-running (mode stress); records an ndjson
 * history for validation by spec/DataRepo/RepoTrace.tla.
 *
 *   dr_replay replay  <scenario> <schedules> <trace.ndjson> <meta.ndjson>
 *   dr_replay explore <scenario> <limit>     <trace.ndjson> <meta.ndjson>
 *   dr_replay stress  <scenario> <runs>      <trace.ndjson> <meta.ndjson>
 *
 * scenario file:  threads T / t <tid> op op ...   with op in
 *   create:<c>:<key>  addlimit:<c>:<key>:<n>  use:<c>:<key>  lookup:<key>
 * (c identifies a create/addlimit pair; `use:c` is one of the n uses pair c announces and waits until create c returned)
 *
 * Scheduling granularity (controlled modes): every access to an entry is made under the hash-table bucket lock, so
 * the operations interleave as whole critical sections.  The library's own yield points are therefore switched off
 * and the harness yields (a) between two operations of a thread and (b) inside __data_repo_lookup_entry_and_create
 * between its two critical sections: the third call of the (harness-owned) key_hash function in that operation.
 * Reclamations are observed through the PARSEC_VERIF_EVENT hook at the two reclamation sites.
 */
#include "parsec/parsec_config.h"
#include "parsec/parsec_internal.h"
#include "parsec/execution_stream.h"
#include "parsec/datarepo.h"
#include "parsec/mempool.h"
#include <stdio.h>
#include <stdlib.h>
#include <string.h>
#include <ctype.h>
#include "vtrace.h"
#include "vsched.h"

#define MAXOPS 24
#define MAXC 32
#define MAXKEY 4
enum { OP_CREATE, OP_ADDLIMIT, OP_USE, OP_LOOKUP };
typedef struct { int kind, c, k, n; } op_t;

static int nthreads, nops[VS_MAXT];
static op_t ops[VS_MAXT][MAXOPS];
static int controlled = 1;
static volatile int created[MAXC];
static int seen[VS_MAXT][MAXOPS], nseen[VS_MAXT];
static volatile int nreclaim[MAXKEY + 1];
static __thread int my_tid = -1, in_create = 0, hash_calls = 0;

static data_repo_t *repo;
static parsec_mempool_t mempool;
static parsec_execution_stream_t *es[VS_MAXT];

static void die(const char *m) { fprintf(stderr, "dr_replay: %s\n", m); exit(3); }

static int key_equal(parsec_key_t a, parsec_key_t b, void *d) { (void)d; return a == b; }
static char *key_print(char *buf, size_t n, parsec_key_t k, void *d) { (void)d; snprintf(buf, n, "%lu", (unsigned long)k); return buf; }
static uint64_t key_hash(parsec_key_t k, void *d)
{
    (void)d;
    /* calls made by __data_repo_lookup_entry_and_create: #1 first lock_bucket_handle, #2 (only after a miss, under the
     * bucket lock) the search of the old tables, #3 the second lock_bucket_handle, before it takes the bucket lock:
     * the window between the two critical sections */
    if( controlled && in_create && 3 == ++hash_calls ) vs_yield();
    return (uint64_t)k * 0x9E3779B97F4A7C15ULL;
}
static parsec_key_fn_t key_fns = { key_equal, key_print, key_hash };

static void on_event(const char *what, long a, long b, long c, long d, long e)
{
    (void)b; (void)c; (void)d; (void)e;
    if( !strcmp(what, "datarepo_reclaim") ) {
        vt_ev("\"e\":\"reclaim\",\"t\":%d,\"k\":%ld", my_tid + 1, a);
        if( a >= 0 && a <= MAXKEY ) __sync_fetch_and_add(&nreclaim[a], 1);
    }
}

static void parse_scenario(const char *path)
{
    FILE *f = fopen(path, "r");
    char line[4096];
    if( !f ) die("cannot open scenario");
    while( fgets(line, sizeof(line), f) ) {
        char *tok = strtok(line, " \t\n");
        if( !tok ) continue;
        if( !strcmp(tok, "threads") ) nthreads = atoi(strtok(NULL, " \t\n"));
        else if( !strcmp(tok, "t") ) {
            int t = atoi(strtok(NULL, " \t\n"));
            if( t < 0 || t >= VS_MAXT ) die("bad thread");
            while( (tok = strtok(NULL, " \t\n")) ) {
                op_t *o = &ops[t][nops[t]++];
                if( nops[t] > MAXOPS ) die("too many ops");
                memset(o, 0, sizeof(*o));
                if( 2 == sscanf(tok, "create:%d:%d", &o->c, &o->k) ) o->kind = OP_CREATE;
                else if( 3 == sscanf(tok, "addlimit:%d:%d:%d", &o->c, &o->k, &o->n) ) o->kind = OP_ADDLIMIT;
                else if( 2 == sscanf(tok, "use:%d:%d", &o->c, &o->k) ) o->kind = OP_USE;
                else if( 1 == sscanf(tok, "lookup:%d", &o->k) ) o->kind = OP_LOOKUP;
                else die("bad op");
                if( o->k < 1 || o->k > MAXKEY || o->c < 0 || o->c >= MAXC ) die("bad key / pair");
            }
        }
    }
    fclose(f);
    if( nthreads < 1 || nthreads > VS_MAXT ) die("bad thread count");
}

static void setup(void)
{
    memset((void*)created, 0, sizeof(created));
    memset(seen, 0, sizeof(seen));
    memset(nseen, 0, sizeof(nseen));
    memset((void*)nreclaim, 0, sizeof(nreclaim));
    repo = data_repo_create_nothreadsafe(16, key_fns, NULL, 1);
}

static int present(int k) { return NULL != data_repo_lookup_entry(repo, (parsec_key_t)k); }

/* whatever the scenario left in the table is taken out before the table is destroyed */
static void teardown(void)
{
    int k;
    for( k = 1; k <= MAXKEY; k++ ) {
        data_repo_entry_t *e = (data_repo_entry_t*)parsec_hash_table_remove(&repo->table, (parsec_key_t)k);
        if( NULL != e ) parsec_thread_mempool_free(e->data_repo_mempool_owner, e);
    }
    data_repo_destroy_nothreadsafe(repo);
}

static void body(int tid, void *arg)
{
    int i, found;
    (void)arg;
    my_tid = tid;
    for( i = 0; i < nops[tid]; i++ ) {
        op_t *o = &ops[tid][i];
        if( i > 0 && controlled ) vs_yield();          /* operation boundary = yield point */
        switch( o->kind ) {
        case OP_CREATE:
            vt_ev("\"e\":\"inv\",\"t\":%d,\"op\":\"create\",\"k\":%d,\"n\":0", tid + 1, o->k);
            in_create = 1; hash_calls = 0;
            found = (NULL != data_repo_lookup_entry_and_create(es[tid], repo, (parsec_key_t)o->k));
            in_create = 0;
            vt_ev("\"e\":\"res\",\"t\":%d,\"op\":\"create\",\"k\":%d,\"found\":%d", tid + 1, o->k, found);
            __sync_synchronize();
            created[o->c] = 1;
            break;
        case OP_ADDLIMIT:
            vt_ev("\"e\":\"inv\",\"t\":%d,\"op\":\"addlimit\",\"k\":%d,\"n\":%d", tid + 1, o->k, o->n);
            data_repo_entry_addto_usage_limit(repo, (parsec_key_t)o->k, (uint32_t)o->n);
            vt_ev("\"e\":\"res\",\"t\":%d,\"op\":\"addlimit\",\"k\":%d,\"found\":0", tid + 1, o->k);
            break;
        case OP_USE:
            while( !created[o->c] ) { if( controlled ) vs_point(PARSEC_VERIF_K_SPIN, &created[o->c]); else sched_yield(); }
            vt_ev("\"e\":\"inv\",\"t\":%d,\"op\":\"use\",\"k\":%d,\"n\":0", tid + 1, o->k);
            data_repo_entry_used_once(repo, (parsec_key_t)o->k);
            vt_ev("\"e\":\"res\",\"t\":%d,\"op\":\"use\",\"k\":%d,\"found\":0", tid + 1, o->k);
            break;
        case OP_LOOKUP:
            vt_ev("\"e\":\"inv\",\"t\":%d,\"op\":\"lookup\",\"k\":%d,\"n\":0", tid + 1, o->k);
            found = present(o->k);
            vt_ev("\"e\":\"res\",\"t\":%d,\"op\":\"lookup\",\"k\":%d,\"found\":%d", tid + 1, o->k, found);
            seen[tid][nseen[tid]++] = found;
            break;
        }
    }
}

static FILE *meta;
static long nexec = 0;

static void finish_execution(vs_run_t *r)
{
    int i, t, k, first = 1;
    if( nexec++ ) vt_reset_marker();
    vt_dump();
    if( r && r->deadlock ) vt_raw("{\"e\":\"Timeout\"}");
    else {
        char buf[64]; int n = 0;
        buf[0] = 0;
        for( k = 1; k <= MAXKEY; k++ ) if( present(k) ) { n += snprintf(buf + n, sizeof(buf) - n, "%s%d", first ? "" : ",", k); first = 0; }
        vt_raw("{\"e\":\"end\",\"present\":[%s]}", buf);
    }
    fprintf(meta, "{\"sched\":\"");
    if( r ) for( i = 0; i < r->nsteps; i++ ) fputc('0' + r->who[i], meta);
    fprintf(meta, "\",\"deadlock\":%d,\"present\":[", r ? r->deadlock : 0);
    for( k = 1; k <= MAXKEY; k++ ) fprintf(meta, "%s%d", k > 1 ? "," : "", present(k));
    fprintf(meta, "],\"rec\":[");
    for( k = 1; k <= MAXKEY; k++ ) fprintf(meta, "%s%d", k > 1 ? "," : "", nreclaim[k]);
    fprintf(meta, "],\"seen\":[");
    for( t = 0; t < nthreads; t++ ) {
        fprintf(meta, "%s[", t ? "," : "");
        for( i = 0; i < nseen[t]; i++ ) fprintf(meta, "%s%d", i ? "," : "", seen[t][i]);
        fputc(']', meta);
    }
    fprintf(meta, "]}\n");
}

static int once(void *ctx, const unsigned char *sched, int slen, vs_run_t *r)
{
    (void)ctx;
    setup();
    vs_run(r, nthreads, body, NULL, sched, slen, 3000);
    finish_execution(r);
    if( r->deadlock ) { fflush(meta); vt_close(); _exit(0); }
    teardown();
    return 0;
}

static pthread_barrier_t gate;
static long stress_runs;
static void *stress_thread(void *p)
{
    long k;
    for( k = 0; k < stress_runs; k++ ) {
        pthread_barrier_wait(&gate);
        body((int)(intptr_t)p, NULL);
        pthread_barrier_wait(&gate);
    }
    return NULL;
}

int main(int argc, char **argv)
{
    int t;
    if( argc < 6 ) die("usage");
    parse_scenario(argv[2]);
    vt_init(1 << 12);
    if( vt_open(argv[4]) ) die("cannot open trace output");
    meta = fopen(argv[5], "w");
    if( !meta ) die("cannot open meta output");
    parsec_mempool_construct(&mempool, NULL, sizeof(data_repo_entry_t), offsetof(data_repo_entry_t, data_repo_mempool_owner),
                             (unsigned int)nthreads);
    for( t = 0; t < nthreads; t++ ) {
        es[t] = (parsec_execution_stream_t*)calloc(1, sizeof(parsec_execution_stream_t));
        es[t]->th_id = t;
        es[t]->datarepo_mempools[1] = &mempool.thread_mempools[t];
    }
    parsec_verif_event_fn = on_event;
    if( !strcmp(argv[1], "replay") ) {
        FILE *sf = fopen(argv[3], "r");
        static char line[VS_MAXSTEPS + 2];
        static vs_run_t r;
        if( !sf ) die("cannot open schedules");
        vs_install();
        parsec_verif_point_fn = NULL;               /* only the harness' own yield points (see the header comment) */
        while( fgets(line, sizeof(line), sf) ) {
            static unsigned char sched[VS_MAXSTEPS]; int n = 0; char *p;
            for( p = line; *p && n < VS_MAXSTEPS; p++ ) if( isdigit((unsigned char)*p) ) sched[n++] = (unsigned char)(*p - '0');
            once(NULL, sched, n, &r);
        }
        fclose(sf);
    } else if( !strcmp(argv[1], "explore") ) {
        long n;
        vs_install();
        parsec_verif_point_fn = NULL;
        n = vs_explore(once, NULL, atol(argv[3]));
        fprintf(meta, "{\"explored\":%ld,\"exhaustive\":%s}\n", n < 0 ? -n : n, n < 0 ? "false" : "true");
    } else if( !strcmp(argv[1], "stress") ) {
        long k;
        pthread_t th[VS_MAXT];
        stress_runs = atol(argv[3]);
        controlled = 0;
        pthread_barrier_init(&gate, NULL, (unsigned)nthreads + 1);
        for( t = 0; t < nthreads; t++ ) pthread_create(&th[t], NULL, stress_thread, (void*)(intptr_t)t);
        for( k = 0; k < stress_runs; k++ ) {
            setup();
            pthread_barrier_wait(&gate);
            pthread_barrier_wait(&gate);
            finish_execution(NULL);
            teardown();
        }
        for( t = 0; t < nthreads; t++ ) pthread_join(th[t], NULL);
    } else die("bad mode");
    fclose(meta);
    vt_close();
    return 0;
}
