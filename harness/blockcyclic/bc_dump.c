/* C20 harness: instantiates a data distribution of parsec/data_dist/matrix once per `myrank` (all in this one
 * process: the init functions take the rank and grid as plain arguments) and dumps, for every rank's view, the
 * complete ownership / storage / key tables obtained through the data collection's function pointers
 * (rank_of, rank_of_key, data_key, data_of, data_of_key, vpid_of).  Validated by spec/Dist/BlockCyclicTrace.tla.
 *
 *   bc_dump <configs.txt> <trace.ndjson>
 * configs.txt: one configuration per line, "key=value" tokens:
 *   kind=2dbc|kview|sym|band|tabular|vector st=tile|lapack mb nb lm ln i j m n P Q kp kq ip jq uplo=lower|upper
 *   band=<band size> bP=<rows of the band's grid> seed=<tabular table seed> dist=row|col|diag
 * Per configuration:  {"e":"config",...parameters...}  then one {"e":"view","rank":r,...} per rank, then {"e":"end"}.
 * A view lists every tile of the (sub)matrix:
 *   m,n     tile coordinates in the submatrix
 *   o       rank_of(m,n) seen from this rank       ok   rank_of_key(data_key(m,n))   (-1: collection has no *_of_key)
 *   key     data_key(m,n)                          km,kn  coordinates obtained back from the key
 * and for the tiles this rank owns (o == rank) additionally
 *   slot    index of the tile's parsec_data_t in the local data_map (storage slot)
 *   off,ld,r,c  footprint of the tile in local memory, in elements: r rows x c columns, leading dimension ld, starting
 *           off elements after the beginning of the local storage
 *   dkey    key stored in the parsec_data_t (-1: names a tile of an underlying collection: views, band)
 *   dself   1 iff data_of_key(stored key) on the collection recorded in the parsec_data_t returns the same object
 *   bykey   1 iff data_of_key(data_key(m,n)) returns the same object as data_of(m,n) (-1: no data_of_key)
 *   vp      vpid_of(m,n)
 */
#include "parsec/parsec_config.h"
#include "parsec/runtime.h"
#include "parsec/data_internal.h"
#include "parsec/data_dist/matrix/matrix.h"
#include "parsec/data_dist/matrix/two_dim_rectangle_cyclic.h"
#include "parsec/data_dist/matrix/sym_two_dim_rectangle_cyclic.h"
#include "parsec/data_dist/matrix/two_dim_rectangle_cyclic_band.h"
#include "parsec/data_dist/matrix/two_dim_tabular.h"
#include "parsec/data_dist/matrix/vector_two_dim_cyclic.h"
#include "parsec/vpmap.h"
#include <mpi.h>
#include <stdio.h>
#include <stdlib.h>
#include <string.h>
#include <stdint.h>

typedef struct {
    char kind[16], st[16], uplo[16], dist[16];
    int mb, nb, lm, ln, i, j, m, n, P, Q, kp, kq, ip, jq, band, bP, seed;
} cfg_t;

static FILE *out;
#define MTYPE PARSEC_MATRIX_INTEGER
#define ESZ ((long)sizeof(int))
#define SLACK 4096      /* extra data_map entries so that an out-of-range slot is observed instead of corrupting the heap */

static int geti(const char *line, const char *key, int dflt)
{
    char pat[32]; const char *p;
    snprintf(pat, sizeof(pat), " %s=", key);
    p = strstr(line, pat);
    return p ? atoi(p + strlen(pat)) : dflt;
}
static void gets_(const char *line, const char *key, char *dst, const char *dflt)
{
    char pat[32]; const char *p;
    snprintf(pat, sizeof(pat), " %s=", key);
    p = strstr(line, pat);
    if( !p ) { strcpy(dst, dflt); return; }
    p += strlen(pat);
    int k = 0;
    while( *p && *p != ' ' && *p != '\n' && k < 15 ) dst[k++] = *p++;
    dst[k] = 0;
}

/* enlarge (zero-filled) the data_map of a tiled matrix; returns the number of entries now available */
static int grow_map(parsec_tiled_matrix_t *t)
{
    int n = t->nb_local_tiles < 0 ? 0 : t->nb_local_tiles;
    parsec_data_t **nm = (parsec_data_t**)calloc((size_t)n + SLACK, sizeof(parsec_data_t*));
    free(t->data_map);
    t->data_map = nm;
    return n + SLACK;
}
static int find_slot(parsec_tiled_matrix_t *t, int cap, parsec_data_t *d)
{
    for( int k = 0; k < cap; k++ ) if( t->data_map[k] == d ) return k;
    return -1;
}


/* Tabular: every local tile is a separate allocation.  Their addresses are mapped to compact element offsets that
 * preserve exactly which tiles overlap: pointers are sorted, the gap between consecutive ones is kept when smaller
 * than a tile and clipped to one tile otherwise (numbers stay small for TLC). */
static uintptr_t *tab_ptr = NULL; static long *tab_off = NULL; static int tab_n = 0;
static int cmp_ptr(const void *a, const void *b) { uintptr_t x = *(uintptr_t*)a, y = *(uintptr_t*)b; return x < y ? -1 : x > y; }
static long tab_prepare(parsec_matrix_tabular_t *t, int rank)
{
    int k; long bs = (long)t->super.bsiz;
    free(tab_ptr); free(tab_off); tab_n = 0;
    tab_ptr = (uintptr_t*)calloc((size_t)t->tiles_table->nbelem + 1, sizeof(uintptr_t));
    tab_off = (long*)calloc((size_t)t->tiles_table->nbelem + 1, sizeof(long));
    for( k = 0; k < t->tiles_table->nbelem; k++ )
        if( t->tiles_table->elems[k].rank == rank && NULL != t->tiles_table->elems[k].data )
            tab_ptr[tab_n++] = (uintptr_t)t->tiles_table->elems[k].data;
    qsort(tab_ptr, (size_t)tab_n, sizeof(uintptr_t), cmp_ptr);
    for( k = 1; k < tab_n; k++ ) {
        long gap = (long)((tab_ptr[k] - tab_ptr[k-1]) / ESZ);
        tab_off[k] = tab_off[k-1] + (gap < bs ? gap : bs);
    }
    return tab_n ? tab_off[tab_n-1] + bs : 0;      /* span of the compact layout */
}

typedef struct {
    parsec_data_collection_t *dc;       /* the collection under test */
    parsec_tiled_matrix_t *tm;
    /* storage areas: up to 2 (band: off-band then band) */
    parsec_tiled_matrix_t *area_tm[2];
    char *area_mat[2];
    long  area_cap[2];                  /* elements */
    int   area_map[2];                  /* data_map capacity */
    int   nareas;
    int   lapack;
    int   stored_key_is_own;            /* the parsec_data_t key is expressed in this collection's coordinates */
    int   is_vector, is_tabular, is_sym, sym_lower;
} view_t;


static long tab_offset(view_t *v, char *ptr)
{
    (void)v;
    for( int k = 0; k < tab_n; k++ ) if( tab_ptr[k] == (uintptr_t)ptr ) return tab_off[k];
    return -1;     /* not one of the tiles the table allocated for this rank */
}

static void dump_view(const cfg_t *c, view_t *v, int rank, int nodes)
{
    parsec_data_collection_t *dc = v->dc;
    parsec_tiled_matrix_t *tm = v->tm;
    int m, n, first = 1, nlt = 0, a;
    long cap = 0;
    for( a = 0; a < v->nareas; a++ ) { nlt += v->area_tm[a]->nb_local_tiles; cap += v->area_cap[a]; }
    fprintf(out, "{\"e\":\"view\",\"rank\":%d,\"nodes\":%d,\"mt\":%d,\"nt\":%d,\"nlt\":%d,\"cap\":%ld,\"nvp\":%d,\"tiles\":[",
            rank, nodes, tm->mt, tm->nt, nlt, cap, parsec_vpmap_get_nb_vp());
    for( n = 0; n < tm->nt; n++ ) for( m = 0; m < tm->mt; m++ ) {
        int gm = m + tm->i / tm->mb, gn = n + tm->j / tm->nb;
        if( v->is_sym && ((v->sym_lower && gm < gn) || (!v->sym_lower && gm > gn)) ) continue;   /* not stored */
        uint32_t o = v->is_vector ? dc->rank_of(dc, m) : dc->rank_of(dc, m, n);
        parsec_data_key_t key = dc->data_key(dc, m, n);
        long ok = -1; int km, kn;
        if( NULL != dc->rank_of_key ) ok = (long)dc->rank_of_key(dc, key);
        /* coordinates back from the key: the collection's own key layout (n*lmt + m in the stored matrix) */
        if( !v->is_vector && !v->is_tabular && !v->is_sym )
            parsec_matrix_block_cyclic_key2coords(dc, key, &km, &kn);
        else { km = (int)(key % tm->lmt) - tm->i / tm->mb; kn = (int)(key / tm->lmt) - tm->j / tm->nb; }
        fprintf(out, "%s{\"m\":%d,\"n\":%d,\"o\":%ld,\"ok\":%ld,\"key\":%ld,\"km\":%d,\"kn\":%d", first ? "" : ",", m, n,
                (long)(int32_t)o, ok, (long)key, km, kn);
        first = 0;
        if( (int)o == rank ) {
            parsec_data_t *d = v->is_vector ? dc->data_of(dc, m) : dc->data_of(dc, m, n);
            int slot = -1, base_slot = 0; long off = -1, base_off = 0;
            char *ptr = (char*)d->device_copies[0]->device_private;
            for( a = 0; a < v->nareas; a++ ) {
                int s = find_slot(v->area_tm[a], v->area_map[a], d);
                if( s >= 0 ) {
                    slot = base_slot + s;
                    if( v->is_tabular ) {
                        off = tab_offset(v, ptr);
                    } else {
                        off = base_off + (long)(ptr - v->area_mat[a]) / ESZ;
                    }
                    break;
                }
                base_slot += v->area_tm[a]->nb_local_tiles;
                base_off += v->area_cap[a];
            }
            int ld, r, cc;
            if( v->lapack ) {
                ld = tm->llm;
                r = (gm + 1) * tm->mb <= tm->lm ? tm->mb : tm->lm - gm * tm->mb;
                cc = (gn + 1) * tm->nb <= tm->ln ? tm->nb : tm->ln - gn * tm->nb;
            } else { ld = tm->mb; r = tm->mb; cc = tm->nb; }
            long dkey = (1 == v->stored_key_is_own) ? (long)d->key : -1;
            int dself = -1, bykey = -1;
            if( NULL != d->dc && NULL != d->dc->data_of_key && v->stored_key_is_own != 2 )
                dself = (d->dc->data_of_key(d->dc, d->key) == d);
            if( NULL != dc->data_of_key ) bykey = (dc->data_of_key(dc, key) == d);
            int vp = v->is_vector ? dc->vpid_of(dc, m) : dc->vpid_of(dc, m, n);
            fprintf(out, ",\"slot\":%d,\"off\":%ld,\"ld\":%d,\"r\":%d,\"c\":%d,\"dkey\":%ld,\"dself\":%d,\"bykey\":%d,\"vp\":%d",
                    slot, off, ld, r, cc, dkey, dself, bykey, vp);
        }
        fprintf(out, "}");
    }
    fprintf(out, "]}\n");
}

/* storage for a block-cyclic matrix as the tests/applications allocate it */
static char *alloc_2dbc(parsec_matrix_block_cyclic_t *d, long *cap)
{
    if( PARSEC_MATRIX_LAPACK == d->super.storage ) *cap = (long)d->super.llm * d->super.lln;
    else *cap = (long)d->super.nb_local_tiles * (long)d->super.bsiz;
    return (char*)calloc((size_t)(*cap) + 1, ESZ);
}

static void one_rank(const cfg_t *c, int rank, int nodes)
{
    view_t v; memset(&v, 0, sizeof(v));
    parsec_matrix_storage_t st = !strcmp(c->st, "lapack") ? PARSEC_MATRIX_LAPACK : PARSEC_MATRIX_TILE;
    v.lapack = (PARSEC_MATRIX_LAPACK == st);
    v.stored_key_is_own = 1;
    if( !strcmp(c->kind, "2dbc") || !strcmp(c->kind, "kview") ) {
        parsec_matrix_block_cyclic_t A, V;
        int isview = !strcmp(c->kind, "kview");
        parsec_matrix_block_cyclic_init(&A, MTYPE, st, rank, c->mb, c->nb, c->lm, c->ln, c->i, c->j, c->m, c->n,
                                        c->P, c->Q, isview ? 1 : c->kp, isview ? 1 : c->kq, c->ip, c->jq);
        v.area_map[0] = grow_map(&A.super);
        A.mat = alloc_2dbc(&A, &v.area_cap[0]);
        v.area_mat[0] = (char*)A.mat; v.nareas = 1;
        if( isview ) {
            parsec_matrix_block_cyclic_kview(&V, &A, c->kp, c->kq);
            v.dc = &V.super.super; v.tm = &V.super; v.area_tm[0] = &V.super;
            v.stored_key_is_own = 2;      /* stored keys name tiles of the origin */
        } else {
            v.dc = &A.super.super; v.tm = &A.super; v.area_tm[0] = &A.super;
        }
        dump_view(c, &v, rank, nodes);
        free(A.mat);
        parsec_tiled_matrix_destroy(&A.super);
    } else if( !strcmp(c->kind, "sym") ) {
        parsec_matrix_sym_block_cyclic_t A;
        int lower = strcmp(c->uplo, "upper") != 0;
        parsec_matrix_sym_block_cyclic_init(&A, MTYPE, rank, c->mb, c->nb, c->lm, c->ln, c->i, c->j, c->m, c->n,
                                            c->P, c->Q, lower ? PARSEC_MATRIX_LOWER : PARSEC_MATRIX_UPPER);
        v.area_map[0] = grow_map(&A.super);
        v.area_cap[0] = (long)A.super.nb_local_tiles * (long)A.super.bsiz;
        A.mat = calloc((size_t)v.area_cap[0] + 1, ESZ);
        v.area_mat[0] = (char*)A.mat; v.nareas = 1; v.area_tm[0] = &A.super;
        v.dc = &A.super.super; v.tm = &A.super; v.is_sym = 1; v.sym_lower = lower;
        dump_view(c, &v, rank, nodes);
        free(A.mat);
        parsec_tiled_matrix_destroy(&A.super);
    } else if( !strcmp(c->kind, "band") ) {
        parsec_matrix_block_cyclic_band_t B;
        /* as tests/collections/two_dim_band: off-band = the whole matrix, band = (2*band-1) rows of tiles */
        parsec_matrix_block_cyclic_init(&B.off_band, MTYPE, PARSEC_MATRIX_TILE, rank, c->mb, c->nb, c->lm, c->ln, 0, 0,
                                        c->lm, c->ln, c->P, c->Q, c->kp, c->kq, 0, 0);
        parsec_matrix_block_cyclic_init(&B.band, MTYPE, PARSEC_MATRIX_TILE, rank, c->mb, c->nb,
                                        c->mb * (2 * c->band - 1), c->ln, 0, 0, c->mb * (2 * c->band - 1), c->ln,
                                        c->bP, nodes / c->bP, 1, 1, 0, 0);
        parsec_matrix_block_cyclic_band_init(&B, nodes, rank, c->band);
        v.area_map[0] = grow_map(&B.off_band.super);
        v.area_map[1] = grow_map(&B.band.super);
        B.off_band.mat = alloc_2dbc(&B.off_band, &v.area_cap[0]);
        B.band.mat = alloc_2dbc(&B.band, &v.area_cap[1]);
        v.area_mat[0] = (char*)B.off_band.mat; v.area_mat[1] = (char*)B.band.mat;
        v.area_tm[0] = &B.off_band.super; v.area_tm[1] = &B.band.super; v.nareas = 2;
        v.dc = &B.super.super; v.tm = &B.super;
        v.stored_key_is_own = 0;          /* stored keys name tiles of the band / off-band collections */
        dump_view(c, &v, rank, nodes);
        free(B.off_band.mat); free(B.band.mat);
        parsec_tiled_matrix_destroy(&B.band.super);
        parsec_tiled_matrix_destroy(&B.off_band.super);
        parsec_tiled_matrix_destroy(&B.super);
    } else if( !strcmp(c->kind, "tabular") ) {
        parsec_matrix_tabular_t T;
        parsec_matrix_tabular_init(&T, MTYPE, nodes, rank, c->mb, c->nb, c->lm, c->ln, c->i, c->j, c->m, c->n, NULL);
        parsec_matrix_tabular_set_random_table(&T, (unsigned int)c->seed);
        v.area_map[0] = grow_map(&T.super);
        v.area_cap[0] = tab_prepare(&T, rank);
        v.area_tm[0] = &T.super; v.nareas = 1; v.is_tabular = 1;
        v.dc = &T.super.super; v.tm = &T.super;
        dump_view(c, &v, rank, nodes);
        parsec_matrix_tabular_destroy(&T);
    } else if( !strcmp(c->kind, "vector") ) {
        parsec_vector_two_dim_cyclic_t V;
        enum parsec_vector_two_dim_cyclic_distrib_t ds = !strcmp(c->dist, "row") ? PARSEC_VECTOR_DISTRIB_ROW :
            (!strcmp(c->dist, "col") ? PARSEC_VECTOR_DISTRIB_COL : PARSEC_VECTOR_DISTRIB_DIAG);
        parsec_vector_two_dim_cyclic_init(&V, MTYPE, ds, rank, c->mb, c->lm, c->i, c->m, c->P, c->Q);
        v.area_map[0] = grow_map(&V.super);
        v.area_cap[0] = (long)V.super.nb_local_tiles * (long)V.super.bsiz;
        V.mat = calloc((size_t)v.area_cap[0] + 1, ESZ);
        v.area_mat[0] = (char*)V.mat; v.area_tm[0] = &V.super; v.nareas = 1; v.is_vector = 1;
        v.dc = &V.super.super; v.tm = &V.super;
        dump_view(c, &v, rank, nodes);
        free(V.mat);
        parsec_tiled_matrix_destroy(&V.super);
    }
}

int main(int argc, char **argv)
{
    int prov, nexec = 0, pargc = 1;
    char *line = NULL; size_t lcap = 0;
    char *pargv[2] = { argv[0], NULL }, **ppargv = pargv;
    FILE *in;
    if( argc < 3 ) return 3;
    MPI_Init_thread(&argc, &argv, MPI_THREAD_MULTIPLE, &prov);
    /* the number of virtual processes (vpid_of) comes from the runtime's vpmap: needs parsec_init */
    parsec_context_t *ctx = parsec_init(argc > 3 ? atoi(argv[3]) : 1, &pargc, &ppargv);
    if( NULL == ctx ) return 4;
    in = fopen(argv[1], "r"); out = fopen(argv[2], "w");
    if( !in || !out ) return 3;
    while( getline(&line, &lcap, in) > 0 ) {
        cfg_t c; memset(&c, 0, sizeof(c));
        char buf[1024];
        snprintf(buf, sizeof(buf), " %s", line);
        gets_(buf, "kind", c.kind, ""); gets_(buf, "st", c.st, "tile"); gets_(buf, "uplo", c.uplo, "lower");
        gets_(buf, "dist", c.dist, "diag");
        if( !c.kind[0] ) continue;
        c.mb = geti(buf, "mb", 1); c.nb = geti(buf, "nb", 1); c.lm = geti(buf, "lm", 1); c.ln = geti(buf, "ln", 1);
        c.i = geti(buf, "i", 0); c.j = geti(buf, "j", 0); c.m = geti(buf, "m", c.lm); c.n = geti(buf, "n", c.ln);
        c.P = geti(buf, "P", 1); c.Q = geti(buf, "Q", 1); c.kp = geti(buf, "kp", 1); c.kq = geti(buf, "kq", 1);
        c.ip = geti(buf, "ip", 0); c.jq = geti(buf, "jq", 0); c.band = geti(buf, "band", 1); c.bP = geti(buf, "bP", 1);
        c.seed = geti(buf, "seed", 1);
        int nodes = c.P * c.Q, r;
        if( nexec++ ) fprintf(out, "{\"e\":\"Reset\"}\n");
        fprintf(out, "{\"e\":\"config\",\"kind\":\"%s\",\"st\":\"%s\",\"uplo\":\"%s\",\"dist\":\"%s\",\"mb\":%d,\"nb\":%d,\"lm\":%d,"
                "\"ln\":%d,\"i\":%d,\"j\":%d,\"m\":%d,\"n\":%d,\"P\":%d,\"Q\":%d,\"kp\":%d,\"kq\":%d,\"ip\":%d,\"jq\":%d,"
                "\"band\":%d,\"bP\":%d,\"seed\":%d,\"nodes\":%d}\n", c.kind, c.st, c.uplo, c.dist, c.mb, c.nb, c.lm, c.ln,
                c.i, c.j, c.m, c.n, c.P, c.Q, c.kp, c.kq, c.ip, c.jq, c.band, c.bP, c.seed, nodes);
        fflush(out);
        for( r = 0; r < nodes; r++ ) { one_rank(&c, r, nodes); fflush(out); }
        fprintf(out, "{\"e\":\"end\"}\n");
        fflush(out);
    }
    fclose(out);
    parsec_fini(&ctx);
    MPI_Finalize();
    return 0;
}
