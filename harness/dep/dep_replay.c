/* C07 harness: drives the real parsec_update_deps_with_counter / parsec_update_deps_with_mask on one
 * dependency word of a test-owned task class, along TLC-generated schedules (mode replay), over every
 * interleaving at yield-point granularity (mode explore), or free-running (mode stress); records an
 * inv/res history as ndjson for validation by spec/Dep/ReadyTrace.tla.
 *
 *   dep_replay replay  <scenario> <schedules> <trace.ndjson> <meta.ndjson>
 *   dep_replay explore <scenario> <limit>     <trace.ndjson> <meta.ndjson>
 *   dep_replay stress  <scenario> <runs>      <trace.ndjson> <meta.ndjson> <seed>
 *   dep_replay perms   <scenario> <limit>     <trace.ndjson> <meta.ndjson>     every order of the ops, one thread
 *
 * scenario file:   mode counter|mask / k <instance> / flows F F ... / need N / threads T / t <tid> f:i f:i ...
 *   flow F = D:<dep>,<dep>,... (data flow) or K:<dep>,... (control flow): the `<-` lines of the flow IN ORDER,
 *   turned into parsec_flow_t.dep_in[] / parsec_dep_t the way parsec-ptgpp does (jdf2c.c):
 *     dep = <guard><source>[n]
 *     guard   -  no guard (cond = NULL)     1 / 0  expression that is true / false
 *             p / z  expression over the parameter of the instance: k > 0 / k == 0   (task.locals[0].value = k)
 *     source  t  a predecessor task (task_class_id of that class)
 *             c  data collection, n  NEW, u  NULL  (all three: PARSEC_LOCAL_DATA_TASK_CLASS_ID)
 *     n       control gather of n controls (ctl_gather_nb; counter mode only)
 *   `D:` without dep = WRITE flow typed by `<- NEW` (no dep_in, PARSEC_FLOW_HAS_IN_DEPS)
 *   e.g.  RW A <- (k > 0) ? A T(k-1)         D:pt,-c         A <- c ? A T(..) : dataA(..)   D:1t,0c  (c true)
 *              <- dataA(k)
 *   op f:i = release input number i (1..N), which belongs to flow f (1-based index in `flows`)
 */
#include "parsec/parsec_config.h"
#include "parsec/parsec_internal.h"
#include "parsec/interfaces/interface.h"
#include <stdio.h>
#include <stdlib.h>
#include <string.h>
#include <ctype.h>
#include "vtrace.h"
#include "vsched.h"

#define MAXF 19    /* MAX_PARAM_COUNT - 1 */
#define MAXD 8     /* <= MAX_DEP_IN_COUNT */
#define MAXOPS 16
#define MAXTHR 16
typedef struct { int f; int i; } op_t;

static int use_mask, nflows, need, nthreads, nops[MAXTHR], instance_k = 1;
static char kinds[MAXF][64];
static op_t ops[MAXTHR][MAXOPS];
static int results[MAXTHR][MAXOPS];
static int controlled = 1;

/* ---- the test-owned task class ------------------------------------------------------------------- */
static parsec_taskpool_t tp;
static parsec_task_class_t tc;
static parsec_task_t task;
static parsec_flow_t flows[MAXF];
static parsec_dep_t deps_in[MAXF][MAXD];
#define NINST 32                 /* task instances (dependency words) per round in stress mode */
static parsec_dependency_t depwords[NINST] __attribute__((aligned(64)));
#define depword depwords[0]
static volatile int arrived[NINST];

static int32_t fn_true(const parsec_taskpool_t *p, const parsec_assignment_t *l) { (void)p; (void)l; return 1; }
static int32_t fn_false(const parsec_taskpool_t *p, const parsec_assignment_t *l) { (void)p; (void)l; return 0; }
static int32_t fn_kpos(const parsec_taskpool_t *p, const parsec_assignment_t *l) { (void)p; return l[0].value > 0; }
static int32_t fn_kzero(const parsec_taskpool_t *p, const parsec_assignment_t *l) { (void)p; return l[0].value == 0; }
#define GFN(k) static int32_t fn_g##k(const parsec_taskpool_t *p, const parsec_assignment_t *l) { (void)p; (void)l; return k; }
GFN(1) GFN(2) GFN(3) GFN(4) GFN(5) GFN(6) GFN(7) GFN(8) GFN(9) GFN(10) GFN(11) GFN(12) GFN(13) GFN(14) GFN(15) GFN(16)
static parsec_expr_op_int32_inline_func_t gfns[17] = { NULL, fn_g1, fn_g2, fn_g3, fn_g4, fn_g5, fn_g6, fn_g7, fn_g8,
                                                       fn_g9, fn_g10, fn_g11, fn_g12, fn_g13, fn_g14, fn_g15, fn_g16 };
static parsec_expr_t expr_true, expr_false, expr_kpos, expr_kzero, expr_g[17];

static void die(const char *m) { fprintf(stderr, "dep_replay: %s\n", m); exit(3); }

static void mk_inline(parsec_expr_t *e, parsec_expr_op_int32_inline_func_t fn)
{
    memset(e, 0, sizeof(*e));
    e->op = PARSEC_EXPR_OP_INLINE;
    e->u_expr.v_func.type = PARSEC_RETURN_TYPE_INT32;
    e->u_expr.v_func.func.inline_func_int32 = fn;
}

static void build_task_class(void)
{
    int f, k, has_in_in = 0, has_gather = 0;
    mk_inline(&expr_true, fn_true);
    mk_inline(&expr_false, fn_false);
    mk_inline(&expr_kpos, fn_kpos);
    mk_inline(&expr_kzero, fn_kzero);
    for( k = 1; k <= 16; k++ ) mk_inline(&expr_g[k], gfns[k]);
    memset(&tc, 0, sizeof(tc));
    memset(flows, 0, sizeof(flows));
    memset(deps_in, 0, sizeof(deps_in));
    tc.name = "VERIF";
    tc.task_class_id = 0;
    tc.nb_flows = (uint8_t)nflows;
    tc.nb_parameters = 1;
    tc.nb_locals = 1;
    for( f = 0; f < nflows; f++ ) {
        parsec_flow_t *fl = &flows[f];
        const char *kd = kinds[f], *p;
        int ctl = (kd[0] == 'K'), nd = 0, in_deps = 0;
        if( (kd[0] != 'D' && kd[0] != 'K') || kd[1] != ':' ) die("bad flow");
        fl->name = kinds[f];
        fl->flow_index = (uint8_t)f;
        fl->sym_type = PARSEC_SYM_IN;
        for( p = kd + 2; *p; ) {
            parsec_dep_t *d;
            if( nd >= MAXD || nd >= MAX_DEP_IN_COUNT ) die("too many input deps");
            d = &deps_in[f][nd];
            d->belongs_to = fl;
            d->dep_index = (uint8_t)nd;
            switch( *p++ ) {                                  /* guard: jdf2c.c jdf_generate_dataflow, .cond */
            case '-': d->cond = NULL; break;
            case '1': d->cond = &expr_true; break;
            case '0': d->cond = &expr_false; break;
            case 'p': d->cond = &expr_kpos; break;
            case 'z': d->cond = &expr_kzero; break;
            default: die("bad guard");
            }
            if( ctl && NULL != d->cond ) in_deps = 1;         /* control flow: JDF_GUARD_BINARY => HAS_IN_DEPS */
            switch( *p++ ) {                                  /* source: jdf_generate_dependency, .task_class_id */
            case 't': d->task_class_id = 1; d->flow = fl; break;         /* "another task class" */
            case 'c': case 'n': case 'u':                     /* NULL == call->var: memory reference, NEW, NULL */
                if( ctl ) die("control flows come from tasks");
                d->task_class_id = PARSEC_LOCAL_DATA_TASK_CLASS_ID;
                in_deps = 1;                                  /* data flow: a dep that is not a task => HAS_IN_DEPS */
                break;
            default: die("bad source");
            }
            if( isdigit((unsigned char)*p) ) {
                k = (int)strtol(p, (char**)&p, 10);
                if( !ctl || k < 1 || k > 16 || use_mask ) die("bad gather");
                d->ctl_gather_nb = &expr_g[k];
                has_gather = 1;
            }
            fl->dep_in[nd++] = d;
            if( *p == ',' ) p++; else if( *p ) die("bad dep list");
        }
        if( ctl ) {
            if( 0 == nd ) die("control flow without dep");
            fl->flow_flags = PARSEC_FLOW_ACCESS_NONE;
        } else if( 0 == nd ) {                                /* WRITE flow, `<- NEW` only declares the type */
            fl->flow_flags = PARSEC_FLOW_ACCESS_WRITE;
            in_deps = 1;
        } else {
            fl->flow_flags = PARSEC_FLOW_ACCESS_READ;
        }
        if( in_deps ) { fl->flow_flags |= PARSEC_FLOW_HAS_IN_DEPS; has_in_in = 1; }
        tc.in[f] = fl;
    }
    tc.in[nflows] = NULL;
    tc.flags = (uint16_t)((has_in_in ? PARSEC_HAS_IN_IN_DEPENDENCIES : 0) |
                          (has_gather ? PARSEC_HAS_CTL_GATHER : 0) |
                          (use_mask ? PARSEC_USE_DEPS_MASK : 0));
    /* ptgpp: mask of the flows having an input dependency / their number */
    tc.dependencies_goal = use_mask ? (parsec_dependency_t)((1u << nflows) - 1) : (parsec_dependency_t)nflows;
    tc.update_deps = use_mask ? parsec_update_deps_with_mask : parsec_update_deps_with_counter;
    memset(&task, 0, sizeof(task));
    task.taskpool = &tp;
    task.task_class = &tc;
    task.locals[0].value = instance_k;
}

static void parse_scenario(const char *path)
{
    FILE *f = fopen(path, "r");
    char line[2048];
    if( !f ) die("cannot open scenario");
    while( fgets(line, sizeof(line), f) ) {
        char *tok = strtok(line, " \t\n");
        if( !tok ) continue;
        if( !strcmp(tok, "mode") ) use_mask = !strcmp(strtok(NULL, " \t\n"), "mask");
        else if( !strcmp(tok, "need") ) need = atoi(strtok(NULL, " \t\n"));
        else if( !strcmp(tok, "k") ) instance_k = atoi(strtok(NULL, " \t\n"));
        else if( !strcmp(tok, "threads") ) nthreads = atoi(strtok(NULL, " \t\n"));
        else if( !strcmp(tok, "flows") ) {
            while( (tok = strtok(NULL, " \t\n")) ) {
                if( nflows >= MAXF ) die("too many flows");
                if( strlen(tok) >= sizeof(kinds[0]) ) die("flow too long");
                strcpy(kinds[nflows++], tok);
            }
        } else if( !strcmp(tok, "t") ) {
            int t = atoi(strtok(NULL, " \t\n"));
            if( t < 0 || t >= MAXTHR ) die("bad thread");
            while( (tok = strtok(NULL, " \t\n")) ) {
                op_t *o = &ops[t][nops[t]++];
                if( 2 != sscanf(tok, "%d:%d", &o->f, &o->i) ) die("bad op");
                if( o->f < 1 || o->f > nflows ) die("bad flow index");
            }
        }
    }
    fclose(f);
    if( nthreads > MAXTHR || nthreads < 1 ) die("bad thread count");
}

static void setup(void)
{
    memset((void*)depwords, 0, sizeof(depwords));
    memset((void*)arrived, 0, sizeof(arrived));
    memset(results, 0, sizeof(results));
}

static void body(int tid, void *arg)
{
    int k;
    (void)arg;
    for( k = 0; k < nops[tid]; k++ ) {
        op_t *o = &ops[tid][k];
        int r;
        if( k > 0 && controlled ) vs_yield();          /* operation boundary = yield point */
        vt_ev("\"e\":\"inv\",\"t\":%d,\"i\":%d", tid + 1, o->i);
        r = tc.update_deps(&tp, &task, &depword, NULL, NULL, &flows[o->f - 1]);
        vt_ev("\"e\":\"res\",\"t\":%d,\"i\":%d,\"r\":%d", tid + 1, o->i, r);
        results[tid][k] = r;
    }
}

static FILE *meta;
static long nexec = 0;

static void dump_history(int deadlock)
{
    if( nexec++ ) vt_reset_marker();
    vt_raw("{\"e\":\"init\",\"n\":%d,\"mode\":\"%s\"}", need, use_mask ? "mask" : "counter");
    vt_dump();
    if( deadlock ) vt_raw("{\"e\":\"Timeout\"}");
    else vt_raw("{\"e\":\"end\"}");
}

static void finish_execution(vs_run_t *r)
{
    int t, i;
    dump_history(r && r->deadlock);
    fprintf(meta, "{\"sched\":\"");
    if( r ) for( i = 0; i < r->nsteps; i++ ) fputc('0' + r->who[i], meta);
    fprintf(meta, "\",\"deadlock\":%d,\"dep\":%d,\"ret\":[", r ? r->deadlock : 0, (int)(depword & 0x3fffffff));
    for( t = 0; t < nthreads; t++ ) {
        fprintf(meta, "%s[", t ? "," : "");
        for( i = 0; i < nops[t]; i++ ) fprintf(meta, "%s%d", i ? "," : "", results[t][i]);
        fputc(']', meta);
    }
    fprintf(meta, "]}\n");
}

static int once(void *ctx, const unsigned char *sched, int slen, vs_run_t *r)
{
    (void)ctx;
    setup();
    vs_run(r, nthreads, body, NULL, sched, slen, 2000);
    finish_execution(r);
    if( r->deadlock ) { fflush(meta); vt_close(); _exit(0); }   /* parked threads: cannot continue safely */
    return 0;
}

/* free-running mode: persistent threads; one round = every thread performs its releases on NINST task instances
 * (dependency words) one after the other; before touching instance k a thread waits (bounded spin, the machine
 * may be oversubscribed) for the others to arrive there, so that the calls on one word really overlap.
 * Events carry the instance number "k"; the check projects the round onto each instance. */
static pthread_barrier_t gate;
static long stress_runs;
static void *stress_thread(void *p)
{
    int tid = (int)(intptr_t)p, k, j, spin;
    long round;
    for( round = 0; round < stress_runs; round++ ) {
        pthread_barrier_wait(&gate);               /* the main thread has reset the dependency words */
        for( k = 0; k < NINST; k++ ) {
            __sync_fetch_and_add(&arrived[k], 1);
            for( spin = 0; arrived[k] < nthreads && spin < 20000; spin++ ) ;
            for( j = 0; j < nops[tid]; j++ ) {
                op_t *o = &ops[tid][j];
                int r;
                vt_ev("\"e\":\"inv\",\"k\":%d,\"t\":%d,\"i\":%d", k, tid + 1, o->i);
                r = tc.update_deps(&tp, &task, &depwords[k], NULL, NULL, &flows[o->f - 1]);
                vt_ev("\"e\":\"res\",\"k\":%d,\"t\":%d,\"i\":%d,\"r\":%d", k, tid + 1, o->i, r);
            }
        }
        pthread_barrier_wait(&gate);               /* everybody done: the main thread dumps the history */
    }
    return NULL;
}

int main(int argc, char **argv)
{
    if( argc < 6 ) die("usage");
    parse_scenario(argv[2]);
    build_task_class();
    vt_init(1 << 13);
    if( vt_open(argv[4]) ) die("cannot open trace output");
    meta = fopen(argv[5], "w");
    if( !meta ) die("cannot open meta output");
    if( !strcmp(argv[1], "replay") ) {
        FILE *sf = fopen(argv[3], "r");
        char line[VS_MAXSTEPS + 2];
        static vs_run_t r;
        if( !sf ) die("cannot open schedules");
        if( nthreads > VS_MAXT ) die("too many controlled threads");
        vs_install();
        while( fgets(line, sizeof(line), sf) ) {
            unsigned char sched[VS_MAXSTEPS]; int n = 0; char *p;
            for( p = line; *p && n < VS_MAXSTEPS; p++ ) if( isdigit((unsigned char)*p) ) sched[n++] = (unsigned char)(*p - '0');
            once(NULL, sched, n, &r);
        }
        fclose(sf);
    } else if( !strcmp(argv[1], "explore") ) {
        long n;
        if( nthreads > VS_MAXT ) die("too many controlled threads");
        vs_install();
        n = vs_explore(once, NULL, atol(argv[3]));
        fprintf(meta, "{\"explored\":%ld,\"exhaustive\":%s}\n", n < 0 ? -n : n, n < 0 ? "false" : "true");
    } else if( !strcmp(argv[1], "stress") ) {
        long k; int t;
        pthread_t th[MAXTHR];
        stress_runs = atol(argv[3]);
        controlled = 0;
        pthread_barrier_init(&gate, NULL, (unsigned)nthreads + 1);
        for( t = 0; t < nthreads; t++ ) pthread_create(&th[t], NULL, stress_thread, (void*)(intptr_t)t);
        for( k = 0; k < stress_runs; k++ ) {
            setup();
            pthread_barrier_wait(&gate);
            pthread_barrier_wait(&gate);
            finish_execution(NULL);
        }
        for( t = 0; t < nthreads; t++ ) pthread_join(th[t], NULL);
        pthread_barrier_destroy(&gate);
    } else if( !strcmp(argv[1], "perms") ) {
        /* every order of all the releases of the scenario, one after the other on this (uncontrolled) thread */
        op_t all[MAXOPS];
        int idx[MAXOPS], ret[MAXOPS], n = 0, t, i, j, more = 1;
        long done = 0, limit = atol(argv[3]);
        controlled = 0;
        for( t = 0; t < nthreads; t++ )
            for( i = 0; i < nops[t]; i++ ) {
                if( n >= MAXOPS ) die("too many ops");
                all[n++] = ops[t][i];
            }
        for( i = 0; i < n; i++ ) idx[i] = i;
        while( more && done < limit ) {
            setup();
            for( i = 0; i < n; i++ ) {
                op_t *o = &all[idx[i]];
                vt_ev("\"e\":\"inv\",\"t\":1,\"i\":%d", o->i);
                ret[i] = tc.update_deps(&tp, &task, &depword, NULL, NULL, &flows[o->f - 1]);
                vt_ev("\"e\":\"res\",\"t\":1,\"i\":%d,\"r\":%d", o->i, ret[i]);
            }
            dump_history(0);
            fprintf(meta, "{\"order\":[");
            for( i = 0; i < n; i++ ) fprintf(meta, "%s%d", i ? "," : "", all[idx[i]].i);
            fprintf(meta, "],\"dep\":%d,\"ret\":[", (int)(depword & 0x3fffffff));
            for( i = 0; i < n; i++ ) fprintf(meta, "%s%d", i ? "," : "", ret[i]);
            fprintf(meta, "]}\n");
            done++;
            /* next permutation of idx in lexicographic order */
            for( i = n - 2; i >= 0 && idx[i] > idx[i + 1]; i-- ) ;
            if( i < 0 ) { more = 0; break; }
            for( j = n - 1; idx[j] < idx[i]; j-- ) ;
            t = idx[i]; idx[i] = idx[j]; idx[j] = t;
            for( i++, j = n - 1; i < j; i++, j-- ) { t = idx[i]; idx[i] = idx[j]; idx[j] = t; }
        }
        fprintf(meta, "{\"explored\":%ld,\"exhaustive\":%s}\n", done, more ? "false" : "true");
    } else die("bad mode");
    fclose(meta);
    vt_close();
    return 0;
}
