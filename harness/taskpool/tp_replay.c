/* C37 harness: drives the real parsec_taskpool_reserve_id / _register / _unregister / _lookup / _sync_ids of parsec.c
 *   tp_replay seq     <behaviours> <trace.ndjson>                 TLC behaviours of IdsImpl.tla, one per line:
 *                                                                 "reserve P;register P;lookup I;unregister P;sync 0"
 *   tp_replay explore <scenario> <limit> <trace.ndjson> <meta>    every interleaving at yield-point granularity
 *   tp_replay random  <scenario> <runs>  <trace.ndjson> <meta> <seed>
 *   tp_replay stress  <scenario> <runs>  <trace.ndjson> <meta>    free-running threads
 *   tp_replay mpi     <rounds> <out-prefix>                       under mpiexec: rounds = "k0,k1,..;k0,k1,.." reservations
 *                                                                 of each rank before each parsec_taskpool_sync_ids
 * scenario file:  threads T / t <tid> op op ...  with op in reserve:<P> register:<P> unregister:<P> lookup:<P>
 *                 (P = taskpool number; lookup:<P> looks up the identifier taskpool P holds, nothing if it has none)
 * The registry is process-global and cannot be reset: every history starts with the current last identifier
 * ({"e":"init","last":N}) and ends with everything unregistered; identifiers of a TLC behaviour are offsets from N.
 */
#include "parsec/parsec_config.h"
#include "parsec/runtime.h"
#include "parsec/parsec_internal.h"
#include <stdio.h>
#include <stdlib.h>
#include <string.h>
#include <mpi.h>
#include "vtrace.h"
#include "vsched.h"

#define MAXOPS 32
#define MAXT 16
#define MAXP 64
enum { OP_RESERVE, OP_REGISTER, OP_UNREGISTER, OP_LOOKUP, OP_SYNC };
static const char *opname[] = { "reserve", "register", "unregister", "lookup", "sync" };
typedef struct { int kind; int a; } op_t;

static int nthreads, nops[MAXT];
static op_t ops[MAXT][MAXOPS];
static parsec_taskpool_t *tps[MAXP + 1];
static volatile int has_id[MAXP + 1], is_reg[MAXP + 1];
static int last_id = 0;                    /* last identifier handed out so far in this process */
static int controlled = 1;

static void die(const char *m) { fprintf(stderr, "tp_replay: %s\n", m); exit(3); }

static int tp_number(parsec_taskpool_t *p)
{
    int i;
    if( NULL == p ) return 0;
    for( i = 1; i <= MAXP; i++ ) if( tps[i] == p ) return i;
    return -1;                             /* a pointer that is not one of ours */
}

static void fresh_tps(void)
{
    int i;
    for( i = 1; i <= MAXP; i++ ) {
        tps[i] = (parsec_taskpool_t*)calloc(1, sizeof(parsec_taskpool_t));
        tps[i]->taskpool_name = (char*)"verif";
        has_id[i] = is_reg[i] = 0;
    }
}

static void drop_tps(void)
{
    int i;
    for( i = 1; i <= MAXP; i++ ) {
        if( is_reg[i] ) parsec_taskpool_unregister(tps[i]);
        free(tps[i]); tps[i] = NULL;
    }
}

/* one call, logged; returns the result */
static int call(int tid, int kind, int a)
{
    int r = 0;
    if( OP_LOOKUP == kind ) vt_ev("\"e\":\"inv\",\"t\":%d,\"op\":\"lookup\",\"id\":%d", tid + 1, a);
    else vt_ev("\"e\":\"inv\",\"t\":%d,\"op\":\"%s\",\"tp\":%d", tid + 1, opname[kind], a);
    switch( kind ) {
    case OP_RESERVE:    r = parsec_taskpool_reserve_id(tps[a]); has_id[a] = 1; break;
    case OP_REGISTER:   r = parsec_taskpool_register(tps[a]); is_reg[a] = 1; break;
    case OP_UNREGISTER: is_reg[a] = 0; parsec_taskpool_unregister(tps[a]); break;
    case OP_LOOKUP:     r = tp_number(parsec_taskpool_lookup((uint32_t)a)); break;
    }
    vt_ev("\"e\":\"res\",\"t\":%d,\"op\":\"%s\",\"r\":%d", tid + 1, opname[kind], r);
    return r;
}

static void note_last(void)
{
    int i;
    for( i = 1; i <= MAXP; i++ ) if( NULL != tps[i] && has_id[i] && (int)tps[i]->taskpool_id > last_id ) last_id = (int)tps[i]->taskpool_id;
}

/* ---- sequential replay of TLC behaviours ------------------------------------------------------------------- */
static void run_seq(const char *path)
{
    FILE *f = fopen(path, "r");
    static char line[1 << 16];
    long n = 0;
    if( !f ) die("cannot open behaviours");
    while( fgets(line, sizeof(line), f) ) {
        char *save = NULL, *tok;
        int base = last_id;
        if( n++ ) vt_reset_marker();
        vt_raw("{\"e\":\"init\",\"last\":%d}", base);
        fresh_tps();
        for( tok = strtok_r(line, ";\n", &save); tok; tok = strtok_r(NULL, ";\n", &save) ) {
            char name[32]; int a = 0;
            if( 2 != sscanf(tok, "%31s %d", name, &a) ) continue;
            if( !strcmp(name, "reserve") ) call(0, OP_RESERVE, a);
            else if( !strcmp(name, "register") ) call(0, OP_REGISTER, a);
            else if( !strcmp(name, "unregister") ) call(0, OP_UNREGISTER, a);
            else if( !strcmp(name, "lookup") ) call(0, OP_LOOKUP, base + a);
            else if( !strcmp(name, "sync") ) parsec_taskpool_sync_ids();      /* alone: must change nothing */
        }
        note_last();
        vt_dump();
        drop_tps();
    }
    fclose(f);
}

/* ---- concurrent scenarios --------------------------------------------------------------------------------------- */
static void parse_scenario(const char *path)
{
    FILE *f = fopen(path, "r");
    char line[4096];
    if( !f ) die("cannot open scenario");
    while( fgets(line, sizeof(line), f) ) {
        char *tok = strtok(line, " \t\n");
        if( !tok ) continue;
        if( !strcmp(tok, "threads") ) nthreads = atoi(strtok(NULL, " \t\n"));
        else if( !strcmp(tok, "t") ) {
            int t = atoi(strtok(NULL, " \t\n"));
            if( t >= MAXT ) die("too many threads");
            while( (tok = strtok(NULL, " \t\n")) ) {
                op_t *o;
                char *c = strchr(tok, ':');
                int k;
                if( nops[t] >= MAXOPS || NULL == c ) die("bad operation list");
                o = &ops[t][nops[t]++];
                *c = 0; o->a = atoi(c + 1); o->kind = -1;
                for( k = 0; k < 4; k++ ) if( !strcmp(tok, opname[k]) ) o->kind = k;
                if( o->kind < 0 || o->a < 1 || o->a > MAXP ) die("bad op");
            }
        }
    }
    fclose(f);
    if( nthreads > MAXT ) die("scenario too large");
}

static void body(int tid, void *arg)
{
    int i;
    (void)arg;
    for( i = 0; i < nops[tid]; i++ ) {
        op_t *o = &ops[tid][i];
        if( i > 0 && controlled ) vs_yield();
        if( OP_LOOKUP == o->kind ) { if( has_id[o->a] ) call(tid, OP_LOOKUP, (int)tps[o->a]->taskpool_id); }
        else if( OP_REGISTER == o->kind ) { if( has_id[o->a] && !is_reg[o->a] ) call(tid, OP_REGISTER, o->a); }
        else if( OP_UNREGISTER == o->kind ) { if( is_reg[o->a] ) call(tid, OP_UNREGISTER, o->a); }
        else if( !has_id[o->a] ) call(tid, OP_RESERVE, o->a);
    }
}

static FILE *meta;
static long nexec = 0;
static int base_of_run;

static void begin_run(void) { base_of_run = last_id; fresh_tps(); }
static void end_run(vs_run_t *r)
{
    int i;
    if( nexec++ ) vt_reset_marker();
    vt_raw("{\"e\":\"init\",\"last\":%d}", base_of_run);
    note_last();
    vt_dump();
    if( r && r->deadlock ) vt_raw("{\"e\":\"Timeout\"}");
    fprintf(meta, "{\"sched\":\"");
    if( r ) for( i = 0; i < r->nsteps; i++ ) fputc('0' + r->who[i], meta);
    fprintf(meta, "\",\"deadlock\":%d,\"last\":%d}\n", r ? r->deadlock : 0, last_id);
}

static int once(void *ctx, const unsigned char *sched, int slen, vs_run_t *r)
{
    (void)ctx;
    begin_run();
    vs_run(r, nthreads, body, NULL, sched, slen, 3000);
    end_run(r);
    if( r->deadlock ) { fflush(meta); vt_close(); _exit(0); }
    drop_tps();
    return 0;
}

static void *stress_thread(void *p) { body((int)(intptr_t)p, NULL); return NULL; }

/* ---- identifier synchronization across processes ------------------------------------------------------------------- */
static void run_mpi(int argc, char **argv)
{
    int rank, size, round = 0, i;
    char path[1024], *save = NULL, *rd, *spec;
    FILE *out;
    MPI_Init(&argc, &argv);
    MPI_Comm_rank(MPI_COMM_WORLD, &rank);
    MPI_Comm_size(MPI_COMM_WORLD, &size);
    snprintf(path, sizeof(path), "%s.%d", argv[3], rank);
    out = fopen(path, "w");
    if( !out ) die("cannot open output");
    fresh_tps();
    spec = strdup(argv[2]);
    i = 1;
    for( rd = strtok_r(spec, ";", &save); rd; rd = strtok_r(NULL, ";", &save), round++ ) {
        char *s2 = NULL, *tok, *copy = strdup(rd);
        int r = 0, k = 0, before, after;
        for( tok = strtok_r(copy, ",", &s2); tok; tok = strtok_r(NULL, ",", &s2), r++ ) if( r == rank ) k = atoi(tok);
        while( k-- > 0 && i < MAXP ) { last_id = parsec_taskpool_reserve_id(tps[i]); if( i % 2 ) parsec_taskpool_register(tps[i]), is_reg[i] = 1; i++; }
        before = last_id;
        parsec_taskpool_sync_ids();
        after = last_id = parsec_taskpool_reserve_id(tps[i]); i++;
        fprintf(out, "{\"round\":%d,\"rank\":%d,\"before\":%d,\"after\":%d}\n", round, rank, before, after);
        free(copy);
    }
    fclose(out);
    for( i = 1; i <= MAXP; i++ ) if( is_reg[i] ) { parsec_taskpool_unregister(tps[i]); is_reg[i] = 0; }
    MPI_Finalize();
}

int main(int argc, char **argv)
{
    if( argc < 4 ) die("usage");
    if( !strcmp(argv[1], "mpi") ) { run_mpi(argc, argv); return 0; }
    vt_init(1 << 14);
    if( !strcmp(argv[1], "seq") ) {
        if( vt_open(argv[3]) ) die("cannot open trace output");
        run_seq(argv[2]);
        vt_close();
        return 0;
    }
    if( argc < 6 ) die("usage");
    parse_scenario(argv[2]);
    if( vt_open(argv[4]) ) die("cannot open trace output");
    meta = fopen(argv[5], "w");
    if( !strcmp(argv[1], "explore") ) {
        long n;
        vs_install();
        n = vs_explore(once, NULL, atol(argv[3]));
        fprintf(meta, "{\"explored\":%ld,\"exhaustive\":%s}\n", n < 0 ? -n : n, n < 0 ? "false" : "true");
    } else if( !strcmp(argv[1], "random") ) {
        long runs = atol(argv[3]), k;
        uint64_t x = 0x9E3779B97F4A7C15ULL ^ (uint64_t)(argc > 6 ? atol(argv[6]) : 1);
        static vs_run_t r;
        vs_install();
        for( k = 0; k < runs; k++ ) {
            static unsigned char sched[VS_MAXSTEPS]; int n = 0;
            while( n < 600 ) {
                int tt, b;
                x ^= x << 13; x ^= x >> 7; x ^= x << 17;
                tt = (int)((x >> 20) % (uint64_t)nthreads);
                b = 1 + (int)((x >> 40) % 4);
                while( b-- > 0 && n < 600 ) sched[n++] = (unsigned char)tt;
            }
            once(NULL, sched, n, &r);
        }
    } else if( !strcmp(argv[1], "stress") ) {
        long runs = atol(argv[3]), k; int t;
        controlled = 0;
        for( k = 0; k < runs; k++ ) {
            pthread_t th[MAXT];
            begin_run();
            for( t = 0; t < nthreads; t++ ) pthread_create(&th[t], NULL, stress_thread, (void*)(intptr_t)t);
            for( t = 0; t < nthreads; t++ ) pthread_join(th[t], NULL);
            end_run(NULL);
            drop_tps();
        }
    } else die("bad mode");
    fclose(meta);
    vt_close();
    return 0;
}
