/* C21 harness: calls the real parsec_redistribute on two 2D block-cyclic matrices filled with position markers
 * (source element (i,j) = i*1000+j+1, target element (i,j) = -(i*1000+j+1)), gathers the target matrix on rank 0 and
 * logs one record per call (validated by spec/Dist/RedistributeTrace.tla).
 *   [mpiexec -n N] rd_run <scenarios.txt> <trace.ndjson> <cores>
 * scenario line: mbY= nbY= mtY= ntY= PY= QY= kpY= kqY= mbT= nbT= mtT= ntT= PT= QT= kpT= kqT= sr= sc= diY= djY= diT= djT=
 * (mt/nt = number of tile rows / columns; PY*QY = PT*QT = N).  Rank 0 writes
 *   {"e":"redist","path":"general"|"reshuffle","rc":..,...parameters...,"T":[[row0],[row1],..]}   after every call.
 */
#include "parsec/parsec_config.h"
#include "parsec/runtime.h"
#include "parsec/parsec_internal.h"
#include "parsec/data_internal.h"
#include "parsec/data_dist/matrix/matrix.h"
#include "parsec/data_dist/matrix/two_dim_rectangle_cyclic.h"
#include <mpi.h>

static int rank, world;

static int geti(const char *line, const char *key, int dflt)
{
    char pat[32]; const char *p;
    snprintf(pat, sizeof(pat), " %s=", key);
    p = strstr(line, pat);
    return p ? atoi(p + strlen(pat)) : dflt;
}

static void fill(parsec_matrix_block_cyclic_t *A, double sign)
{
    parsec_data_collection_t *dc = &A->super.super;
    int mb = A->super.mb, nb = A->super.nb;
    for( int n = 0; n < A->super.nt; n++ ) for( int m = 0; m < A->super.mt; m++ ) {
        if( (int)dc->rank_of(dc, m, n) != rank ) continue;
        double *p = (double*)dc->data_of(dc, m, n)->device_copies[0]->device_private;
        for( int j = 0; j < nb; j++ ) for( int i = 0; i < mb; i++ )
            p[j * mb + i] = sign * (double)((m * mb + i) * 1000 + (n * nb + j) + 1);
    }
}

/* every rank contributes the elements it owns; rank 0 gets the whole matrix (row-major LM x LN) */
static double *gather(parsec_matrix_block_cyclic_t *A)
{
    parsec_data_collection_t *dc = &A->super.super;
    int mb = A->super.mb, nb = A->super.nb, LM = A->super.mt * mb, LN = A->super.nt * nb;
    double *loc = (double*)malloc(sizeof(double) * LM * LN), *all = (double*)malloc(sizeof(double) * LM * LN);
    for( int k = 0; k < LM * LN; k++ ) loc[k] = -1e300;
    for( int n = 0; n < A->super.nt; n++ ) for( int m = 0; m < A->super.mt; m++ ) {
        if( (int)dc->rank_of(dc, m, n) != rank ) continue;
        double *p = (double*)dc->data_of(dc, m, n)->device_copies[0]->device_private;
        for( int j = 0; j < nb; j++ ) for( int i = 0; i < mb; i++ )
            loc[(m * mb + i) * LN + (n * nb + j)] = p[j * mb + i];
    }
    MPI_Reduce(loc, all, LM * LN, MPI_DOUBLE, MPI_MAX, 0, MPI_COMM_WORLD);
    free(loc);
    return all;
}

int main(int argc, char **argv)
{
    int prov, pargc = 1;
    char *pargv[2] = { argv[0], NULL }, **ppargv = pargv, line[1024], buf[1040];
    FILE *in, *out = NULL;
    long nrec = 0;
    if( argc < 4 ) return 3;
    MPI_Init_thread(&argc, &argv, MPI_THREAD_MULTIPLE, &prov);
    MPI_Comm_rank(MPI_COMM_WORLD, &rank); MPI_Comm_size(MPI_COMM_WORLD, &world);
    parsec_context_t *ctx = parsec_init(atoi(argv[3]), &pargc, &ppargv);
    if( NULL == ctx ) return 4;
    in = fopen(argv[1], "r");
    if( 0 == rank ) out = fopen(argv[2], "w");
    if( !in || (0 == rank && !out) ) return 3;
    while( fgets(line, sizeof(line), in) ) {
        snprintf(buf, sizeof(buf), " %s", line);
        int mbY = geti(buf, "mbY", 0);
        if( mbY <= 0 ) continue;
        int nbY = geti(buf, "nbY", 1), mtY = geti(buf, "mtY", 1), ntY = geti(buf, "ntY", 1), PY = geti(buf, "PY", 1),
            QY = geti(buf, "QY", 1), kpY = geti(buf, "kpY", 1), kqY = geti(buf, "kqY", 1);
        int mbT = geti(buf, "mbT", 1), nbT = geti(buf, "nbT", 1), mtT = geti(buf, "mtT", 1), ntT = geti(buf, "ntT", 1),
            PT = geti(buf, "PT", 1), QT = geti(buf, "QT", 1), kpT = geti(buf, "kpT", 1), kqT = geti(buf, "kqT", 1);
        int sr = geti(buf, "sr", 1), sc = geti(buf, "sc", 1), diY = geti(buf, "diY", 0), djY = geti(buf, "djY", 0),
            diT = geti(buf, "diT", 0), djT = geti(buf, "djT", 0);
        if( PY * QY != world || PT * QT != world ) { fprintf(stderr, "scenario needs %d/%d ranks\n", PY * QY, PT * QT); return 5; }
        parsec_matrix_block_cyclic_t Y, T;
        parsec_matrix_block_cyclic_init(&Y, PARSEC_MATRIX_DOUBLE, PARSEC_MATRIX_TILE, rank, mbY, nbY, mtY * mbY, ntY * nbY,
                                        0, 0, mtY * mbY, ntY * nbY, PY, QY, kpY, kqY, 0, 0);
        Y.mat = calloc((size_t)Y.super.nb_local_tiles * Y.super.bsiz + 1, sizeof(double));
        parsec_data_collection_set_key(&Y.super.super, "Y");
        parsec_matrix_block_cyclic_init(&T, PARSEC_MATRIX_DOUBLE, PARSEC_MATRIX_TILE, rank, mbT, nbT, mtT * mbT, ntT * nbT,
                                        0, 0, mtT * mbT, ntT * nbT, PT, QT, kpT, kqT, 0, 0);
        T.mat = calloc((size_t)T.super.nb_local_tiles * T.super.bsiz + 1, sizeof(double));
        parsec_data_collection_set_key(&T.super.super, "T");
        fill(&Y, 1.0); fill(&T, -1.0);
        if( 0 == rank ) {       /* announce the call: if the run dies the last announced call is the failing one */
            if( nrec++ ) fprintf(out, "{\"e\":\"Reset\"}\n");
            fprintf(out, "{\"e\":\"call\",\"scn\":\"%.*s\"}\n", (int)strcspn(line, "\n"), line);
            fflush(out);
        }
        int rc = -1; const char *path = "none";
        parsec_taskpool_t *tp = parsec_redistribute_New(&Y.super, &T.super, sr, sc, diY, djY, diT, djT);
        if( NULL != tp ) {
            path = (tp->taskpool_name && strstr(tp->taskpool_name, "reshuffle")) ? "reshuffle" : "general";
            parsec_context_add_taskpool(ctx, tp);
            parsec_context_start(ctx);
            parsec_context_wait(ctx);
            parsec_taskpool_free(tp);
            rc = 0;
        }
        MPI_Barrier(MPI_COMM_WORLD);
        double *all = gather(&T);
        if( 0 == rank ) {
            int LM = mtT * mbT, LN = ntT * nbT;
            fprintf(out, "{\"e\":\"redist\",\"path\":\"%s\",\"rc\":%d,\"ranks\":%d,\"mbY\":%d,\"nbY\":%d,\"mbT\":%d,\"nbT\":%d,"
                    "\"size_row\":%d,\"size_col\":%d,\"disi_Y\":%d,\"disj_Y\":%d,\"disi_T\":%d,\"disj_T\":%d,\"T\":[",
                    path, rc, world, mbY, nbY, mbT, nbT, sr, sc, diY, djY, diT, djT);
            for( int i = 0; i < LM; i++ ) {
                fprintf(out, "%s[", i ? "," : "");
                for( int j = 0; j < LN; j++ ) {
                    double v = all[i * LN + j];
                    long lv = (v > 2e9 || v < -2e9) ? 2000000000L : (long)v;      /* keep inside TLC's integers */
                    fprintf(out, "%s%ld", j ? "," : "", lv);
                }
                fprintf(out, "]");
            }
            fprintf(out, "]}\n");
            fflush(out);
        }
        free(all);
        free(Y.mat); free(T.mat);
        parsec_tiled_matrix_destroy(&Y.super);
        parsec_tiled_matrix_destroy(&T.super);
    }
    if( out ) fclose(out);
    parsec_fini(&ctx);
    MPI_Finalize();
    return 0;
}
