/* C33 harness: drives the real parsec_atomic_rwlock_{rdlock,rdunlock,wrlock,wrunlock} (ticket implementation) along
 * TLC-generated schedules (mode replay), over every interleaving at yield-point granularity (mode explore), or
 * free-running (mode stress); records req / acq / rel events stamped inside the critical sections as ndjson for
 * validation by spec/RWLock/RWTrace.tla.
 *
 *   rw_replay replay  <scenario> <schedules> <trace.ndjson> <meta.ndjson>
 *   rw_replay explore <scenario> <limit>     <trace.ndjson> <meta.ndjson>
 *   rw_replay stress  <scenario> <runs>      <trace.ndjson> <meta.ndjson>
 *
 * scenario file:  threads T / t <tid> r w r ...     (lock cycles of each thread)
 * Under the cooperative scheduler a deadlock (every live thread spinning) or an exhausted step budget is recorded as a
 * "Timeout" event, which the trace specification rejects.
 */
#include "parsec/parsec_config.h"
#include "parsec/sys/atomic.h"
#include "parsec/class/parsec_rwlock.h"
#include <stdio.h>
#include <stdlib.h>
#include <string.h>
#include <ctype.h>
#include "vtrace.h"
#include "vsched.h"

#define MAXOPS 64
#define MAXTHR 16
static int nthreads, nops[MAXTHR];
static char ops[MAXTHR][MAXOPS];
static int controlled = 1;
static parsec_atomic_rwlock_t lock;
static volatile int nr, nw;                 /* critical-section occupancy (raw builtins: no yield point) */
static volatile int overlaps;

static void die(const char *m) { fprintf(stderr, "rw_replay: %s\n", m); exit(3); }

static void parse_scenario(const char *path)
{
    FILE *f = fopen(path, "r");
    char line[4096];
    if( !f ) die("cannot open scenario");
    while( fgets(line, sizeof(line), f) ) {
        char *tok = strtok(line, " \t\n");
        if( !tok ) continue;
        if( !strcmp(tok, "threads") ) nthreads = atoi(strtok(NULL, " \t\n"));
        else if( !strcmp(tok, "t") ) {
            int t = atoi(strtok(NULL, " \t\n"));
            if( t < 0 || t >= MAXTHR ) die("bad thread");
            while( (tok = strtok(NULL, " \t\n")) ) {
                if( nops[t] >= MAXOPS || (tok[0] != 'r' && tok[0] != 'w') ) die("bad op");
                ops[t][nops[t]++] = tok[0];
            }
        }
    }
    fclose(f);
    if( nthreads < 1 || nthreads > MAXTHR ) die("bad thread count");
}

static void setup(void)
{
    parsec_atomic_rwlock_init(&lock);
    nr = nw = 0; overlaps = 0;
}

static void body(int tid, void *arg)
{
    int k, spin;
    (void)arg;
    for( k = 0; k < nops[tid]; k++ ) {
        char m = ops[tid][k];
        if( k > 0 && controlled ) vs_yield();          /* operation boundary = yield point */
        vt_ev("\"e\":\"req\",\"t\":%d,\"m\":\"%c\"", tid + 1, m);
        if( 'r' == m ) parsec_atomic_rwlock_rdlock(&lock); else parsec_atomic_rwlock_wrlock(&lock);
        vt_ev("\"e\":\"acq\",\"t\":%d,\"m\":\"%c\"", tid + 1, m);
        if( 'r' == m ) { __sync_fetch_and_add(&nr, 1); if( nw != 0 ) __sync_fetch_and_add(&overlaps, 1); }
        else { if( __sync_fetch_and_add(&nw, 1) != 0 || nr != 0 ) __sync_fetch_and_add(&overlaps, 1); }
        if( controlled ) vs_yield();                   /* inside the critical section */
        else for( spin = 0; spin < 50; spin++ ) __asm__ volatile("" ::: "memory");
        if( 'r' == m ) __sync_fetch_and_sub(&nr, 1); else __sync_fetch_and_sub(&nw, 1);
        vt_ev("\"e\":\"rel\",\"t\":%d,\"m\":\"%c\"", tid + 1, m);
        if( 'r' == m ) parsec_atomic_rwlock_rdunlock(&lock); else parsec_atomic_rwlock_wrunlock(&lock);
    }
}

static FILE *meta;
static long nexec = 0;

static void finish_execution(vs_run_t *r)
{
    int i;
    if( nexec++ ) vt_reset_marker();
    vt_dump();
    if( overlaps ) vt_raw("{\"e\":\"Overlap\",\"n\":%d}", overlaps);      /* occupancy counters saw a forbidden overlap */
    if( r && r->deadlock ) vt_raw("{\"e\":\"Timeout\"}");
    else vt_raw("{\"e\":\"end\"}");
    fprintf(meta, "{\"sched\":\"");
    if( r ) for( i = 0; i < r->nsteps; i++ ) fputc('0' + r->who[i], meta);
    fprintf(meta, "\",\"deadlock\":%d,\"overlaps\":%d,\"rin\":%d,\"rout\":%d,\"win\":%d,\"wout\":%d}\n", r ? r->deadlock : 0, overlaps,
            (int)lock.rin, (int)lock.rout, (int)lock.win, (int)lock.wout);
}

static int once(void *ctx, const unsigned char *sched, int slen, vs_run_t *r)
{
    (void)ctx;
    setup();
    vs_run(r, nthreads, body, NULL, sched, slen, 3000);
    finish_execution(r);
    if( r->deadlock ) { fflush(meta); vt_close(); _exit(0); }
    return 0;
}

static pthread_barrier_t gate;
static long stress_runs;
static void *stress_thread(void *p)
{
    long k;
    for( k = 0; k < stress_runs; k++ ) {
        pthread_barrier_wait(&gate);
        body((int)(intptr_t)p, NULL);
        pthread_barrier_wait(&gate);
    }
    return NULL;
}

int main(int argc, char **argv)
{
    int t;
    if( argc < 6 ) die("usage");
    parse_scenario(argv[2]);
    vt_init(1 << 13);
    if( vt_open(argv[4]) ) die("cannot open trace output");
    meta = fopen(argv[5], "w");
    if( !meta ) die("cannot open meta output");
    if( !strcmp(argv[1], "replay") ) {
        FILE *sf = fopen(argv[3], "r");
        static char line[VS_MAXSTEPS + 2];
        static vs_run_t r;
        if( !sf ) die("cannot open schedules");
        if( nthreads > VS_MAXT ) die("too many controlled threads");
        vs_install();
        while( fgets(line, sizeof(line), sf) ) {
            static unsigned char sched[VS_MAXSTEPS]; int n = 0; char *p;
            for( p = line; *p && n < VS_MAXSTEPS; p++ ) if( isdigit((unsigned char)*p) ) sched[n++] = (unsigned char)(*p - '0');
            once(NULL, sched, n, &r);
        }
        fclose(sf);
    } else if( !strcmp(argv[1], "explore") ) {
        long n;
        if( nthreads > VS_MAXT ) die("too many controlled threads");
        vs_install();
        n = vs_explore(once, NULL, atol(argv[3]));
        fprintf(meta, "{\"explored\":%ld,\"exhaustive\":%s}\n", n < 0 ? -n : n, n < 0 ? "false" : "true");
    } else if( !strcmp(argv[1], "stress") ) {
        long k;
        pthread_t th[MAXTHR];
        stress_runs = atol(argv[3]);
        controlled = 0;
        pthread_barrier_init(&gate, NULL, (unsigned)nthreads + 1);
        for( t = 0; t < nthreads; t++ ) pthread_create(&th[t], NULL, stress_thread, (void*)(intptr_t)t);
        for( k = 0; k < stress_runs; k++ ) {
            setup();
            pthread_barrier_wait(&gate);
            pthread_barrier_wait(&gate);
            finish_execution(NULL);
        }
        for( t = 0; t < nthreads; t++ ) pthread_join(th[t], NULL);
    } else die("bad mode");
    fclose(meta);
    vt_close();
    return 0;
}
