/* Generic driver for generated PTG programs (lib/jdfgen.py -> parsec-ptgpp -> vpNNN.c).
 *
 *   ptg_driver runs=<file> out=<trace.ndjson> cores=<n> [conc=<pools in flight>] [window_ms=<no-progress window>]
 *              [noise=<seed>]
 *
 * The binary is linked with any number of generated programs; vp_table[] (generated, see checks) lists their
 * constructors.  Every line of the runs file is one taskpool execution in the same parsec context:
 *   prog=<name> N= M= K= ntiles= ts= [again=<seed>:<max>] [keys=<space file>] [pools=N:M:K,N:M:K,...]
 * prog        : parsec_<name>_new(D, N, M, K, TPID); TPID = 64 * run index (+ position inside a composition)
 * keys=<file> : once the internal_init tasks of the taskpool have run (termination detector left NOT_READY) call the
 *               generated make_key / key_print for every instance listed in the space file (C23)
 * pools=...   : parsec_compose() of several instances of the program with different globals (C15)
 * `conc` taskpools are in flight at the same time (each with its own data collection).  The master thread
 * progresses the context with parsec_taskpool_test(); a batch in which no event was recorded and no taskpool
 * completed for `window_ms` is abandoned: its unfinished taskpools get a Timeout event.
 *
 * All task bodies call vb_task() below (events Start / Again / End with class, parameters, locals, thread, values).
 */
#define VT_LINE 1024
#include "vtrace.h"
#include "vp_body.h"
#include "parsec/parsec_internal.h"
#include "parsec/data_internal.h"
#include "parsec/mca/termdet/termdet.h"
#include <mpi.h>
#include <pthread.h>
#include <signal.h>
#include <time.h>
#include <sys/resource.h>

#define FMOD 30011
#define MAXP 8
#define MAXTS 4
#define MAXRUNS 4096
#define MAXSUB 64
#define MAXINST 1024

/* ------------------------------------------------------------------ per-run state */
typedef struct { int tp, cls, np, p[MAXP], attempts; } vb_inst_t;

typedef struct vb_run_s {
    parsec_data_collection_t super;       /* the data collection D(0 .. ntiles-1) of this run; must be first */
    int ntiles, ts;
    int *store;
    parsec_data_t **tiles;
    /* description */
    char prog[32], keys[256], pools[512];
    int N, M, K, again_seed, again_max;
    const vp_entry_t *entry;
    /* execution */
    int index, nsub, keys_done, finished, timed_out, started, maxev;
    volatile int nev, runaway, badindex;          /* body events seen; set when more than maxev: the taskpool runs away */
    parsec_taskpool_t *top, *sub[MAXSUB];
    volatile int done;                    /* completion callbacks seen on the top-level taskpool */
    vb_inst_t *inst;
    int ninst;
    pthread_mutex_t lock;
} vb_run_t;

static vb_run_t *runs[MAXRUNS];
static int nruns = 0;
static int noise_seed = 0;
static parsec_datatype_t dtt_of_ts[MAXTS + 1];

static int vb_idx(parsec_data_collection_t *d, va_list ap)
{
    vb_run_t *r = (vb_run_t*)d;
    int k = va_arg(ap, int);
    if( k < 0 || k >= r->ntiles ) {
        if( 0 == __sync_fetch_and_add(&r->badindex, 1) )          /* once per run */
            vt_ev("\"e\":\"BadIndex\",\"tp\":%d,\"i\":%d", r->index * 64, k);
        k = ((k % r->ntiles) + r->ntiles) % r->ntiles;
    }
    return k;
}
static uint32_t vb_rank_of(parsec_data_collection_t *d, ...) { (void)d; return 0; }
static int32_t vb_vpid_of(parsec_data_collection_t *d, ...) { (void)d; return 0; }
static uint32_t vb_rank_of_key(parsec_data_collection_t *d, parsec_data_key_t k) { (void)d; (void)k; return 0; }
static int32_t vb_vpid_of_key(parsec_data_collection_t *d, parsec_data_key_t k) { (void)d; (void)k; return 0; }
static parsec_data_key_t vb_data_key(parsec_data_collection_t *d, ...)
{
    va_list ap; int k;
    va_start(ap, d); k = vb_idx(d, ap); va_end(ap);
    return (parsec_data_key_t)k;
}
static parsec_data_t *vb_data_of_key(parsec_data_collection_t *d, parsec_data_key_t key)
{
    vb_run_t *r = (vb_run_t*)d;
    int k = (int)key;
    return parsec_data_create(&r->tiles[k], d, key, r->store + (size_t)k * r->ts, r->ts * sizeof(int),
                              PARSEC_DATA_FLAG_PARSEC_MANAGED);
}
static parsec_data_t *vb_data_of(parsec_data_collection_t *d, ...)
{
    va_list ap; int k;
    va_start(ap, d); k = vb_idx(d, ap); va_end(ap);
    return vb_data_of_key(d, (parsec_data_key_t)k);
}

static void vb_dc_init(vb_run_t *r)
{
    parsec_data_collection_init(&r->super, 1, 0);
    r->super.rank_of = vb_rank_of;
    r->super.vpid_of = vb_vpid_of;
    r->super.rank_of_key = vb_rank_of_key;
    r->super.vpid_of_key = vb_vpid_of_key;
    r->super.data_key = vb_data_key;
    r->super.data_of = vb_data_of;
    r->super.data_of_key = vb_data_of_key;
    r->super.default_dtt = dtt_of_ts[r->ts];
    r->store = (int*)calloc((size_t)r->ntiles * r->ts, sizeof(int));
    r->tiles = (parsec_data_t**)calloc((size_t)r->ntiles, sizeof(parsec_data_t*));
    for( int i = 0; i < r->ntiles; i++ )
        for( int j = 0; j < r->ts; j++ )
            r->store[i * r->ts + j] = 100 * i + j + 1;          /* initial contents, same formula in JDFSem.tla */
}

/* ------------------------------------------------------------------ task bodies */
static int vb_attempt(vb_run_t *r, int tp, int cls, int np, const int *p)
{
    int a = -1;
    pthread_mutex_lock(&r->lock);
    for( int i = 0; i < r->ninst; i++ ) {
        vb_inst_t *e = &r->inst[i];
        if( e->tp == tp && e->cls == cls && e->np == np && 0 == memcmp(e->p, p, np * sizeof(int)) ) {
            a = e->attempts++;
            break;
        }
    }
    if( a < 0 && r->ninst < MAXINST ) {
        vb_inst_t *e = &r->inst[r->ninst++];
        e->tp = tp; e->cls = cls; e->np = np; memcpy(e->p, p, np * sizeof(int)); e->attempts = 1;
        a = 0;
    }
    pthread_mutex_unlock(&r->lock);
    return a < 0 ? 0 : a;
}

static long vb_hash(long seed, int tp, int cls, int np, const int *p)
{
    long h = seed * 7919L + cls * 104729L + tp * 15485863L;
    for( int i = 0; i < np; i++ ) h += (long)p[i] * (i + 1) * 1299709L;
    h %= 1000003L;
    if( h < 0 ) h += 1000003L;
    return h;
}

static int vb_fmt_ints(char *b, int cap, const int *v, int n)
{
    int o = 0;
    o += snprintf(b + o, cap - o, "[");
    for( int i = 0; i < n && o < cap - 16; i++ ) o += snprintf(b + o, cap - o, "%s%d", i ? "," : "", v[i]);
    o += snprintf(b + o, cap - o, "]");
    return o;
}

int vb_task(parsec_execution_stream_t *es, int tpid, int cls,
            int np, const int *p, int nl, const int *l,
            int nf, void **f, const int *mode)
{
    char sp[96], sl[200], sr[300], sw[300];
    vb_run_t *r = runs[tpid / 64];
    int ts = r->ts, o;
    long S = 0;
    if( r->runaway || __sync_add_and_fetch(&r->nev, 1) > r->maxev ) {
        /* more body executions than the space can explain (e.g. a loop that never ends): stop recording,
         * the driver reports it; the values do not matter any more */
        r->runaway = 1;
        return 0;
    }
    int attempt = vb_attempt(r, tpid, cls, np, p);

    vb_fmt_ints(sp, sizeof(sp), p, np);
    vb_fmt_ints(sl, sizeof(sl), l, nl);
    /* values read: one array per flow ([] for CTL / WRITE-only / NULL flows) */
    o = snprintf(sr, sizeof(sr), "[");
    for( int g = 0; g < nf; g++ ) {
        if( g ) o += snprintf(sr + o, sizeof(sr) - o, ",");
        if( (mode[g] & VB_READ) && NULL != f[g] ) {
            const int *in = (const int*)f[g];
            o += vb_fmt_ints(sr + o, sizeof(sr) - o, in, ts);
            for( int j = 0; j < ts; j++ ) S += (long)in[j] * (3 * g + j + 1);
        } else {
            o += snprintf(sr + o, sizeof(sr) - o, "[]");
        }
    }
    snprintf(sr + o, sizeof(sr) - o, "]");
    vt_ev("\"e\":\"Start\",\"tp\":%d,\"c\":%d,\"p\":%s,\"l\":%s,\"th\":%d,\"a\":%d,\"r\":%s",
          tpid, cls, sp, sl, es->th_id, attempt, sr);

    if( noise_seed ) {                       /* widen the windows between Start and End (no effect on the verdict) */
        long h = vb_hash(noise_seed, tpid, cls, np, p) % 150;
        struct timespec t0, t1;
        clock_gettime(CLOCK_MONOTONIC, &t0);
        do { clock_gettime(CLOCK_MONOTONIC, &t1); }
        while( (t1.tv_sec - t0.tv_sec) * 1000000L + (t1.tv_nsec - t0.tv_nsec) / 1000 < h );
    }

    if( r->again_max > 0 && attempt < (int)(vb_hash(r->again_seed, 0, cls, np, p) % (r->again_max + 1)) ) {
        vt_ev("\"e\":\"Again\",\"tp\":%d,\"c\":%d,\"p\":%s,\"th\":%d,\"a\":%d", tpid, cls, sp, es->th_id, attempt);
        return 1;
    }

    long base = 1000L * cls;
    static const int W[MAXP] = { 17, 31, 43, 59, 61, 67, 71, 73 };
    for( int i = 0; i < np; i++ ) base += (long)p[i] * W[i];
    o = snprintf(sw, sizeof(sw), "[");
    for( int g = 0; g < nf; g++ ) {
        if( g ) o += snprintf(sw + o, sizeof(sw) - o, ",");
        if( (mode[g] & VB_WRITE) && NULL != f[g] ) {
            int *out = (int*)f[g];
            int tmp[MAXTS];
            for( int i = 0; i < ts; i++ ) {
                long v = (S + base + 7L * g + i + 1) % FMOD;
                if( v < 0 ) v += FMOD;
                tmp[i] = (int)v;
            }
            for( int i = 0; i < ts; i++ ) out[i] = tmp[i];
            o += vb_fmt_ints(sw + o, sizeof(sw) - o, tmp, ts);
        } else {
            o += snprintf(sw + o, sizeof(sw) - o, "[]");
        }
    }
    snprintf(sw + o, sizeof(sw) - o, "]");
    vt_ev("\"e\":\"End\",\"tp\":%d,\"c\":%d,\"p\":%s,\"th\":%d,\"a\":%d,\"w\":%s", tpid, cls, sp, es->th_id, attempt, sw);
    return 0;
}

/* ------------------------------------------------------------------ driver */
static const char *arg_of(int argc, char **argv, const char *key, const char *dflt)
{
    size_t n = strlen(key);
    for( int i = 1; i < argc; i++ )
        if( 0 == strncmp(argv[i], key, n) && argv[i][n] == '=' ) return argv[i] + n + 1;
    return dflt;
}

static const char *tok_of(const char *line, const char *key, char *buf, size_t cap, const char *dflt)
{
    size_t n = strlen(key);
    const char *s = line;
    while( NULL != (s = strstr(s, key)) ) {
        if( (s == line || s[-1] == ' ') && s[n] == '=' ) {
            size_t i = 0;
            s += n + 1;
            while( *s && *s != ' ' && *s != '\n' && i + 1 < cap ) buf[i++] = *s++;
            buf[i] = 0;
            return buf;
        }
        s += n;
    }
    snprintf(buf, cap, "%s", dflt);
    return buf;
}

static void on_crash(int sig)
{
    vt_ev("\"e\":\"Crash\",\"sig\":%d", sig);
    vt_dump();
    vt_close();
    _exit(4);
}

static void log_final(vb_run_t *r)
{
    char b[VT_LINE - 96];
    int o = snprintf(b, sizeof(b), "[");
    for( int i = 0; i < r->ntiles; i++ ) {
        if( o + 8 * (r->ts + 1) >= (int)sizeof(b) ) {    /* never write past the line (lib/jdfgen.py:final_event_bound) */
            vt_ev("\"e\":\"ToolError\",\"tp\":%d,\"what\":\"collection too large for one Final event\"", r->index * 64);
            return;
        }
        if( i ) o += snprintf(b + o, sizeof(b) - o, ",");
        o += vb_fmt_ints(b + o, sizeof(b) - o, r->store + i * r->ts, r->ts);
    }
    snprintf(b + o, sizeof(b) - o, "]");
    vt_ev("\"e\":\"Final\",\"tp\":%d,\"coll\":%s", r->index * 64, b);
}

static int on_complete(parsec_taskpool_t *tp, void *data)
{
    vb_run_t *r = (vb_run_t*)data;
    (void)tp;
    int n = __sync_add_and_fetch(&r->done, 1);
    vt_ev("\"e\":\"TpDone\",\"tp\":%d,\"n\":%d", r->index * 64, n);
    return PARSEC_SUCCESS;
}

static void keys_of_space(vb_run_t *r)
{
    parsec_taskpool_t *tp = r->top;
    FILE *f = fopen(r->keys, "r");
    char name[64], txt[256], esc[512];
    int nl;
    if( NULL == f ) { vt_ev("\"e\":\"ToolError\",\"tp\":%d,\"what\":\"space file\"", r->index * 64); return; }
    while( 2 == fscanf(f, "%63s %d", name, &nl) ) {
        parsec_assignment_t loc[MAX_LOCAL_COUNT];
        int lv[MAX_LOCAL_COUNT], pv[MAXP], cls = -1;
        char sl[200], sp[96];
        memset(loc, 0, sizeof(loc));
        for( int i = 0; i < nl; i++ ) { if( 1 != fscanf(f, "%d", &lv[i]) ) lv[i] = 0; loc[i].value = lv[i]; }
        for( int i = 0; i < (int)tp->nb_task_classes; i++ )
            if( 0 == strcmp(tp->task_classes_array[i]->name, name) ) cls = i;
        if( cls < 0 ) { vt_ev("\"e\":\"ToolError\",\"tp\":%d,\"what\":\"class %s\"", r->index * 64, name); continue; }
        const parsec_task_class_t *tc = tp->task_classes_array[cls];
        for( int i = 0; i < tc->nb_parameters; i++ ) pv[i] = lv[tc->params[i]->context_index];
        parsec_key_t key = tc->make_key(tp, loc);
        uint64_t k64 = (uint64_t)(uintptr_t)key;
        memset(txt, 0, sizeof(txt));
        tc->key_functions->key_print(txt, sizeof(txt) - 1, key, tp);
        int e = 0;
        for( int i = 0; txt[i] && e < (int)sizeof(esc) - 2; i++ ) {
            if( txt[i] == '"' || txt[i] == '\\' ) esc[e++] = '\\';
            esc[e++] = ((unsigned char)txt[i] < 32) ? '?' : txt[i];
        }
        esc[e] = 0;
        vb_fmt_ints(sl, sizeof(sl), lv, nl);
        vb_fmt_ints(sp, sizeof(sp), pv, tc->nb_parameters);
        /* the 64-bit key is logged as three chunks < 2^31 (TLC integers are 32-bit) */
        vt_ev("\"e\":\"Key\",\"tp\":%d,\"cn\":\"%s\",\"p\":%s,\"l\":%s,\"k0\":%d,\"k1\":%d,\"k2\":%d,\"txt\":\"%s\"",
              r->index * 64, name, sp, sl, (int)(k64 & 0x3fffffff), (int)((k64 >> 30) & 0x3fffffff), (int)(k64 >> 60), esc);
    }
    fclose(f);
    vt_ev("\"e\":\"KeysDone\",\"tp\":%d", r->index * 64);
}

static vb_run_t *parse_run(const char *line, int index)
{
    char b[512];
    vb_run_t *r = (vb_run_t*)calloc(1, sizeof(vb_run_t));
    r->index = index;
    snprintf(r->prog, sizeof(r->prog), "%s", tok_of(line, "prog", b, sizeof(b), "vp"));
    r->N = atoi(tok_of(line, "N", b, sizeof(b), "4"));
    r->M = atoi(tok_of(line, "M", b, sizeof(b), "2"));
    r->K = atoi(tok_of(line, "K", b, sizeof(b), "1"));
    r->ntiles = atoi(tok_of(line, "ntiles", b, sizeof(b), "8"));
    r->ts = atoi(tok_of(line, "ts", b, sizeof(b), "1"));
    if( r->ts > MAXTS ) r->ts = MAXTS;
    if( r->ts < 1 ) r->ts = 1;
    sscanf(tok_of(line, "again", b, sizeof(b), "0:0"), "%d:%d", &r->again_seed, &r->again_max);
    snprintf(r->keys, sizeof(r->keys), "%s", tok_of(line, "keys", b, sizeof(b), ""));
    snprintf(r->pools, sizeof(r->pools), "%s", tok_of(line, "pools", b, sizeof(b), ""));
    r->maxev = atoi(tok_of(line, "maxev", b, sizeof(b), "100000"));
    for( int i = 0; NULL != vp_table[i].name; i++ )
        if( 0 == strcmp(vp_table[i].name, r->prog) ) r->entry = &vp_table[i];
    r->inst = (vb_inst_t*)calloc(MAXINST, sizeof(vb_inst_t));
    pthread_mutex_init(&r->lock, NULL);
    return r;
}

static int start_run(parsec_context_t *parsec, vb_run_t *r)
{
    int rc;
    if( NULL == r->entry ) { vt_ev("\"e\":\"ToolError\",\"tp\":%d,\"what\":\"unknown program %s\"", r->index * 64, r->prog); return -1; }
    vb_dc_init(r);
    vt_ev("\"e\":\"Run\",\"tp\":%d,\"prog\":\"%s\",\"N\":%d,\"M\":%d,\"K\":%d", r->index * 64, r->prog, r->N, r->M, r->K);
    if( r->pools[0] ) {
        const char *s = r->pools;
        parsec_taskpool_t *comp = NULL;
        while( NULL != s && *s && r->nsub < MAXSUB ) {
            int a = 1, b = 1, c = 1;
            sscanf(s, "%d:%d:%d", &a, &b, &c);
            r->sub[r->nsub] = r->entry->make(&r->super, a, b, c, r->index * 64 + r->nsub, r->ts * sizeof(int), dtt_of_ts[r->ts]);
            comp = parsec_compose(comp, r->sub[r->nsub]);
            r->nsub++;
            s = strchr(s, ',');
            if( NULL != s ) s++;
        }
        r->top = comp;
    } else {
        r->sub[0] = r->entry->make(&r->super, r->N, r->M, r->K, r->index * 64, r->ts * sizeof(int), dtt_of_ts[r->ts]);
        r->nsub = 1;
        r->top = r->sub[0];
    }
    /* completion of the (top-level) taskpool: the compound's own callback slot is free, the sub-pools' is not */
    parsec_taskpool_set_complete_callback(r->top, on_complete, r);
    rc = parsec_context_add_taskpool(parsec, r->top);
    r->started = 1;
    if( PARSEC_SUCCESS != rc ) vt_ev("\"e\":\"ToolError\",\"tp\":%d,\"what\":\"add_taskpool %d\"", r->index * 64, rc);
    return rc;
}

static int subs_terminated(vb_run_t *r)
{
    for( int j = 0; j < r->nsub; j++ ) {
        parsec_taskpool_t *tp = r->sub[j];
        if( NULL == tp->tdm.module || PARSEC_TERM_TP_TERMINATED != tp->tdm.module->taskpool_state(tp) ) return 0;
    }
    return 1;
}

static long now_ms(void)
{
    struct timespec t;
    clock_gettime(CLOCK_MONOTONIC, &t);
    return t.tv_sec * 1000L + t.tv_nsec / 1000000L;
}

int main(int argc, char **argv)
{
    const char *out = arg_of(argc, argv, "out", "trace.ndjson");
    const char *runsf = arg_of(argc, argv, "runs", NULL);
    int cores = atoi(arg_of(argc, argv, "cores", "2"));
    int conc = atoi(arg_of(argc, argv, "conc", "8"));
    long window = atol(arg_of(argc, argv, "window_ms", "2000"));
    parsec_context_t *parsec;
    int provided, pargc = 0, hung = 0;
    char **pargv = NULL, line[2048];
    FILE *rf;

    noise_seed = atoi(arg_of(argc, argv, "noise", "0"));
    {   /* safety net: a taskpool that generates tasks without end must not eat the machine */
        struct rlimit rl = { 8UL << 30, 8UL << 30 };
        setrlimit(RLIMIT_AS, &rl);
    }
    vt_init(60000);
    if( vt_open(out) < 0 ) { perror(out); return 2; }
    if( NULL == runsf || NULL == (rf = fopen(runsf, "r")) ) { fprintf(stderr, "runs file?\n"); return 2; }
    while( NULL != fgets(line, sizeof(line), rf) && nruns < MAXRUNS ) {
        if( line[0] == '#' || line[0] == '\n' ) continue;
        runs[nruns] = parse_run(line, nruns);
        nruns++;
    }
    fclose(rf);
    signal(SIGSEGV, on_crash); signal(SIGABRT, on_crash); signal(SIGBUS, on_crash); signal(SIGFPE, on_crash);

    MPI_Init_thread(&argc, &argv, MPI_THREAD_MULTIPLE, &provided);
    parsec = parsec_init(cores, &pargc, &pargv);
    if( NULL == parsec ) { vt_ev("\"e\":\"ToolError\",\"what\":\"parsec_init\""); vt_dump(); return 2; }
    for( int t = 1; t <= MAXTS; t++ ) parsec_type_create_contiguous(t, parsec_datatype_int_t, &dtt_of_ts[t]);
    /* one empty epoch first: on a single node the communication engine structures polled by
     * parsec_taskpool_test() are only allocated by the first parsec_context_wait() */
    parsec_context_start(parsec);
    parsec_context_wait(parsec);
    parsec_context_start(parsec);

    for( int first = 0; first < nruns; first += conc ) {
        int last = first + conc < nruns ? first + conc : nruns;
        int pending = 0;
        for( int i = first; i < last; i++ ) if( 0 == start_run(parsec, runs[i]) ) pending++; else runs[i]->finished = 1;
        long t_progress = now_ms(), t_begin = t_progress, seen = vt_next;
        while( pending > 0 ) {
            int worked = 0;
            for( int i = first; i < last; i++ ) {
                vb_run_t *r = runs[i];
                if( r->finished ) continue;
                if( r->keys[0] && !r->keys_done &&
                    PARSEC_TERM_TP_NOT_READY != r->top->tdm.module->taskpool_state(r->top) ) {
                    parsec_mfence();
                    keys_of_space(r);
                    r->keys_done = 1;
                }
                if( r->runaway && (!r->keys[0] || r->keys_done) ) {
                    vt_ev("\"e\":\"Runaway\",\"tp\":%d,\"bodies\":%d", r->index * 64, r->nev);
                    log_final(r);
                    r->finished = 1;
                    r->timed_out = 1;
                    hung++;
                    pending--;
                    continue;
                }
                if( r->done > 0 && subs_terminated(r) && (!r->keys[0] || r->keys_done) ) {
                    log_final(r);
                    r->finished = 1;
                    pending--;
                    t_progress = now_ms();
                    continue;
                }
                for( int j = 0; j < r->nsub; j++ ) {                             /* the master thread works too */
                    parsec_taskpool_t *tp = r->sub[j];
                    if( NULL == tp->context || NULL == tp->tdm.module ||
                        PARSEC_TERM_TP_TERMINATED == tp->tdm.module->taskpool_state(tp) ) continue;
                    worked += parsec_taskpool_test(tp);
                    break;
                }
            }
            if( vt_next != seen ) { seen = vt_next; t_progress = now_ms(); }
            {
                long t = now_ms();
                if( t - t_begin > 40 * window ) break;
                if( 0 == worked ) {
                    if( t - t_progress > window ) break;
                    usleep(50);
                }
            }
        }
        for( int i = first; i < last; i++ ) {
            vb_run_t *r = runs[i];
            if( !r->finished ) {
                r->timed_out = 1;
                hung++;
                vt_ev("\"e\":\"Timeout\",\"tp\":%d,\"done\":%d", r->index * 64, r->done);
                log_final(r);
            }
        }
        vt_dump();
        {   /* a taskpool that runs away keeps creating tasks: stop the process now (exit code 5), the caller re-runs
             * the remaining taskpools in a new process */
            int away = 0;
            for( int i = first; i < last; i++ ) away += runs[i]->runaway;
            if( away ) { vt_close(); _exit(5); }
        }
    }
    if( hung ) {            /* the context still holds taskpools that will never complete */
        vt_close();
        _exit(0);
    }
    parsec_context_wait(parsec);
    vt_dump();
    for( int i = 0; i < nruns; i++ ) {
        vb_run_t *r = runs[i];
        if( !r->started || NULL == r->entry ) continue;
        for( int j = 0; j < r->nsub; j++ ) r->entry->release(r->sub[j]);
        if( r->nsub > 1 ) parsec_taskpool_free(r->top);
    }
    vt_raw("{\"e\":\"ProcessDone\"}");
    vt_close();
    parsec_fini(&parsec);
    MPI_Finalize();
    return 0;
}
