"""Shared build / run helpers of the PTG checks (C01 C02 C15 C16 C23).

build_driver(ctx, progs, tag)        compile every program (AST) with parsec-ptgpp + cc, link them with
                                     harness/ptg/ptg_driver.c into one binary; returns the exe path
run_config(ctx, exe, runs, cfg, tag) run one process (one parsec context = one scheduler / thread count / startup
                                     parameters) over a list of runs; returns {run index -> list of events}
"""
import concurrent.futures
import hashlib
import json
import os
import shutil
import subprocess

from lib import jdfgen, vbuild, tracecheck

HERE = os.path.dirname(os.path.abspath(__file__))
# short TLC runs: few GC threads (the JVM start dominates); a large thread stack for the recursive operators of JDFSem
JVM_SHORT = ("-Xss64m", "-XX:ParallelGCThreads=2")
# trace validation (lib/tracecheck builds the java command itself): the same large thread stack through the environment;
# SeqFinal of JDFSem nests one lazily evaluated collection per task, a cold JVM overflows the default 1 MB at ~40 tasks
TRACE_ENV = {"JAVA_TOOL_OPTIONS": "-Xss64m"}


class phase(object):
    """with phase(ctx, "name"): ...  -> wall and CPU (children) seconds of the phase in the evidence"""

    def __init__(self, ctx, name):
        self.ctx, self.name = ctx, name

    def __enter__(self):
        import resource
        import time
        r = resource.getrusage(resource.RUSAGE_CHILDREN)
        self.t0, self.c0 = time.time(), r.ru_utime + r.ru_stime
        return self

    def __exit__(self, *a):
        import resource
        import time
        r = resource.getrusage(resource.RUSAGE_CHILDREN)
        d = self.ctx.extra.setdefault("phases", {}).setdefault(self.name, {"wall_s": 0.0, "cpu_s": 0.0})
        d["wall_s"] = round(d["wall_s"] + time.time() - self.t0, 1)
        d["cpu_s"] = round(d["cpu_s"] + r.ru_utime + r.ru_stime - self.c0, 1)
        return False


def _sh(cmd, cwd=None, timeout=600):
    p = subprocess.run(cmd, cwd=cwd, stdout=subprocess.PIPE, stderr=subprocess.STDOUT, timeout=timeout)
    return p.returncode, p.stdout.decode(errors="replace")


def _stamp():
    """what a compiled program depends on besides its own text: the PTG compiler, the headers, the body interface"""
    st = []
    for p in (vbuild.ptgpp(), os.path.join(HERE, "vp_body.h")):
        try:
            s = os.stat(p)
            st.append("%s:%d:%d" % (p, s.st_size, int(s.st_mtime)))
        except OSError:
            st.append(p + ":missing")
    st.append("hdr:%d" % int(vbuild._headers_mtime()))
    st.append(" ".join(vbuild.cflags()))
    return "|".join(st)


def _prune_cache(keep=1500):
    """the object cache stays small: oldest entries beyond `keep` are removed"""
    cdir = os.path.join(vbuild.BUILD_ROOT, "ptg-cache")
    try:
        fs = [os.path.join(cdir, f) for f in os.listdir(cdir) if f.endswith(".o")]
        if len(fs) > keep:
            fs.sort(key=os.path.getmtime)
            for f in fs[:len(fs) - keep]:
                os.unlink(f)
    except OSError:
        pass


def _compile_one(args):
    prog, outdir, backend, stamp = args
    name = prog["name"]
    jdf = os.path.join(outdir, name + ".jdf")
    text = jdfgen.to_jdf(prog)
    with open(jdf, "w") as f:
        f.write(text)
    # object cache (pure function of the JDF text, the back-end, the PTG compiler binary and the headers)
    cdir = os.path.join(vbuild.BUILD_ROOT, "ptg-cache")
    os.makedirs(cdir, exist_ok=True)
    key = hashlib.sha1((text + "|" + str(backend) + "|" + stamp).encode()).hexdigest()
    cobj = os.path.join(cdir, key + ".o")
    obj = os.path.join(outdir, name + ".o")
    if os.path.exists(cobj):
        shutil.copy(cobj, obj)
        return name, None
    flags = ["-M", backend] if backend else []
    rc, out = _sh([vbuild.ptgpp(), "-E", "-i", jdf, "-o", name, "-f", name] + flags, cwd=outdir, timeout=120)
    if rc != 0:
        return name, "ptgpp failed on %s:\n%s" % (name, out[-2000:])
    rc, out = _sh(["cc"] + vbuild.cflags() + ["-O0", "-w", "-I" + HERE, "-I" + outdir, "-c",
                   os.path.join(outdir, name + ".c"), "-o", obj], timeout=300)
    if rc != 0:
        return name, "cc failed on %s:\n%s" % (name, out[-2000:])
    tmp = cobj + ".%d.tmp" % os.getpid()
    shutil.copy(obj, tmp)
    os.replace(tmp, cobj)
    return name, None


def build_driver(ctx, progs, tag, backends=None, jobs=6):
    """progs: list of ASTs with distinct names.  backends: name -> 'index-array' | 'dynamic-hash-table' | None."""
    ctx.build()
    outdir = os.path.join(ctx.scratch, "ptg-" + tag)
    os.makedirs(outdir, exist_ok=True)
    backends = backends or {}
    stamp = _stamp()
    _prune_cache()
    work = [(p, outdir, backends.get(p["name"]), stamp) for p in progs]
    with concurrent.futures.ThreadPoolExecutor(max_workers=jobs) as ex:
        res = list(ex.map(_compile_one, work))
    errs = [e for _, e in res if e]
    if errs:
        raise vbuild.BuildError("generated program does not compile:\n" + "\n".join(errs[:3]))
    names = [p["name"] for p in progs]
    with open(os.path.join(outdir, "vp_table.c"), "w") as f:
        f.write(jdfgen.table_c(names))
    exe = os.path.join(outdir, "driver")
    cmd = ["cc"] + vbuild.cflags() + ["-I" + HERE, os.path.join(HERE, "ptg_driver.c"),
                                      os.path.join(outdir, "vp_table.c")] + \
          [os.path.join(outdir, n + ".o") for n in names] + ["-o", exe] + vbuild.ldflags()
    rc, out = _sh(cmd, timeout=600)
    if rc != 0:
        raise vbuild.BuildError("driver link failed:\n" + out[-3000:])
    return exe


def run_line(r):
    """run description (dict) -> line of the runs file"""
    g = r["prog"]["globals"]
    s = "prog=%s N=%d M=%d K=%d ntiles=%d ts=%d" % (r["prog"]["name"], r.get("N", g["N"]), r.get("M", g["M"]),
                                                   r.get("K", g["K"]), r["prog"]["ntiles"], r["prog"]["ts"])
    if r.get("again"):
        s += " again=%d:%d" % tuple(r["again"])
    if r.get("keys"):
        s += " keys=%s" % r["keys"]
    if r.get("pools"):
        s += " pools=%s" % ",".join("%d:%d:%d" % tuple(p) for p in r["pools"])
    if r.get("maxev"):
        s += " maxev=%d" % r["maxev"]
    return s


def config_env(cfg):
    env = {"OMPI_MCA_ess_singleton_isolated": "1", "OMPI_MCA_btl": "self", "OMPI_MCA_pml": "ob1",
           "PARSEC_MCA_mca_sched": cfg.get("sched", "lfq")}
    if cfg.get("iter") is not None:
        env["PARSEC_MCA_task_startup_iter"] = str(cfg["iter"])
    if cfg.get("chunk") is not None:
        env["PARSEC_MCA_task_startup_chunk"] = str(cfg["chunk"])
    return env


def run_config(ctx, exe, runs, cfg, tag, window_ms=2500, timeout=300):
    """Execute `runs` (list of dicts with 'prog' AST etc.) in one process.  Returns (per_run_events, info):
    per_run_events[i] = events of run i (without the tp field folded away), or None when the process died before
    starting it; info has rc / stderr."""
    d = os.path.dirname(exe)
    rf = os.path.join(d, "runs-%s.txt" % tag)
    tr = os.path.join(d, "trace-%s.ndjson" % tag)
    with open(rf, "w") as f:
        for r in runs:
            f.write(run_line(r) + "\n")
    cmd = [exe, "runs=" + rf, "out=" + tr, "cores=%d" % cfg.get("cores", 2), "conc=%d" % cfg.get("conc", 8),
           "window_ms=%d" % window_ms, "noise=%d" % cfg.get("noise", 0)]
    rc, out, err = ctx.run_cmd(cmd, timeout=timeout, env=config_env(cfg))
    evs = tracecheck.read_ndjson(tr) if os.path.exists(tr) else []
    per = [None] * len(runs)
    process_done = False
    for e in evs:
        if e.get("e") == "ProcessDone":
            process_done = True
            continue
        tp = e.get("tp")
        if tp is None:
            continue
        i = tp // 64
        if i >= len(runs):
            continue
        if per[i] is None:
            per[i] = []
        per[i].append(e)
    info = {"rc": rc, "stderr": err[-600:], "stdout": out[-300:], "process_done": process_done, "cmd": " ".join(cmd),
            "env": config_env(cfg)}
    try:
        os.unlink(tr)
    except OSError:
        pass
    return per, info


KEEP = {"Start": ("e", "c", "p", "l", "th", "a", "r"), "Again": ("e", "c", "p", "th", "a"),
        "End": ("e", "c", "p", "th", "a", "w"), "Run": ("e", "prog"), "TpDone": ("e", "n"), "Final": ("e", "coll")}


def execution(prog, events, info=None):
    """events of one run -> self-contained execution for ExecTrace.tla (Prog event first)."""
    ex = [{"e": "Prog", "prog": prog}]
    if events is None:
        ex.append({"e": "Crash", "what": "the process died before this run", "info": (info or {}).get("stderr", "")[-200:]})
        return ex
    for e in events:
        k = KEEP.get(e.get("e"))
        if k is None:
            ex.append({x: y for x, y in e.items() if x != "s"})
        else:
            ex.append({x: e[x] for x in k if x in e})
    if not events or events[-1].get("e") != "Final":
        ex.append({"e": "Crash", "what": "run did not reach its end", "info": (info or {}).get("stderr", "")[-200:]})
    return ex


# ---------------------------------------------------------------------------------------------- model checking
def small_programs(quick):
    """Programs small enough for exhaustive model checking of spec/PTG/Exec.tla:
    (name, AST, AgainMax, StartupIter, StartupChunk)."""
    J = jdfgen
    out = []
    b = J.Builder(N=2, M=2); J.t_bcast(b, "P", "Q", "asc", "tri_lo", gather="R", raw=True)
    out.append(("bcast_gather_raw", b.build(), 0 if quick else 1, 64, 256))
    b = J.Builder(N=3); J.t_chain(b, "CH", "desc")
    out.append(("chain_desc_again", b.build(), 1 if quick else 2, 64, 256))
    b = J.Builder(N=2); J.t_mask2(b, "desc")
    out.append(("mask2_desc", b.build(), 0, 64, 256))
    b = J.Builder(N=3 if quick else 4); J.t_indep(b, "T", ["step2"], flowkind="new"); J.t_indep(b, "U", ["desc"], flowkind="rwread")
    out.append(("startup_chunk1", b.build(), 0, 1, 1))
    b = J.Builder(N=2); J.t_chain(b, "CH", "asc", orient="tm", src="new"); J.t_route(b, "asc", "mt", "data")
    out.append(("chain_new_route_writeback", b.build(), 0, 64, 256))
    if not quick:
        b = J.Builder(N=6); J.t_indep(b, "T", ["asc"])
        out.append(("startup_chunk2", b.build(), 0, 2, 2))
        b = J.Builder(N=3, M=2); J.t_bcast(b, "P", "Q", "desc", "rect_desc", gather="R", raw=False)
        out.append(("bcast_desc", b.build(), 0, 64, 256))
        b = J.Builder(N=4); J.t_split(b, False)
        out.append(("split", b.build(), 0, 64, 256))
        b = J.Builder(N=2); J.t_pipe(b, "desc")
        out.append(("pipe_again", b.build(), 1, 64, 256))
    return out


EXEC_INVARIANTS = ("RanOnce", "OnlySpace", "StartAfterPreds", "NoRestart", "StartupOnce", "TermOK")


def model_checks(ctx, d):
    """TLC checks Exec.tla exhaustively on the small programs (all interleavings of the startup generators and the
    task life cycles) and shows that the model is sensitive: with the `<=`-only loops a descending range deadlocks.
    Vacuity: deadlock checking is on and the only terminal action needs term = TRUE, so every maximal behaviour ran
    every task (TermOK); the search depth is checked as a second guard."""
    from lib import mcgen, tlc
    res = []
    with phase(ctx, "model_checking"):
        _model_checks(ctx, d, res)
    ctx.exhaustive = True
    ctx.extra["exec_models"] = res
    return res


def _model_checks(ctx, d, res):
    from lib import mcgen, tlc
    small = small_programs(ctx.quick)
    progs, nmax = [], 0
    for name, p, again, it, ch in small:
        interp, _ = jdfgen.validate(p)
        nmax = max(nmax, len(interp.order))
        progs.append({"prog": p, "again": again, "iter": it, "chunk": ch})
        res.append({"program": name, "tasks": len(interp.order), "again_max": again, "iter": it, "chunk": ch})
    # one TLC run explores every program (the initial state chooses it)
    mod, cfg = mcgen.write_mc(d, "exec_all", "Exec", {"Progs": progs, "LoopLE": False}, invariants=EXEC_INVARIANTS,
                              deadlock=True)
    r = ctx.tlc_check(d, mod, cfg, workers=4, timeout=3000, heap="6g", jvm=JVM_SHORT)
    if r.depth < 2 * nmax + 1:
        raise tlc.TLCError("vacuity guard: Exec explored depth %d < %d" % (r.depth, 2 * nmax + 1))
    name, p, again, it, ch = small_programs(True)[1]
    mod, cfg = mcgen.write_mc(d, "exec_le", "Exec", {"Progs": [{"prog": p, "again": 0, "iter": it, "chunk": ch}],
                                                    "LoopLE": True}, invariants=EXEC_INVARIANTS, deadlock=True)
    r = ctx.tlc_check(d, mod, cfg, expect_ok=False, workers=1, timeout=600, heap="2g", jvm=JVM_SHORT)
    if r.violated != "deadlock":
        raise tlc.TLCError("sensitivity self-test: Exec with `<=`-only loops must deadlock on a descending chain, got %r" % r.violated)


def cross_check_programs(ctx, entries, tag):
    """The generator's interpretation of every program (space size, startup instances, sequential result) against
    TLC's evaluation of JDFSem on the same AST; TLC also checks WellFormed / Consistent.  Disagreement = tool error."""
    from lib import tlc
    pf = os.path.join(ctx.scratch, "progs-%s.ndjson" % tag)
    with open(pf, "w") as f:
        for e in entries:
            f.write(jdfgen.to_json(e["prog"]) + "\n")
    r = ctx.tlc_check("PTG", "ProgModel", "ProgModel.cfg", workers=1, env={"PROGS": pf}, timeout=1500, heap="4g",
                      jvm=JVM_SHORT)
    seen = {}
    for line in r.printed:
        h = tlc._parse_tla_string_list(line)
        if h:
            seen[h["name"]] = h
    if len(seen) != len(entries) or r.distinct != len(entries) + 1:
        raise tlc.TLCError("vacuity guard: ProgModel evaluated %d of %d programs" % (len(seen), len(entries)))
    for e in entries:
        it, res = jdfgen.validate(e["prog"])
        h = seen[e["prog"]["name"]]
        if h["n"] != len(it.order) or h["startup"] != len(res["startup"]) or h["final"] != res["final"]:
            raise tlc.TLCError("the generator and JDFSem.tla disagree on program %s %s: tasks %d/%d, startup %d/%d, "
                               "final equal=%s" % (e["prog"]["name"], e["tags"], len(it.order), h["n"],
                                                   len(res["startup"]), h["startup"], h["final"] == res["final"]))
    ctx.extra["programs_cross_checked"] = ctx.extra.get("programs_cross_checked", 0) + len(entries)


# ---------------------------------------------------------------------------------------------- campaigns
def _ex_meta(entry, cfg, run):
    m = {"program": entry["prog"]["name"], "tags": entry["tags"], "config": {k: v for k, v in cfg.items()}}
    if run.get("again"):
        m["again"] = list(run["again"])
    return m


def campaign(ctx, entries, configs, trace_cfg, tag, again=None, window_ms=1500, jobs=4, backends=None,
             known_key="descending-range", what="execution"):
    """Run every program of `entries` under every configuration (one process per configuration), confirm hangs with
    a 10x window, validate every execution against ExecTrace (trace_cfg) and report violations.
    again: None or function(entry, cfg_index) -> (seed, max)."""
    import concurrent.futures
    known = ctx.known_finding(known_key) is not None
    if known:
        # the finding is listed: keep two representatives to show it still reproduces, skip the rest of the class
        keep, ndesc = [], 0
        for e in entries:
            if e["desc"]:
                ndesc += 1
                if ndesc > 2:
                    continue
            keep.append(e)
        ctx.extra["skipped_known_class_programs"] = len(entries) - len(keep)
        entries = keep
    for e in entries:
        if jdfgen.final_event_bound(e["prog"]) > jdfgen.FINAL_EVENT_MAX:
            from lib import tlc
            raise tlc.TLCError("program %s: the collection (%d tiles x %d) does not fit the recorder's Final event" % (
                e["prog"]["name"], e["prog"]["ntiles"], e["prog"]["ts"]))
    with phase(ctx, "cross_check_programs"):
        cross_check_programs(ctx, entries, tag)
    with phase(ctx, "build"):
        exe = build_driver(ctx, [e["prog"] for e in entries], tag, backends=backends)
    return _campaign(ctx, entries, configs, trace_cfg, tag, again, window_ms, jobs, known_key, what, exe)


def _campaign(ctx, entries, configs, trace_cfg, tag, again, window_ms, jobs, known_key, what, exe):
    import concurrent.futures
    t_run = phase(ctx, "runs").__enter__()
    executions = []          # (meta, events)
    hung = {}                # program name -> (meta, events)
    excluded = set()

    def runs_for(ents, ci):
        rs = []
        for e in ents:
            r = {"prog": e["prog"]}
            amax = 0
            if again is not None:
                a = again(e, ci)
                if a:
                    r["again"] = a
                    amax = a[1]
            if e.get("ntasks") is not None:       # a taskpool that runs more bodies than this runs away
                r["maxev"] = 2 * e["ntasks"] * (amax + 1) + 10
            rs.append(r)
        return rs

    def one_config(ci, ents, win, t):
        cfg = configs[ci]
        rs = runs_for(ents, ci)
        per, info = run_config(ctx, exe, rs, cfg, "%s-c%d-%s" % (tag, ci, t), window_ms=win,
                               timeout=120 + 30 * win // 1000)
        if info["rc"] != 0 and len(ents) > 1:
            # the process died (crash in one taskpool takes the concurrent ones with it): run the taskpools one after
            # another, so that the failure is attributed to the program that causes it; restart after each casualty
            seq = dict(cfg)
            seq["conc"] = 1
            per = [None] * len(ents)
            start, rounds = 0, 0
            while start < len(ents) and rounds < 12:
                rounds += 1
                p2, i2 = run_config(ctx, exe, rs[start:], seq, "%s-c%d-%s-seq%d" % (tag, ci, t, rounds), window_ms=win,
                                    timeout=180 + 30 * win // 1000)
                info = i2
                last = -1
                for k, evs in enumerate(p2):
                    if evs is not None:
                        per[start + k] = evs
                        last = k
                if i2["rc"] == 0 or last < 0:
                    break
                start = start + last + 1          # `last` is the casualty (its events end without Final)
            lost = sum(1 for x in per if x is None)
            if lost:
                ctx.extra["not_executed_after_crash"] = ctx.extra.get("not_executed_after_crash", 0) + lost
            keep = [k for k, x in enumerate(per) if x is not None]
            ents, rs, per = [ents[k] for k in keep], [rs[k] for k in keep], [per[k] for k in keep]
        return ci, ents, rs, per, info

    def absorb(ci, ents, rs, per, info, confirm_list):
        for e, r, evs in zip(ents, rs, per):
            ex = execution(e["prog"], evs, info)
            meta = _ex_meta(e, configs[ci], r)
            if any(x.get("e") in ("Timeout", "Runaway") for x in ex):
                confirm_list.append((ci, e, meta, ex))
            else:
                executions.append((meta, ex))

    # phase 1: first configuration alone (fail fast on programs that never terminate)
    pend = []
    absorb(*one_config(0, entries, window_ms, "p1"), confirm_list=pend)
    phases = [(0, pend)]
    if pend:
        ents = [e for _, e, _, _ in pend]
        again_list = []
        ci, ents2, rs, per, info = one_config(0, ents, 10 * window_ms, "p1c")
        absorb(ci, ents2, rs, per, info, confirm_list=again_list)
        for _, e, meta, ex in again_list:
            hung[e["prog"]["name"]] = (meta, ex)
            excluded.add(e["prog"]["name"])
        ctx.extra["timeouts_not_confirmed"] = ctx.extra.get("timeouts_not_confirmed", 0) + len(pend) - len(again_list)
    rest = [e for e in entries if e["prog"]["name"] not in excluded]
    # phase 2: the other configurations in parallel
    pend2 = []
    if len(configs) > 1 and rest:
        with concurrent.futures.ThreadPoolExecutor(max_workers=jobs) as ex:
            for res in ex.map(lambda ci: one_config(ci, rest, window_ms, "p2"), range(1, len(configs))):
                absorb(*res, confirm_list=pend2)
    if pend2:
        byc = {}
        for ci, e, meta, exn in pend2:
            byc.setdefault(ci, []).append(e)
        again_list = []
        with concurrent.futures.ThreadPoolExecutor(max_workers=jobs) as ex:
            for res in ex.map(lambda ci: one_config(ci, byc[ci], 10 * window_ms, "p2c"), sorted(byc)):
                absorb(*res, confirm_list=again_list)
        for ci, e, meta, exn in again_list:
            hung.setdefault(e["prog"]["name"] + "@%d" % ci, (meta, exn))
        ctx.extra["timeouts_not_confirmed"] = ctx.extra.get("timeouts_not_confirmed", 0) + len(pend2) - len(again_list)

    t_run.__exit__()
    # validation
    t_val = phase(ctx, "trace_validation").__enter__()
    executions.sort(key=lambda me: me[0]["program"])
    ctx.evaluations += len(executions) + len(hung)
    ctx.extra["executions_run"] = ctx.extra.get("executions_run", 0) + len(executions) + len(hung)
    ctx.extra["programs"] = ctx.extra.get("programs", 0) + len(entries)
    ctx.extra["configurations"] = [dict(c) for c in configs]
    distinct, mult = tracecheck.dedupe([ex for _, ex in executions], strip=("s", "th"))
    # map distinct index -> first meta
    first = {}
    for (meta, ex) in executions:
        key = json.dumps([{k: v for k, v in ev.items() if k not in ("s", "th")} for ev in ex], sort_keys=True)
        first.setdefault(key, meta)
    metas = [first[json.dumps(ex, sort_keys=True)] for ex in distinct]
    ctx.extra["distinct_executions"] = ctx.extra.get("distinct_executions", 0) + len(distinct)
    if distinct:
        big = max(range(len(distinct)), key=lambda i: len(distinct[i]))
        ctx.sample({"program": metas[big]["program"], "tags": metas[big]["tags"], "config": metas[big]["config"],
                    "events": distinct[big][1:12], "nevents": len(distinct[big])})
    isdesc = {e["prog"]["name"]: e["desc"] for e in entries}
    fails = ctx.validate("PTG", "ExecTrace", trace_cfg, distinct, batch=400, timeout=1500, env=TRACE_ENV)
    ctx.traces = ctx.extra["executions_run"]
    for f in fails:
        meta = metas[f.index]
        ctx.violation("%s of generated PTG program %s %s under %s is rejected by ExecTrace (%s): %s" % (
            what, meta["program"], meta["tags"], meta["config"], trace_cfg, json.dumps(f.describe())[:900]),
            {"meta": meta, "events": f.execution, "detail": f.describe(), "trace_cfg": trace_cfg},
            key=(known_key if isdesc.get(meta["program"], False) else None))   # class of the finding: a negative step
    if not fails and distinct:          # every distinct execution was accepted: corrupt one of them
        cands = [ex for ex in distinct if 8 <= len(ex) <= 60 and any(ev.get("e") == "End" and any(ev.get("w") or [])
                                                                      for ev in ex)] or distinct
        fn, txt = corrupt_exec(trace_cfg)
        corruption_selftest(ctx, "PTG", "ExecTrace", trace_cfg, cands[0], fn, txt)
    # hangs: the Timeout event is never enabled; validate (at most two, the others are the same observation)
    names = sorted(hung, key=lambda n: (isdesc.get(hung[n][0]["program"], False), n))    # other classes first
    ctx.extra.setdefault("hangs", []).extend(
        {"program": hung[n][0]["program"], "tags": hung[n][0]["tags"], "config": hung[n][0]["config"]} for n in names)
    for n in names[:2]:
        meta, ex = hung[n]
        entry = [e for e in entries if e["prog"]["name"] == meta["program"]][0]
        fl = ctx.validate("PTG", "ExecTrace", trace_cfg, [ex], timeout=600, env=TRACE_ENV)
        for f in fl:
            ctx.violation("taskpool of generated PTG program %s %s under %s never terminates or runs more bodies than its space has (re-confirmed with a 10x "
                          "no-progress window; %d programs/configurations hang in this run: %s): %s" % (
                              meta["program"], meta["tags"], meta["config"], len(names),
                              ", ".join(names[:12]), json.dumps(f.describe())[:600]),
                          {"meta": meta, "events": ex, "detail": f.describe(), "trace_cfg": trace_cfg,
                           "jdf": jdfgen.to_jdf(entry["prog"])},
                          key=(known_key if entry["desc"] else None))
    t_val.__exit__()
    return executions, hung


def corruption_selftest(ctx, spec_dir, module, cfg, execution, corrupt, what):
    """Sensitivity of the trace specification: `corrupt` changes one field of an accepted execution (returns the
    corrupted copy or None); the result must be rejected, otherwise the check itself is broken (tool error)."""
    from lib import tlc
    bad = corrupt(json.loads(json.dumps(execution)))
    if bad is None:
        return
    # (the original execution was accepted as part of the validated batch); one TLC run: accepted or not
    path = os.path.join(ctx.scratch, "selftest-%d.ndjson" % len(ctx.extra.get("corruption_selftests", [])))
    tracecheck._write(bad, path)
    v, r = tracecheck.validate_file(ctx.spec(spec_dir), module, cfg, path, timeout=600, env=TRACE_ENV)
    ctx.extra["trace_tlc_runs"] = ctx.extra.get("trace_tlc_runs", 0) + 1
    if v.accepted:
        raise tlc.TLCError("sensitivity self-test of %s/%s failed (%s): the corrupted execution was accepted" % (
            module, cfg, what))
    ctx.extra.setdefault("corruption_selftests", []).append({"what": what, "events": len(bad), "rejected": True,
                                                             "reason": v.reason})


def corrupt_exec(trace_cfg):
    """one-field corruptions of an ExecTrace execution, by configuration"""
    def c01(ex):            # a body of an instance that is not in the space
        for ev in ex:
            if ev.get("e") == "Start" and ev["p"]:
                key = (ev["c"], list(ev["p"]))
                for e2 in ex:
                    if e2.get("e") in ("Start", "End", "Again") and (e2["c"], list(e2["p"])) == key:
                        e2["p"] = [e2["p"][0] + 1000] + list(e2["p"][1:])
                return ex
        return None

    def c02(ex):            # one value written differs by one
        for ev in ex:
            if ev.get("e") == "End" and any(ev["w"]):
                for w in ev["w"]:
                    if w:
                        w[0] = (w[0] + 1) % FMOD_
                        return ex
        return None

    def c16(ex):            # a second Start/End of an instance that already ended
        for i, ev in enumerate(ex):
            if ev.get("e") == "End":
                st = [e for e in ex[:i] if e.get("e") == "Start" and e["c"] == ev["c"] and e["p"] == ev["p"]][-1]
                return ex[:i + 1] + [dict(st), dict(ev)] + ex[i + 1:]
        return None
    return {"ExecTraceC01.cfg": (c01, "Start of an instance outside the space"),
            "ExecTraceC02.cfg": (c02, "one written value changed"),
            "ExecTraceC16.cfg": (c16, "an ended instance started again")}[trace_cfg]


FMOD_ = jdfgen.FMOD


def replay_trace(ctx, obj):
    fails = ctx.validate("PTG", "ExecTrace", obj.get("trace_cfg", "ExecTraceC01.cfg"), [obj["events"]], env=TRACE_ENV)
    for f in fails:
        ctx.violation("recorded execution still rejected: %s" % json.dumps(f.describe())[:900], obj)
