"""Shared build / run helpers of the PTG checks (C01 C02 C15 C16 C23).

build_driver(ctx, progs, tag)        compile every program (AST) with parsec-ptgpp + cc, link them with
                                     harness/ptg/ptg_driver.c into one binary; returns the exe path
run_config(ctx, exe, runs, cfg, tag) run one process (one parsec context = one scheduler / thread count / startup
                                     parameters) over a list of runs; returns {run index -> list of events}
"""
import concurrent.futures
import hashlib
import json
import os
import shutil
import subprocess

from lib import jdfgen, vbuild, tracecheck

HERE = os.path.dirname(os.path.abspath(__file__))


def _sh(cmd, cwd=None, timeout=600):
    p = subprocess.run(cmd, cwd=cwd, stdout=subprocess.PIPE, stderr=subprocess.STDOUT, timeout=timeout)
    return p.returncode, p.stdout.decode(errors="replace")


def _stamp():
    """what a compiled program depends on besides its own text: the PTG compiler, the headers, the body interface"""
    st = []
    for p in (vbuild.ptgpp(), os.path.join(HERE, "vp_body.h")):
        try:
            s = os.stat(p)
            st.append("%s:%d:%d" % (p, s.st_size, int(s.st_mtime)))
        except OSError:
            st.append(p + ":missing")
    st.append("hdr:%d" % int(vbuild._headers_mtime()))
    st.append(" ".join(vbuild.cflags()))
    return "|".join(st)


def _compile_one(args):
    prog, outdir, backend, stamp = args
    name = prog["name"]
    jdf = os.path.join(outdir, name + ".jdf")
    text = jdfgen.to_jdf(prog)
    with open(jdf, "w") as f:
        f.write(text)
    # object cache (pure function of the JDF text, the back-end, the PTG compiler binary and the headers)
    cdir = os.path.join(vbuild.BUILD_ROOT, "ptg-cache")
    os.makedirs(cdir, exist_ok=True)
    key = hashlib.sha1((text + "|" + str(backend) + "|" + stamp).encode()).hexdigest()
    cobj = os.path.join(cdir, key + ".o")
    obj = os.path.join(outdir, name + ".o")
    if os.path.exists(cobj):
        shutil.copy(cobj, obj)
        return name, None
    flags = ["-M", backend] if backend else []
    rc, out = _sh([vbuild.ptgpp(), "-E", "-i", jdf, "-o", name, "-f", name] + flags, cwd=outdir, timeout=120)
    if rc != 0:
        return name, "ptgpp failed on %s:\n%s" % (name, out[-2000:])
    rc, out = _sh(["cc"] + vbuild.cflags() + ["-O0", "-w", "-I" + HERE, "-I" + outdir, "-c",
                   os.path.join(outdir, name + ".c"), "-o", obj], timeout=300)
    if rc != 0:
        return name, "cc failed on %s:\n%s" % (name, out[-2000:])
    tmp = cobj + ".%d.tmp" % os.getpid()
    shutil.copy(obj, tmp)
    os.replace(tmp, cobj)
    return name, None


def build_driver(ctx, progs, tag, backends=None, jobs=6):
    """progs: list of ASTs with distinct names.  backends: name -> 'index-array' | 'dynamic-hash-table' | None."""
    ctx.build()
    outdir = os.path.join(ctx.scratch, "ptg-" + tag)
    os.makedirs(outdir, exist_ok=True)
    backends = backends or {}
    stamp = _stamp()
    work = [(p, outdir, backends.get(p["name"]), stamp) for p in progs]
    with concurrent.futures.ThreadPoolExecutor(max_workers=jobs) as ex:
        res = list(ex.map(_compile_one, work))
    errs = [e for _, e in res if e]
    if errs:
        raise vbuild.BuildError("generated program does not compile:\n" + "\n".join(errs[:3]))
    names = [p["name"] for p in progs]
    with open(os.path.join(outdir, "vp_table.c"), "w") as f:
        f.write(jdfgen.table_c(names))
    exe = os.path.join(outdir, "driver")
    cmd = ["cc"] + vbuild.cflags() + ["-I" + HERE, os.path.join(HERE, "ptg_driver.c"),
                                      os.path.join(outdir, "vp_table.c")] + \
          [os.path.join(outdir, n + ".o") for n in names] + ["-o", exe] + vbuild.ldflags()
    rc, out = _sh(cmd, timeout=600)
    if rc != 0:
        raise vbuild.BuildError("driver link failed:\n" + out[-3000:])
    return exe


def run_line(r):
    """run description (dict) -> line of the runs file"""
    g = r["prog"]["globals"]
    s = "prog=%s N=%d M=%d K=%d ntiles=%d ts=%d" % (r["prog"]["name"], r.get("N", g["N"]), r.get("M", g["M"]),
                                                   r.get("K", g["K"]), r["prog"]["ntiles"], r["prog"]["ts"])
    if r.get("again"):
        s += " again=%d:%d" % tuple(r["again"])
    if r.get("keys"):
        s += " keys=%s" % r["keys"]
    if r.get("pools"):
        s += " pools=%s" % ",".join("%d:%d:%d" % tuple(p) for p in r["pools"])
    return s


def config_env(cfg):
    env = {"OMPI_MCA_ess_singleton_isolated": "1", "OMPI_MCA_btl": "self", "OMPI_MCA_pml": "ob1",
           "PARSEC_MCA_mca_sched": cfg.get("sched", "lfq")}
    if cfg.get("iter") is not None:
        env["PARSEC_MCA_task_startup_iter"] = str(cfg["iter"])
    if cfg.get("chunk") is not None:
        env["PARSEC_MCA_task_startup_chunk"] = str(cfg["chunk"])
    return env


def run_config(ctx, exe, runs, cfg, tag, window_ms=2500, timeout=300):
    """Execute `runs` (list of dicts with 'prog' AST etc.) in one process.  Returns (per_run_events, info):
    per_run_events[i] = events of run i (without the tp field folded away), or None when the process died before
    starting it; info has rc / stderr."""
    d = os.path.dirname(exe)
    rf = os.path.join(d, "runs-%s.txt" % tag)
    tr = os.path.join(d, "trace-%s.ndjson" % tag)
    with open(rf, "w") as f:
        for r in runs:
            f.write(run_line(r) + "\n")
    cmd = [exe, "runs=" + rf, "out=" + tr, "cores=%d" % cfg.get("cores", 2), "conc=%d" % cfg.get("conc", 8),
           "window_ms=%d" % window_ms, "noise=%d" % cfg.get("noise", 0)]
    rc, out, err = ctx.run_cmd(cmd, timeout=timeout, env=config_env(cfg))
    evs = tracecheck.read_ndjson(tr) if os.path.exists(tr) else []
    per = [None] * len(runs)
    process_done = False
    for e in evs:
        if e.get("e") == "ProcessDone":
            process_done = True
            continue
        tp = e.get("tp")
        if tp is None:
            continue
        i = tp // 64
        if i >= len(runs):
            continue
        if per[i] is None:
            per[i] = []
        per[i].append(e)
    info = {"rc": rc, "stderr": err[-600:], "stdout": out[-300:], "process_done": process_done, "cmd": " ".join(cmd),
            "env": config_env(cfg)}
    try:
        os.unlink(tr)
    except OSError:
        pass
    return per, info


KEEP = {"Start": ("e", "c", "p", "l", "th", "a", "r"), "Again": ("e", "c", "p", "th", "a"),
        "End": ("e", "c", "p", "th", "a", "w"), "Run": ("e", "prog"), "TpDone": ("e", "n"), "Final": ("e", "coll")}


def execution(prog, events, info=None):
    """events of one run -> self-contained execution for ExecTrace.tla (Prog event first)."""
    ex = [{"e": "Prog", "prog": prog}]
    if events is None:
        ex.append({"e": "Crash", "what": "the process died before this run", "info": (info or {}).get("stderr", "")[-200:]})
        return ex
    for e in events:
        k = KEEP.get(e.get("e"))
        if k is None:
            ex.append({x: y for x, y in e.items() if x != "s"})
        else:
            ex.append({x: e[x] for x in k if x in e})
    if not events or events[-1].get("e") != "Final":
        ex.append({"e": "Crash", "what": "run did not reach its end", "info": (info or {}).get("stderr", "")[-200:]})
    return ex
