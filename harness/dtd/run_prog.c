/* Generic DTD program driver for C03 / C04 / C17.
 *
 *   run_prog <programs.txt> <trace-prefix> <threads> [skip]
 *
 * Each line of programs.txt is one program (a behaviour of spec/DTD/Seq.tla printed by TLC, turned into text by the
 * check):
 *     nd=<ND> fl=<A|S:d,d,..> w=<window> th=<threshold> ins=<0|1> sp=<min_us>:<max_us> nz=<0|1> id=<min_us>:<max_us> ar=<0|1> ; <rank> <nacc> d m d m .. ; ...
 * ar=1 (two arena datatypes): the tiles of this program are WIDE ints wide and every access names the WIDE-int arena
 * datatype, which was attached SECOND (id 1; the one-int datatype attached first keeps id 0 and is smaller).  The
 * logical value v of a tile is stored as element i = (v + i * ESTEP) mod PMOD; bodies write every element, log the
 * value decoded from element 0 in "reads" and, in "rt", the value decoded from the first element that disagrees with
 * element 0 (the same value when the tile is consistent); Owner events carry "vs" = the values decoded from every
 * element: a partially copied tile shows as two different values.  The second datatype is attached when the first
 * ar=1 program is met (every rank reads the same file): without such a program the driver has one datatype, id 0.
 * id: the inserting thread pauses that long before each insertion (insertion concurrent with completions).
 * nz=P > 0 (noise, P percent of the gate operations are delayed by 100-500 us): the yield-point hook of the PARSEC_VERIF build (called before every parsec_atomic_* operation) delays,
 * pseudo-randomly, the operations on the reader counters of the tiles' data copies (DTD's reader / writer gate).
 * m: 1 = R (PARSEC_INPUT), 2 = W (PARSEC_OUTPUT), 3 = RW (PARSEC_INOUT).  Datum d (1..ND) is tile d-1 of a 1-D
 * block-cyclic collection of one-int tiles (owner (d-1) % world), initial content d*1009.
 *
 * The driver (every rank: DTD is SPMD) logs Insert before each parsec_dtd_insert_task, Flush before each flush,
 * Wait after parsec_taskpool_wait returned and Owner(d, value) for every flushed datum this rank owns.  Task bodies
 * log Start(values read) after they are entered and End(values written) before they return, with stamps of one
 * process-wide atomic counter: Start(W) < End(R) in stamp order means both were inside their bodies.
 * The body function F is the one of Seq.tla.  The trace goes to <trace-prefix>.<rank>; executions are separated by
 * Reset lines.  A crash / hang of the runtime ends the file with a Crash / Timeout event (exit code 87 / 86); the
 * check restarts the driver after the failing program (argument skip).
 */
#define VT_LINE 1024
#include "parsec/runtime.h"
#include "parsec/data_dist/matrix/two_dim_rectangle_cyclic.h"
#include "parsec/interfaces/dtd/insert_function.h"
#include "parsec/utils/debug.h"
#include "parsec/data_internal.h"
#include "parsec/sys/verif_hooks.h"
#include "vtrace.h"
#include <mpi.h>
#include <signal.h>
#include <time.h>

#define MAXT 64
#define MAXA 4
#define MAXD 16
#define PMOD 1000003
#define WIDE 4
#define ESTEP 7919

typedef struct { int rank, nacc, d[MAXA], m[MAXA]; } ptask_t;
typedef struct {
    int nd, nt, window, threshold, ins, spmin, spmax, noise, idmin, idmax, wide;
    int flmode;               /* 'A' flush_all, 'S' parsec_dtd_data_flush of the listed data, then flush_all */
    int nfl, fl[MAXD];
    ptask_t t[MAXT + 1];      /* 1-based */
} prog_t;

static prog_t cur;
static long cur_index;
static int world = 1, myrank = 0;
static int TILE_FULL;
static int TILE_WIDE = -1;    /* id of the WIDE-int arena datatype (attached second), -1 = not attached */
static int tile_ints(void) { return cur.wide ? WIDE : 1; }
static int tile_id(void) { return cur.wide ? TILE_WIDE : TILE_FULL; }
static int enc(int v, int i) { return (int)(((long long)v + (long long)i * ESTEP) % PMOD); }
static int dec(int x, int i) { return (int)((((long long)x - (long long)i * ESTEP) % PMOD + PMOD) % PMOD); }
static parsec_context_t *parsec;
static parsec_data_collection_t *A;
static volatile int inserter_done;
static parsec_taskpool_t *cur_tp;

static void die_with(const char *ev, int sig, int code)
{
    /* not async-signal-safe, but the process is lost anyway: keep what was recorded */
    if( NULL != vt_file ) {
        vt_dump();
        vt_raw("{\"e\":\"%s\",\"sig\":%d,\"prog\":%ld,\"rk\":%d}", ev, sig, cur_index, myrank);
        fflush(vt_file);
    }
    _exit(code);
}
static void on_alarm(int s) { die_with("Timeout", s, 86); }
static void on_crash(int s) { die_with("Crash", s, 87); }
static void on_term(int s)  { die_with("Killed", s, 88); }

static void spin_us(int us);
static const volatile void *gate_addr[MAXD + 1];
static unsigned noise_seed;
static long noise_delays;
/* noise mode: delay some of the atomic operations on data_copy->readers (retain / release / count) */
static void noise_point(int kind, const volatile void *addr)
{
    if( PARSEC_VERIF_K_RMW != kind ) return;
    for( int d = 1; d <= cur.nd; d++ ) {
        if( addr == gate_addr[d] ) {
            unsigned r = __sync_add_and_fetch(&noise_seed, 2654435761u);
            r ^= r >> 15;
            if( (int)(r % 100u) < cur.noise ) { spin_us(100 + (int)((r >> 8) % 400)); __sync_add_and_fetch(&noise_delays, 1); }
            return;
        }
    }
}

static void spin_us(int us)
{
    struct timespec a, b;
    clock_gettime(CLOCK_MONOTONIC, &a);
    do {
        clock_gettime(CLOCK_MONOTONIC, &b);
    } while( (b.tv_sec - a.tv_sec) * 1000000L + (b.tv_nsec - a.tv_nsec) / 1000 < us );
}

static int reads_d(const ptask_t *t, int d)  { for( int i = 0; i < t->nacc; i++ ) if( t->d[i] == d && (t->m[i] & 1) ) return 1; return 0; }
static int writes_d(const ptask_t *t, int d) { for( int i = 0; i < t->nacc; i++ ) if( t->d[i] == d && (t->m[i] & 2) ) return 1; return 0; }

/* the body of every task: F of Seq.tla */
static int generic_body(parsec_execution_stream_t *es, parsec_task_t *this_task, int sig)
{
    int rk, tid;
    int *p[MAXA] = { NULL, NULL, NULL, NULL };
    long long h = 17;
    int rv[MAXD + 1], nv[MAXD + 1], rt[MAXD + 1];
    char buf[400], buf2[400];
    int n, n2, first;
    const int K = tile_ints();
    (void)es; (void)sig;

    parsec_dtd_unpack_args(this_task, &rk, &tid);
    const ptask_t *t = &cur.t[tid];
    switch( t->nacc ) {
    case 1: parsec_dtd_unpack_args(this_task, &rk, &tid, &p[0]); break;
    case 2: parsec_dtd_unpack_args(this_task, &rk, &tid, &p[0], &p[1]); break;
    case 3: parsec_dtd_unpack_args(this_task, &rk, &tid, &p[0], &p[1], &p[2]); break;
    default: parsec_dtd_unpack_args(this_task, &rk, &tid, &p[0], &p[1], &p[2], &p[3]); break;
    }
    /* values read: through the first reading parameter of each datum, increasing d */
    n = 0; n2 = 0; first = 1; buf[0] = '\0'; buf2[0] = '\0';
    for( int d = 1; d <= cur.nd; d++ ) {
        if( !reads_d(t, d) ) continue;
        for( int i = 0; i < t->nacc; i++ ) {
            if( t->d[i] == d && (t->m[i] & 1) ) {
                volatile int *q = (volatile int *)p[i];
                rv[d] = rt[d] = dec(q[0], 0);
                for( int e = 1; e < K; e++ ) if( dec(q[e], e) != rv[d] ) { rt[d] = dec(q[e], e); break; }
                break;
            }
        }
        h = (h * 31 + rv[d]) % PMOD;
        n += snprintf(buf + n, sizeof(buf) - n, "%s[%d,%d]", first ? "" : ",", d, rv[d]);
        n2 += snprintf(buf2 + n2, sizeof(buf2) - n2, "%s[%d,%d]", first ? "" : ",", d, rt[d]);
        first = 0;
    }
    if( cur.wide ) vt_ev("\"e\":\"Start\",\"t\":%d,\"rk\":%d,\"reads\":[%s],\"rt\":[%s]", tid, myrank, buf, buf2);
    else vt_ev("\"e\":\"Start\",\"t\":%d,\"rk\":%d,\"reads\":[%s]", tid, myrank, buf);

    spin_us(cur.spmin + (int)(((unsigned)tid * 2654435761u + (unsigned)cur_index * 40503u) % (unsigned)(cur.spmax - cur.spmin + 1)));

    n = 0; first = 1; buf[0] = '\0';
    for( int d = 1; d <= cur.nd; d++ ) {
        if( !writes_d(t, d) ) continue;
        nv[d] = (int)((h * 31 + (long long)tid * 131 + d) % PMOD);
        /* written through every writing parameter of the datum (they designate the same logical datum) */
        for( int i = 0; i < t->nacc; i++ ) {
            if( t->d[i] == d && (t->m[i] & 2) ) for( int e = 0; e < K; e++ ) ((volatile int *)p[i])[e] = enc(nv[d], e);
        }
        n += snprintf(buf + n, sizeof(buf) - n, "%s[%d,%d]", first ? "" : ",", d, nv[d]);
        first = 0;
    }
    vt_ev("\"e\":\"End\",\"t\":%d,\"rk\":%d,\"writes\":[%s]", tid, myrank, buf);
    return PARSEC_HOOK_RETURN_DONE;
}

/* one body function per (number of flows, access modes): the DTD task-class cache is keyed by function pointer */
#define B(n) static int body_##n(parsec_execution_stream_t *es, parsec_task_t *t) { return generic_body(es, t, n); }
#define B10(x) B(x##0) B(x##1) B(x##2) B(x##3) B(x##4) B(x##5) B(x##6) B(x##7) B(x##8) B(x##9)
B(0) B(1) B(2) B(3) B(4) B(5) B(6) B(7) B(8) B(9)
B10(1) B10(2) B10(3) B10(4) B10(5) B10(6) B10(7) B10(8) B10(9) B10(10) B10(11)
#define R(n) body_##n
#define R10(x) R(x##0), R(x##1), R(x##2), R(x##3), R(x##4), R(x##5), R(x##6), R(x##7), R(x##8), R(x##9)
static parsec_dtd_funcptr_t *bodies[120] = {
    R(0), R(1), R(2), R(3), R(4), R(5), R(6), R(7), R(8), R(9),
    R10(1), R10(2), R10(3), R10(4), R10(5), R10(6), R10(7), R10(8), R10(9), R10(10), R10(11) };

static int sig_of(const ptask_t *t)
{
    static const int off[5] = { 0, 0, 3, 12, 39 };
    int s = 0, w = 1;
    for( int i = 0; i < t->nacc; i++ ) { s += (t->m[i] - 1) * w; w *= 3; }
    return off[t->nacc] + s;
}

static int op_of(int m) { return (1 == m ? PARSEC_INPUT : (2 == m ? PARSEC_OUTPUT : PARSEC_INOUT)) | tile_id(); }
#define TILE(i) PASSED_BY_REF, PARSEC_DTD_TILE_OF_KEY(A, A->data_key(A, t->d[i] - 1, 0)), op_of(t->m[i])

static void insert_one(parsec_taskpool_t *tp, int tid)
{
    const ptask_t *t = &cur.t[tid];
    char buf[300]; int n = 0;
    int rank = t->rank;
    if( cur.idmax > 0 && cur.idmax >= cur.idmin )
        spin_us(cur.idmin + (int)(((unsigned)tid * 40503u + (unsigned)cur_index * 2654435761u) % (unsigned)(cur.idmax - cur.idmin + 1)));
    for( int i = 0; i < t->nacc; i++ )
        n += snprintf(buf + n, sizeof(buf) - n, "%s{\"d\":%d,\"m\":\"%s\"}", i ? "," : "", t->d[i],
                      1 == t->m[i] ? "R" : (2 == t->m[i] ? "W" : "RW"));
    vt_ev("\"e\":\"Insert\",\"t\":%d,\"rank\":%d,\"accs\":[%s]", tid, rank, buf);
    parsec_dtd_funcptr_t *f = bodies[sig_of(t)];
    switch( t->nacc ) {
    case 1: parsec_dtd_insert_task(tp, f, 0, PARSEC_DEV_CPU, "T1", sizeof(int), &rank, PARSEC_VALUE | PARSEC_AFFINITY,
                                   sizeof(int), &tid, PARSEC_VALUE, TILE(0), PARSEC_DTD_ARG_END); break;
    case 2: parsec_dtd_insert_task(tp, f, 0, PARSEC_DEV_CPU, "T2", sizeof(int), &rank, PARSEC_VALUE | PARSEC_AFFINITY,
                                   sizeof(int), &tid, PARSEC_VALUE, TILE(0), TILE(1), PARSEC_DTD_ARG_END); break;
    case 3: parsec_dtd_insert_task(tp, f, 0, PARSEC_DEV_CPU, "T3", sizeof(int), &rank, PARSEC_VALUE | PARSEC_AFFINITY,
                                   sizeof(int), &tid, PARSEC_VALUE, TILE(0), TILE(1), TILE(2), PARSEC_DTD_ARG_END); break;
    default: parsec_dtd_insert_task(tp, f, 0, PARSEC_DEV_CPU, "T4", sizeof(int), &rank, PARSEC_VALUE | PARSEC_AFFINITY,
                                    sizeof(int), &tid, PARSEC_VALUE, TILE(0), TILE(1), TILE(2), TILE(3), PARSEC_DTD_ARG_END); break;
    }
}

/* tasks-inserting-tasks variant: the whole program is inserted by one task (the only inserter while it runs) */
static int inserter_body(parsec_execution_stream_t *es, parsec_task_t *this_task)
{
    (void)es;
    for( int tid = 1; tid <= cur.nt; tid++ ) insert_one(this_task->taskpool, tid);
    __sync_synchronize();
    inserter_done = 1;
    return PARSEC_HOOK_RETURN_DONE;
}

static int parse_prog(char *line, prog_t *p)
{
    char *save = NULL, *seg, fl[64] = "A";
    memset(p, 0, sizeof(*p));
    p->window = 2048; p->threshold = 2048; p->spmin = 50; p->spmax = 500;
    seg = strtok_r(line, ";\n", &save);
    if( NULL == seg ) return -1;
    {
        char *s2 = NULL, *tok;
        for( tok = strtok_r(seg, " ", &s2); tok; tok = strtok_r(NULL, " ", &s2) ) {
            if( !strncmp(tok, "nd=", 3) ) p->nd = atoi(tok + 3);
            else if( !strncmp(tok, "fl=", 3) ) snprintf(fl, sizeof(fl), "%s", tok + 3);
            else if( !strncmp(tok, "w=", 2) ) p->window = atoi(tok + 2);
            else if( !strncmp(tok, "th=", 3) ) p->threshold = atoi(tok + 3);
            else if( !strncmp(tok, "ins=", 4) ) p->ins = atoi(tok + 4);
            else if( !strncmp(tok, "sp=", 3) ) sscanf(tok + 3, "%d:%d", &p->spmin, &p->spmax);
            else if( !strncmp(tok, "nz=", 3) ) p->noise = atoi(tok + 3);
            else if( !strncmp(tok, "id=", 3) ) sscanf(tok + 3, "%d:%d", &p->idmin, &p->idmax);
            else if( !strncmp(tok, "ar=", 3) ) p->wide = (0 != atoi(tok + 3));
        }
    }
    p->flmode = fl[0];
    if( 'S' == fl[0] ) {
        char *s2 = NULL, *tok;
        for( tok = strtok_r(fl + 2, ",", &s2); tok; tok = strtok_r(NULL, ",", &s2) ) p->fl[p->nfl++] = atoi(tok);
    }
    if( p->nd < 1 || p->nd > MAXD || p->spmax < p->spmin ) return -1;
    while( NULL != (seg = strtok_r(NULL, ";\n", &save)) ) {
        char *s2 = NULL, *tok;
        ptask_t *t;
        tok = strtok_r(seg, " ", &s2);
        if( NULL == tok ) continue;
        if( p->nt >= MAXT ) return -1;
        t = &p->t[++p->nt];
        t->rank = atoi(tok) % world;
        tok = strtok_r(NULL, " ", &s2);
        if( NULL == tok ) return -1;
        t->nacc = atoi(tok);
        if( t->nacc < 1 || t->nacc > MAXA ) return -1;
        for( int i = 0; i < t->nacc; i++ ) {
            tok = strtok_r(NULL, " ", &s2); if( NULL == tok ) return -1;
            t->d[i] = atoi(tok);
            tok = strtok_r(NULL, " ", &s2); if( NULL == tok ) return -1;
            t->m[i] = atoi(tok);
            if( t->d[i] < 1 || t->d[i] > p->nd || t->m[i] < 1 || t->m[i] > 3 ) return -1;
        }
    }
    return 0;
}

static int *owner_ptr(int d)
{
    parsec_data_t *data = A->data_of_key(A, A->data_key(A, d - 1, 0));
    return (int *)PARSEC_DATA_COPY_GET_PTR(data->device_copies[0]);
}

static void run_one(void)
{
    parsec_matrix_block_cyclic_t *m = (parsec_matrix_block_cyclic_t *)malloc(sizeof(parsec_matrix_block_cyclic_t));
    int used[MAXD + 1], rc;
    parsec_taskpool_t *tp;
    const int K = tile_ints();

    if( cur.wide && TILE_WIDE < 0 ) {     /* second arena datatype of the context: id 1, larger than the one under id 0 */
        parsec_arena_datatype_t *wadt = parsec_matrix_adt_new_rect(parsec_datatype_int32_t, WIDE, 1, WIDE);
        rc = parsec_dtd_attach_arena_datatype(parsec, wadt, &TILE_WIDE);
        PARSEC_CHECK_ERROR(rc, "parsec_dtd_attach_arena_datatype");
        if( TILE_WIDE == TILE_FULL || 0 == TILE_WIDE ) { fprintf(stderr, "unexpected arena datatype id %d\n", TILE_WIDE); exit(3); }
    }
    parsec_matrix_block_cyclic_init(m, PARSEC_MATRIX_INTEGER, PARSEC_MATRIX_TILE, myrank,
                                    K, 1, cur.nd * K, 1, 0, 0, cur.nd * K, 1, world, 1, 1, 1, 0, 0);
    m->mat = parsec_data_allocate(((size_t)m->super.nb_local_tiles + 1) * (size_t)m->super.bsiz *
                                  (size_t)parsec_datadist_getsizeoftype(m->super.mtype));
    A = (parsec_data_collection_t *)m;
    parsec_data_collection_set_key(A, "A");
    for( int d = 1; d <= cur.nd; d++ )
        if( (int)A->rank_of_key(A, A->data_key(A, d - 1, 0)) == myrank )
            for( int e = 0; e < K; e++ ) owner_ptr(d)[e] = enc(d * 1009, e);
    parsec_dtd_data_collection_init(A);
    memset((void *)gate_addr, 0, sizeof(gate_addr));
    if( cur.noise ) {
        for( int d = 1; d <= cur.nd; d++ )
            if( (int)A->rank_of_key(A, A->data_key(A, d - 1, 0)) == myrank )
                gate_addr[d] = &(A->data_of_key(A, A->data_key(A, d - 1, 0))->device_copies[0]->readers);
        noise_seed = (unsigned)cur_index * 7919u;
        parsec_verif_point_fn = noise_point;
    }

    parsec_dtd_window_size = cur.window;
    parsec_dtd_threshold_size = cur.threshold;
    tp = parsec_dtd_taskpool_new();
    cur_tp = tp;
    rc = parsec_context_add_taskpool(parsec, tp);
    PARSEC_CHECK_ERROR(rc, "parsec_context_add_taskpool");
    rc = parsec_context_start(parsec);
    PARSEC_CHECK_ERROR(rc, "parsec_context_start");

    memset(used, 0, sizeof(used));
    for( int tid = 1; tid <= cur.nt; tid++ )
        for( int i = 0; i < cur.t[tid].nacc; i++ ) used[cur.t[tid].d[i]] = 1;

    if( cur.ins ) {
        inserter_done = 0;
        parsec_dtd_insert_task(tp, inserter_body, 0, PARSEC_DEV_CPU, "Inserter", PARSEC_DTD_ARG_END);
        while( !inserter_done ) { struct timespec ts = { 0, 20000 }; nanosleep(&ts, NULL); }
        __sync_synchronize();
    } else {
        for( int tid = 1; tid <= cur.nt; tid++ ) insert_one(tp, tid);
    }

    /* flush: tiles exist only for the data that were used.  Every datum must be flushed before the wait
     * (insert_function.h); 'S' flushes the listed data one by one with parsec_dtd_data_flush first. */
    if( 'S' == cur.flmode ) {
        for( int i = 0; i < cur.nfl; i++ ) {
            int d = cur.fl[i];
            if( d < 1 || d > cur.nd || 1 != used[d] ) continue;
            vt_ev("\"e\":\"Flush\",\"d\":%d", d);
            parsec_dtd_data_flush(tp, PARSEC_DTD_TILE_OF_KEY(A, A->data_key(A, d - 1, 0)));
            used[d] = 2;
        }
    }
    for( int d = 1; d <= cur.nd; d++ ) if( 1 == used[d] ) vt_ev("\"e\":\"Flush\",\"d\":%d", d);
    parsec_dtd_data_flush_all(tp, A);
    rc = parsec_taskpool_wait(tp);
    PARSEC_CHECK_ERROR(rc, "parsec_taskpool_wait");
    vt_ev("\"e\":\"Wait\"");
    for( int d = 1; d <= cur.nd; d++ ) {
        if( used[d] && (int)A->rank_of_key(A, A->data_key(A, d - 1, 0)) == myrank ) {
            char vb[200]; int n = 0;
            for( int e = 0; e < K; e++ ) n += snprintf(vb + n, sizeof(vb) - n, "%s%d", e ? "," : "", dec(owner_ptr(d)[e], e));
            vt_ev("\"e\":\"Owner\",\"d\":%d,\"v\":%d,\"rk\":%d,\"vs\":[%s]", d, dec(owner_ptr(d)[0], 0), myrank, vb);
        }
    }
    parsec_taskpool_free(tp);
    rc = parsec_context_wait(parsec);
    PARSEC_CHECK_ERROR(rc, "parsec_context_wait");
    parsec_verif_point_fn = NULL;
    parsec_dtd_data_collection_fini(A);
    parsec_data_free(m->mat);
    parsec_tiled_matrix_destroy((parsec_tiled_matrix_t *)m);
    free(m);
}

int main(int argc, char **argv)
{
    char *line = NULL, path[1024]; size_t cap = 0;
    int provided, threads, skip = 0, pargc = 1, alarm_s = 40;
    char *pargv_[2] = { argv[0], NULL }, **pargv = pargv_;
    parsec_arena_datatype_t *adt;
    long nexec = 0;
    FILE *in;

    if( argc < 4 ) { fprintf(stderr, "usage: run_prog programs trace-prefix threads [skip]\n"); return 3; }
    MPI_Init_thread(&argc, &argv, MPI_THREAD_MULTIPLE, &provided);
    MPI_Comm_size(MPI_COMM_WORLD, &world);
    MPI_Comm_rank(MPI_COMM_WORLD, &myrank);
    threads = atoi(argv[3]);
    if( argc > 4 ) skip = atoi(argv[4]);
    if( NULL != getenv("VERIF_ALARM") ) alarm_s = atoi(getenv("VERIF_ALARM"));
    in = fopen(argv[1], "r");
    snprintf(path, sizeof(path), "%s.%d", argv[2], myrank);
    vt_init(4096);
    if( NULL == in || 0 != vt_open(path) ) { fprintf(stderr, "cannot open files\n"); return 3; }

    signal(SIGALRM, on_alarm);
    signal(SIGSEGV, on_crash); signal(SIGABRT, on_crash); signal(SIGBUS, on_crash); signal(SIGFPE, on_crash);
    signal(SIGTERM, on_term);

    parsec = parsec_init(threads, &pargc, &pargv);
    if( NULL == parsec ) { fprintf(stderr, "parsec_init failed\n"); return 3; }
    adt = parsec_matrix_adt_new_rect(parsec_datatype_int32_t, 1, 1, 1);
    parsec_dtd_attach_arena_datatype(parsec, adt, &TILE_FULL);
    /* the start-up skew of the processes (MPI / parsec initialisation on a loaded machine) must not be charged to the
     * alarm of the first program */
    if( world > 1 ) MPI_Barrier(MPI_COMM_WORLD);

    while( getline(&line, &cap, in) > 0 ) {
        cur_index++;
        if( cur_index <= skip ) continue;
        if( 0 != parse_prog(line, &cur) ) { fprintf(stderr, "bad program line %ld\n", cur_index); return 3; }
        if( nexec++ ) vt_reset_marker();
        alarm(alarm_s);
        run_one();
        alarm(0);
        vt_dump();
        if( world > 1 ) MPI_Barrier(MPI_COMM_WORLD);
    }
    if( noise_delays ) fprintf(stderr, "noise: %ld delayed gate operations\n", noise_delays);
    parsec_dtd_free_arena_datatype(parsec, TILE_FULL);
    if( TILE_WIDE >= 0 ) parsec_dtd_free_arena_datatype(parsec, TILE_WIDE);
    parsec_fini(&parsec);
    vt_close();
    MPI_Finalize();
    return 0;
}
