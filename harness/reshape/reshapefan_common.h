#ifndef RESHAPEFAN_COMMON_H
#define RESHAPEFAN_COMMON_H
void rf_log_view(const char *what, int j, int k, const void *tile, int mb);
void rf_consume(int j, int k, void *tile, int mb, int scrib_mask);
#endif
