/* driver of the reshapefan family:  reshapefan NT MB S1 S2 S3 SCRIBMASK <trace-prefix> [cores]
 *   Sj in {0 full, 1 lower, 2 upper}: the shape named by the annotations of consumer j in this compiled variant
 *   SCRIBMASK bit (j-1): consumer j overwrites the region of its shape in its own copy after having logged it
 * descA: NT x 1 tiles of MB x MB ints, tile (k,0) on process k % nodes, element (i,j) of tile k = 1000*k + j*MB + i + 1
 * descC: NT x 3 tiles, tile (k,j) on process j % nodes (placement of the consumers). */
#include "parsec/runtime.h"
#include "parsec/data_dist/matrix/two_dim_rectangle_cyclic.h"
#include "parsec/data_dist/matrix/matrix.h"
#include "parsec/arena.h"
#include <mpi.h>
#include <stdlib.h>
#include <string.h>
#include <unistd.h>
#include "vtrace.h"
#include "reshapefan_common.h"
#include "reshapefan.h"

static int myrank, nodes, shapes[4];

static int in_region(int shape, int i, int j)     /* row i, column j */
{ return shape == 0 ? 1 : (shape == 1 ? (i >= j) : (i <= j)); }

void rf_log_view(const char *what, int j, int k, const void *tile, int mb)
{
    char buf[VT_LINE]; int n = 0, e;
    const int *a = (const int*)tile;
    for( e = 0; e < mb * mb && n < VT_LINE - 120; e++ ) n += snprintf(buf + n, sizeof(buf) - n, "%s%d", e ? "," : "", a[e]);
    vt_ev("\"e\":\"%s\",\"p\":%d,\"j\":%d,\"k\":%d,\"v\":[%s]", what, myrank, j, k, buf);
}

void rf_consume(int j, int k, void *tile, int mb, int scrib_mask)
{
    int *a = (int*)tile, r, c;
    rf_log_view("ConsStart", j, k, tile, mb);
    if( scrib_mask & (1 << (j - 1)) )
        for( c = 0; c < mb; c++ ) for( r = 0; r < mb; r++ )
            if( in_region(shapes[j], r, c) ) a[c * mb + r] = -(100 * j + k);
    usleep(300);
    if( !(scrib_mask & (1 << (j - 1))) ) rf_log_view("ConsEnd", j, k, tile, mb);
}

int main(int argc, char **argv)
{
    int provided, NT, MB, scrib, cores = 2, k;
    parsec_context_t *ctx;
    parsec_matrix_block_cyclic_t dcA, dcC;
    parsec_reshapefan_taskpool_t *tp;
    parsec_arena_datatype_t adt_default, adt_lower, adt_upper;
    char path[512];
    if( argc < 8 ) return 3;
    MPI_Init_thread(&argc, &argv, MPI_THREAD_MULTIPLE, &provided);
    MPI_Comm_size(MPI_COMM_WORLD, &nodes);
    MPI_Comm_rank(MPI_COMM_WORLD, &myrank);
    NT = atoi(argv[1]); MB = atoi(argv[2]);
    shapes[1] = atoi(argv[3]); shapes[2] = atoi(argv[4]); shapes[3] = atoi(argv[5]); scrib = atoi(argv[6]);
    if( argc > 8 ) cores = atoi(argv[8]);
    snprintf(path, sizeof(path), "%s.%d", argv[7], myrank);
    vt_init(1 << 14);
    if( vt_open(path) ) return 3;
    ctx = parsec_init(cores, &argc, &argv);
    if( NULL == ctx ) return 4;

    PARSEC_OBJ_CONSTRUCT(&adt_default, parsec_arena_datatype_t);
    PARSEC_OBJ_CONSTRUCT(&adt_lower, parsec_arena_datatype_t);
    PARSEC_OBJ_CONSTRUCT(&adt_upper, parsec_arena_datatype_t);
    parsec_matrix_adt_define_rect(&adt_default, parsec_datatype_int_t, MB, MB, MB);
    parsec_matrix_adt_define_lower(&adt_lower, parsec_datatype_int_t, 1, MB);
    parsec_matrix_adt_define_upper(&adt_upper, parsec_datatype_int_t, 1, MB);

    /* descA: P = nodes, Q = 1 : tile (k,0) on process k % nodes */
    parsec_matrix_block_cyclic_init(&dcA, PARSEC_MATRIX_INTEGER, PARSEC_MATRIX_TILE, myrank, MB, MB, NT * MB, MB, 0, 0,
                                    NT * MB, MB, nodes, 1, 1, 1, 0, 0);
    dcA.mat = parsec_data_allocate((size_t)dcA.super.nb_local_tiles * (size_t)dcA.super.bsiz * sizeof(int));
    parsec_data_collection_set_key((parsec_data_collection_t*)&dcA, "dcA");
    /* descC: P = 1, Q = nodes : tile (k,j) on process j % nodes */
    parsec_matrix_block_cyclic_init(&dcC, PARSEC_MATRIX_INTEGER, PARSEC_MATRIX_TILE, myrank, MB, MB, NT * MB, 3 * MB, 0, 0,
                                    NT * MB, 3 * MB, 1, nodes, 1, 1, 0, 0);
    dcC.mat = parsec_data_allocate((size_t)dcC.super.nb_local_tiles * (size_t)dcC.super.bsiz * sizeof(int));
    parsec_data_collection_set_key((parsec_data_collection_t*)&dcC, "dcC");
    for( k = 0; k < NT; k++ ) {
        if( (int)dcA.super.super.rank_of(&dcA.super.super, k, 0) != myrank ) continue;
        parsec_data_t *d = dcA.super.super.data_of(&dcA.super.super, k, 0);
        int *a = (int*)parsec_data_get_ptr(d, 0), e;
        for( e = 0; e < MB * MB; e++ ) a[e] = 1000 * k + e + 1;
    }

    tp = parsec_reshapefan_new((parsec_tiled_matrix_t*)&dcA, (parsec_tiled_matrix_t*)&dcC, scrib);
    tp->arenas_datatypes[PARSEC_reshapefan_DEFAULT_ADT_IDX] = adt_default;
#if defined(PARSEC_reshapefan_LOWER_TILE_ADT_IDX)
    tp->arenas_datatypes[PARSEC_reshapefan_LOWER_TILE_ADT_IDX] = adt_lower;
#endif
#if defined(PARSEC_reshapefan_UPPER_TILE_ADT_IDX)
    tp->arenas_datatypes[PARSEC_reshapefan_UPPER_TILE_ADT_IDX] = adt_upper;
#endif
    parsec_context_add_taskpool(ctx, &tp->super);
    parsec_context_start(ctx);
    parsec_context_wait(ctx);

    for( k = 0; k < NT; k++ ) {
        if( (int)dcA.super.super.rank_of(&dcA.super.super, k, 0) != myrank ) continue;
        parsec_data_t *d = dcA.super.super.data_of(&dcA.super.super, k, 0);
        rf_log_view("Final", 0, k, parsec_data_get_ptr(d, 0), MB);
    }
    vt_ev("\"e\":\"Done\",\"p\":%d", myrank);
    vt_dump();
    vt_close();
    parsec_taskpool_free(&tp->super);
    parsec_fini(&ctx);
    MPI_Finalize();
    return 0;
}
