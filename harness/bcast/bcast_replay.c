/* C13 harness: the collective activation of remote_dep.c driven from every virtual rank's point of view.
 *
 *   bcast_replay <topo-name> <configs.txt> <trace.ndjson>
 *
 * The broadcast topology is a process-wide setting read by parsec_remote_dep_init from the MCA parameter
 * runtime_comm_coll_bcast (env PARSEC_MCA_runtime_comm_coll_bcast=0|1|2): the check starts one process per
 * topology and passes the matching name (star|chain|binomial) for the log.
 *
 * configs.txt: one configuration per line:   "N root K d,d,d d,d -"     (K destination sets, "-" = empty)
 *
 * For a configuration the whole propagation is simulated with the REAL functions:
 *   root:   a parsec_remote_deps_t is filled exactly as parsec_release_dep_fct fills it (rank bits relative to the
 *           root, count_bits, outgoing_mask, root), then parsec_remote_dep_activate(es_root, task, deps, outgoing_mask);
 *   relay:  a fresh parsec_remote_deps_t gets the received wire message (msg.output_mask), root, then the real
 *           parsec_remote_dep_propagate(es_r, task, deps) = iterate_successors(parsec_gather_collective_pattern) +
 *           parsec_remote_dep_activate, with es_r->virtual_process->parsec_context->my_rank = r.
 * Seam for the sends (no source hook): remote_dep_dequeue_send() queues a DEP_ACTIVATE command on the exported
 * dep_cmd_queue when the communication context is not multi-threaded; parsec_comm_es.virtual_process points to a
 * harness context without PARSEC_CONTEXT_FLAG_COMM_MT, and the harness drains the queue instead of the
 * communication thread.  The payload of a message is selected as remote_dep_mpi_pack_dep does (outputs in the
 * sender's outgoing_mask whose rank_bits contain the peer).
 *
 * Output: one line per configuration
 *   {"e":"bcast","topo":T,"n":N,"root":R,"dest":[[..],..],"edges":[[sender,target,[outputs]],..],"acts":A}
 * (outputs are numbered from 1 as in Bcast.tla).
 */
#include "parsec/parsec_config.h"
#include "parsec/runtime.h"
#include "parsec/parsec_internal.h"
#include "parsec/execution_stream.h"
#include "parsec/remote_dep.h"
#include "parsec/mca/termdet/termdet.h"
#include "parsec/class/dequeue.h"
#include <mpi.h>
#include <stdio.h>
#include <stdlib.h>
#include <string.h>

extern parsec_dequeue_t dep_cmd_queue;          /* remote_dep_mpi.c */

#define MAXK 8
#define MAXN 512

static int N, ROOT, K;
static unsigned char dest[MAXK][MAXN];          /* dest[k][r] */

static parsec_context_t *real_ctx;
static parsec_context_t *vctx;
static parsec_vp_t *vvp;
static parsec_execution_stream_t *ves;

/* ---- a termination detector that only counts (environment of the code under test) ----------------------------- */
static int flying;
static int32_t fk_addto_actions(parsec_taskpool_t *tp, int32_t v) { (void)tp; flying += v; return flying; }
static int fk_out_start(parsec_taskpool_t *tp, int dst, parsec_remote_deps_t *d) { (void)tp; (void)dst; (void)d; return 1; }
static parsec_termdet_taskpool_state_t fk_state(parsec_taskpool_t *tp) { (void)tp; return PARSEC_TERM_TP_BUSY; }
static parsec_termdet_module_t fake_tdm;

/* ---- a task class with K output flows, one dependency each (dep_datatype_index = dep_index = k) ----------------- */
static parsec_taskpool_t tp;
static parsec_task_class_t tc;
static parsec_flow_t flows[MAXK];
static parsec_dep_t deps_out[MAXK];
static parsec_task_t task;

/* what the generated iterate_successors does: call ontask for every (dep, destination) selected by action_mask */
static void my_iterate_successors(parsec_execution_stream_t *es, const parsec_task_t *this_task, uint32_t action_mask,
                                  parsec_ontask_function_t *ontask, void *ontask_arg)
{
    parsec_task_t nc;
    parsec_dep_data_description_t data;
    memset(&nc, 0, sizeof(nc));
    memset(&data, 0, sizeof(data));
    nc.taskpool = &tp; nc.task_class = &tc; nc.priority = 0;
    for( int k = 0; k < K; k++ ) {
        if( !(action_mask & (1U << deps_out[k].dep_index)) ) continue;
        for( int r = 0; r < N; r++ ) {
            if( !dest[k][r] ) continue;
            if( PARSEC_ITERATE_STOP == ontask(es, &nc, this_task, &deps_out[k], &data, ROOT, r, 0, NULL, 0, ontask_arg) )
                break;
        }
    }
}

/* the remote part of parsec_release_dep_fct (parsec.c), statement by statement */
static parsec_ontask_iterate_t
root_release_dep(parsec_execution_stream_t *es, const parsec_task_t *newcontext, const parsec_task_t *oldcontext,
                 const parsec_dep_t *dep, parsec_dep_data_description_t *data, int src_rank, int dst_rank, int dst_vpid,
                 data_repo_t *successor_repo, parsec_key_t successor_repo_key, void *param)
{
    parsec_remote_deps_t **prd = (parsec_remote_deps_t**)param;
    (void)es; (void)dst_vpid; (void)successor_repo; (void)successor_repo_key;
    if( dst_rank != src_rank ) {
        struct remote_dep_output_param_s *output;
        uint32_t _array_pos, _array_bit, _array_mask;
        remote_dep_rank_to_bit(dst_rank, &_array_pos, &_array_bit, src_rank);
        _array_mask = 1 << _array_bit;
        PARSEC_ALLOCATE_REMOTE_DEPS_IF_NULL(*prd, oldcontext, MAX_PARAM_COUNT);
        output = &(*prd)->output[dep->dep_datatype_index];
        (*prd)->root = src_rank;
        (*prd)->outgoing_mask |= (1 << dep->dep_datatype_index);
        if( !(output->rank_bits[_array_pos] & _array_mask) ) {
            output->rank_bits[_array_pos] |= _array_mask;
            output->deps_mask |= (1 << dep->dep_index);
            if( 0 == output->count_bits ) output->data = *data;
            output->count_bits++;
            if( newcontext->priority > output->priority ) {
                output->priority = newcontext->priority;
                if( newcontext->priority > (*prd)->max_priority ) (*prd)->max_priority = newcontext->priority;
            }
        }
    }
    return PARSEC_ITERATE_CONTINUE;
}

/* ---- pending activations --------------------------------------------------------------------------------------------- */
typedef struct { int rank; remote_dep_wire_activate_t msg; } act_t;
static act_t *acts; static int nacts, capacts, headacts;
static FILE *out;
static int first_edge;

/* drain the command queue filled by remote_dep_dequeue_send during one parsec_remote_dep_activate of `me` */
static int drain_sends(int me)
{
    dep_cmd_item_t *item;
    int nsends = 0;
    while( NULL != (item = (dep_cmd_item_t*)parsec_dequeue_try_pop_front(&dep_cmd_queue)) ) {
        if( DEP_ACTIVATE != item->action ) { free(item); continue; }
        int peer = item->cmd.activate.peer;
        parsec_remote_deps_t *d = (parsec_remote_deps_t*)item->cmd.activate.task.source_deps;
        uint32_t peer_bank, peer_bit, peer_mask;
        int firstk = 1;
        nsends++;
        /* remote_dep_mpi_pack_dep: which outputs travel with this activation */
        remote_dep_rank_to_bit(peer, &peer_bank, &peer_bit, d->root);
        peer_mask = 1U << peer_bit;
        fprintf(out, "%s[%d,%d,[", first_edge ? "" : ",", me, peer);
        first_edge = 0;
        for( int k = 0; d->outgoing_mask >> k; k++ ) {
            if( !((1U << k) & d->outgoing_mask) ) continue;
            if( !(d->output[k].rank_bits[peer_bank] & peer_mask) ) continue;
            fprintf(out, "%s%d", firstk ? "" : ",", k + 1);
            firstk = 0;
        }
        fprintf(out, "]]");
        if( peer >= 0 && peer < N ) {
            if( nacts == capacts ) { capacts = capacts ? 2 * capacts : 256; acts = realloc(acts, capacts * sizeof(act_t)); }
            acts[nacts].rank = peer; acts[nacts].msg = d->msg; nacts++;
        }
        free(item);
    }
    return nsends;
}

static void run_config(const char *topo)
{
    int budget = 4 * N + 8, nact = 0;
    /* rank <-> bit mapping uses parsec_remote_dep_context.max_nodes_number */
    remote_deps_allocation_fini();
    remote_deps_allocation_init(N, MAX_PARAM_COUNT);

    vctx = calloc(N, sizeof(parsec_context_t));
    vvp = calloc(N, sizeof(parsec_vp_t));
    ves = calloc(N, sizeof(parsec_execution_stream_t));
    for( int r = 0; r < N; r++ ) {
        memcpy(&vctx[r], real_ctx, sizeof(parsec_context_t));
        vctx[r].my_rank = r; vctx[r].nb_nodes = N;
        vctx[r].flags &= ~PARSEC_CONTEXT_FLAG_COMM_MT;
        parsec_remote_dep_reconfigure(&vctx[r]);            /* remote_dep_fw_mask_sizeof */
        vvp[r].parsec_context = &vctx[r];
        ves[r].virtual_process = &vvp[r];
    }
    parsec_comm_es.virtual_process = &vvp[0];

    memset(&tp, 0, sizeof(tp)); memset(&tc, 0, sizeof(tc)); memset(&task, 0, sizeof(task));
    tp.taskpool_id = 1; tp.taskpool_type = PARSEC_TASKPOOL_TYPE_PTG; tp.tdm.module = &fake_tdm.module;
    tp.context = &vctx[0];
    tc.name = "T"; tc.nb_locals = 0; tc.task_class_id = 0; tc.nb_flows = K;
    tc.iterate_successors = my_iterate_successors;
    for( int k = 0; k < K; k++ ) {
        memset(&flows[k], 0, sizeof(flows[k])); memset(&deps_out[k], 0, sizeof(deps_out[k]));
        flows[k].name = "F"; flows[k].flow_index = k; flows[k].flow_datatype_mask = 1U << k;
        flows[k].dep_out[0] = &deps_out[k];
        deps_out[k].dep_index = k; deps_out[k].dep_datatype_index = k; deps_out[k].belongs_to = &flows[k];
        deps_out[k].flow = &flows[k];
        tc.out[k] = &flows[k];
    }
    tc.out[K] = NULL;
    task.taskpool = &tp; task.task_class = &tc;
    flying = 0; nacts = 0; headacts = 0;

    fprintf(out, "{\"e\":\"bcast\",\"topo\":\"%s\",\"n\":%d,\"root\":%d,\"dest\":[", topo, N, ROOT);
    for( int k = 0; k < K; k++ ) {
        int f = 1;
        fprintf(out, "%s[", k ? "," : "");
        for( int r = 0; r < N; r++ ) if( dest[k][r] ) { fprintf(out, "%s%d", f ? "" : ",", r); f = 0; }
        fprintf(out, "]");
    }
    fprintf(out, "],\"edges\":[");
    first_edge = 1;

    /* ---- the root: release_deps of the completed task ------------------------------------------------------------- */
    {
        parsec_remote_deps_t *rd = NULL;
        uint32_t allmask = 0;
        for( int k = 0; k < K; k++ ) allmask |= 1U << k;
        my_iterate_successors(&ves[ROOT], &task, allmask, root_release_dep, &rd);
        if( NULL != rd ) {
            parsec_remote_deps_t *keep = rd;
            parsec_remote_dep_activate(&ves[ROOT], &task, rd, rd->outgoing_mask);
            nact++;
            int ns = drain_sends(ROOT);
            if( ns > 0 ) remote_dep_complete_and_cleanup(&keep, ns);   /* the sends complete */
        }
    }
    /* ---- every process that received an activation propagates it --------------------------------------------------- */
    while( headacts < nacts && budget-- > 0 ) {
        act_t a = acts[headacts++];
        parsec_remote_deps_t *rd = remote_deps_allocate(&parsec_remote_dep_context.freelist);
        parsec_remote_deps_t *keep = rd;
        /* remote_dep_get_datatypes / remote_dep_release_incoming: state of `origin` when propagation starts */
        rd->msg = a.msg;
        rd->root = ROOT;
        rd->taskpool = &tp;
        rd->incoming_mask = 0;
        rd->outgoing_mask = 0;
        rd->pending_ack = 1; flying++;
        parsec_remote_dep_propagate(&ves[a.rank], &task, rd);
        nact++;
        int ns = drain_sends(a.rank);
        remote_dep_complete_and_cleanup(&keep, 1 + ns);
    }
    fprintf(out, "],\"acts\":%d,\"flying\":%d}\n", nact, flying);
    parsec_comm_es.virtual_process = NULL;
    free(vctx); free(vvp); free(ves);
}

int main(int argc, char **argv)
{
    char *line = NULL; size_t cap = 0; int prov;
    FILE *in;
    if( argc < 4 ) return 3;
    MPI_Init_thread(&argc, &argv, MPI_THREAD_MULTIPLE, &prov);
    { int pargc = 1; char *pargv[2] = { argv[0], NULL }; char **pv = pargv;
      real_ctx = parsec_init(1, &pargc, &pv); }
    if( NULL == real_ctx ) return 4;
    in = fopen(argv[2], "r"); out = fopen(argv[3], "w");
    if( !in || !out ) return 3;
    memset(&fake_tdm, 0, sizeof(fake_tdm));
    fake_tdm.module.taskpool_addto_runtime_actions = fk_addto_actions;
    fake_tdm.module.outgoing_message_start = fk_out_start;
    fake_tdm.module.taskpool_state = fk_state;
    while( getline(&line, &cap, in) > 0 ) {
        char *save = NULL, *tok;
        if( line[0] == '\n' || line[0] == '#' ) continue;
        tok = strtok_r(line, " \n", &save); if( !tok ) continue; N = atoi(tok);
        tok = strtok_r(NULL, " \n", &save); if( !tok ) continue; ROOT = atoi(tok);
        tok = strtok_r(NULL, " \n", &save); if( !tok ) continue; K = atoi(tok);
        if( N < 2 || N > MAXN || K < 1 || K > MAXK || ROOT < 0 || ROOT >= N ) return 5;
        memset(dest, 0, sizeof(dest));
        for( int k = 0; k < K; k++ ) {
            tok = strtok_r(NULL, " \n", &save);
            if( !tok ) return 5;
            if( tok[0] == '-' ) continue;
            for( char *p = tok; *p; ) { int r = (int)strtol(p, &p, 10); if( r >= 0 && r < N ) dest[k][r] = 1; if( *p == ',' ) p++; }
        }
        run_config(argv[1]);
        fflush(out);
    }
    fclose(out);
    _exit(0);
}
