/* C06 harness: replays histories of spec/Context/Epoch.tla (user-visible actions) on the real
 * parsec_context_start / parsec_context_add_taskpool / parsec_context_wait / parsec_taskpool_wait / parsec_context_test
 * with tiny PTG (epoch_ptg.jdf) and DTD taskpools whose task bodies and completion callbacks stamp events
 * (validated by spec/Context/EpochTrace.tla).
 *
 *   epoch_replay <histories.txt> <trace.ndjson> <threads> [skip]
 * one history per line, actions separated by ';':
 *   start | wait | test | tpwait <tp> | add <tp> <n> <kind p|d> <ct> <cn> <cc> <cm>
 * add: taskpool <tp> with <n> tasks; its task 0 adds the PTG taskpool <ct> (<cn> tasks) while it runs (0 = none);
 *      its completion callback adds the PTG taskpool <cc> (<cm> tasks) (0 = none).
 */
#include "parsec/runtime.h"
#include "parsec/data_dist/matrix/two_dim_rectangle_cyclic.h"
#include "parsec/interfaces/dtd/insert_function.h"
#include "parsec/utils/debug.h"
#include "vtrace.h"
#include "epoch_ptg.h"
#include <mpi.h>
#include <signal.h>
#include <time.h>

#define MAXTP 16
typedef struct { int used, n, kind, ct, cn, cc, cm, freed, parent; volatile int registered; parsec_taskpool_t *tp; } tpspec_t;
static tpspec_t spec[MAXTP + 1];
static parsec_context_t *parsec;
static parsec_matrix_block_cyclic_t descA;
static long cur_index;

static void die_with(const char *ev, int sig, int code)
{
    if( NULL != vt_file ) {
        vt_dump();
        vt_raw("{\"e\":\"%s\",\"sig\":%d,\"hist\":%ld}", ev, sig, cur_index);
        fflush(vt_file);
    }
    _exit(code);
}
static void on_alarm(int s) { die_with("Timeout", s, 86); }
static void on_crash(int s) { die_with("Crash", s, 87); }

static void spin_us(int us)
{
    struct timespec a, b;
    clock_gettime(CLOCK_MONOTONIC, &a);
    do { clock_gettime(CLOCK_MONOTONIC, &b); }
    while( (b.tv_sec - a.tv_sec) * 1000000L + (b.tv_nsec - a.tv_nsec) / 1000 < us );
}

static int epoch_cb(parsec_taskpool_t *tp, void *data);

/* create the PTG taskpool `id` and register it in the context (from the main thread, a task or a callback) */
static void add_ptg(int id, const char *by, int from)
{
    parsec_taskpool_t *tp = (parsec_taskpool_t *)parsec_epoch_ptg_new(&descA, id, spec[id].n);
    spec[id].tp = tp;
    parsec_taskpool_set_complete_callback(tp, epoch_cb, (void *)(intptr_t)id);
    vt_ev("\"e\":\"Add\",\"tp\":%d,\"n\":%d,\"by\":\"%s\",\"from\":%d", id, spec[id].n, by, from);
    int rc = parsec_context_add_taskpool(parsec, tp);
    PARSEC_CHECK_ERROR(rc, "parsec_context_add_taskpool");
    __sync_synchronize();
    spec[id].registered = 1;
}

void epoch_task_body(int tpid, int k)
{
    vt_ev("\"e\":\"TaskStart\",\"tp\":%d,\"k\":%d", tpid, k);
    if( 0 == k && 0 != spec[tpid].ct ) add_ptg(spec[tpid].ct, "task", tpid);
    spin_us(40 + ((tpid * 37 + k * 101 + (int)cur_index * 13) % 160));
    vt_ev("\"e\":\"TaskEnd\",\"tp\":%d,\"k\":%d", tpid, k);
}

static int dtd_body(parsec_execution_stream_t *es, parsec_task_t *this_task)
{
    int tpid, k;
    (void)es;
    parsec_dtd_unpack_args(this_task, &tpid, &k);
    epoch_task_body(tpid, k);
    return PARSEC_HOOK_RETURN_DONE;
}

static int epoch_cb(parsec_taskpool_t *tp, void *data)
{
    int id = (int)(intptr_t)data;
    (void)tp;
    vt_ev("\"e\":\"Callback\",\"tp\":%d", id);
    if( 0 != spec[id].cc ) add_ptg(spec[id].cc, "cb", id);
    return 0;
}

static void add_main(int id)
{
    if( 'p' == spec[id].kind ) {
        add_ptg(id, "main", 0);
    } else {
        parsec_taskpool_t *tp = parsec_dtd_taskpool_new();
        spec[id].tp = tp;
        parsec_taskpool_set_complete_callback(tp, epoch_cb, (void *)(intptr_t)id);
        vt_ev("\"e\":\"Add\",\"tp\":%d,\"n\":%d,\"by\":\"main\",\"from\":0", id, spec[id].n);
        int rc = parsec_context_add_taskpool(parsec, tp);
        PARSEC_CHECK_ERROR(rc, "parsec_context_add_taskpool");
        spec[id].registered = 1;
        for( int k = 0; k < spec[id].n; k++ )
            parsec_dtd_insert_task(tp, dtd_body, 0, PARSEC_DEV_CPU, "E", sizeof(int), &id, PARSEC_VALUE,
                                   sizeof(int), &k, PARSEC_VALUE, PARSEC_DTD_ARG_END);
    }
}

static void free_done(void)
{
    for( int i = 1; i <= MAXTP; i++ ) {
        if( spec[i].used && NULL != spec[i].tp && !spec[i].freed ) {
            parsec_taskpool_free(spec[i].tp);
            spec[i].freed = 1;
        }
    }
}

static int run_history(char *line)
{
    char *save = NULL, *tok;
    int started = 0;
    memset(spec, 0, sizeof(spec));
    for( tok = strtok_r(line, ";\n", &save); tok; tok = strtok_r(NULL, ";\n", &save) ) {
        char op[16]; int a[7] = { 0, 0, 0, 0, 0, 0, 0 }; char kind = 'p';
        if( sscanf(tok, "%15s", op) < 1 ) continue;
        if( !strcmp(op, "start") ) {
            int rc = parsec_context_start(parsec);
            PARSEC_CHECK_ERROR(rc, "parsec_context_start");
            vt_ev("\"e\":\"Start\"");
            started = 1;
        } else if( !strcmp(op, "add") ) {
            if( sscanf(tok, "%*s %d %d %c %d %d %d %d", &a[0], &a[1], &kind, &a[2], &a[3], &a[4], &a[5]) < 7 ) return -1;
            if( a[0] < 1 || a[0] > MAXTP || a[2] > MAXTP || a[4] > MAXTP ) return -1;
            spec[a[0]].used = 1; spec[a[0]].n = a[1]; spec[a[0]].kind = kind; spec[a[0]].ct = a[2]; spec[a[0]].cc = a[4];
            if( a[2] ) { spec[a[2]].used = 1; spec[a[2]].n = a[3]; spec[a[2]].kind = 'p'; spec[a[2]].parent = a[0]; }
            if( a[4] ) { spec[a[4]].used = 1; spec[a[4]].n = a[5]; spec[a[4]].kind = 'p'; spec[a[4]].parent = a[0]; }
            add_main(a[0]);
        } else if( !strcmp(op, "wait") ) {
            vt_ev("\"e\":\"WaitEnter\"");
            int rc = parsec_context_wait(parsec);
            PARSEC_CHECK_ERROR(rc, "parsec_context_wait");
            vt_ev("\"e\":\"WaitReturn\"");
            started = 0;
            free_done();
        } else if( !strcmp(op, "tpwait") ) {
            if( sscanf(tok, "%*s %d", &a[0]) < 1 || a[0] < 1 || a[0] > MAXTP || !spec[a[0]].used ) return -1;
            /* a child taskpool is registered by a task / callback of its parent; in the history the
             * parsec_taskpool_wait comes after that registration.  The task that registers it may be parked on the
             * main thread (es->next_task): progress through parsec_taskpool_test on the parent until it happened. */
            while( !spec[a[0]].registered ) {
                int par = spec[a[0]].parent;
                if( par > 0 && NULL != spec[par].tp && !spec[par].freed ) (void)parsec_taskpool_test(spec[par].tp);
                else { struct timespec ts = { 0, 20000 }; nanosleep(&ts, NULL); }
            }
            __sync_synchronize();
            vt_ev("\"e\":\"TpWaitEnter\",\"tp\":%d", a[0]);
            int rc = parsec_taskpool_wait(spec[a[0]].tp);
            PARSEC_CHECK_ERROR(rc, "parsec_taskpool_wait");
            vt_ev("\"e\":\"TpWaitReturn\",\"tp\":%d", a[0]);
        } else if( !strcmp(op, "test") ) {
            int r = parsec_context_test(parsec);
            vt_ev("\"e\":\"Test\",\"r\":%d", r);
        } else return -1;
    }
    (void)started;
    return 0;
}

int main(int argc, char **argv)
{
    char *line = NULL; size_t cap = 0;
    int provided, threads, skip = 0, pargc = 1, alarm_s = 40;
    char *pargv_[2] = { argv[0], NULL }, **pargv = pargv_;
    long nexec = 0;
    FILE *in;

    if( argc < 4 ) { fprintf(stderr, "usage: epoch_replay histories trace threads [skip]\n"); return 3; }
    MPI_Init_thread(&argc, &argv, MPI_THREAD_MULTIPLE, &provided);
    threads = atoi(argv[3]);
    if( argc > 4 ) skip = atoi(argv[4]);
    if( NULL != getenv("VERIF_ALARM") ) alarm_s = atoi(getenv("VERIF_ALARM"));
    in = fopen(argv[1], "r");
    vt_init(8192);
    if( NULL == in || 0 != vt_open(argv[2]) ) { fprintf(stderr, "cannot open files\n"); return 3; }
    signal(SIGALRM, on_alarm);
    signal(SIGSEGV, on_crash); signal(SIGABRT, on_crash); signal(SIGBUS, on_crash); signal(SIGFPE, on_crash);

    parsec = parsec_init(threads, &pargc, &pargv);
    if( NULL == parsec ) { fprintf(stderr, "parsec_init failed\n"); return 3; }
    parsec_matrix_block_cyclic_init(&descA, PARSEC_MATRIX_INTEGER, PARSEC_MATRIX_TILE, 0,
                                    1, 1, 1, 1, 0, 0, 1, 1, 1, 1, 1, 1, 0, 0);
    descA.mat = parsec_data_allocate(16 * sizeof(int));
    parsec_data_collection_set_key(&descA.super.super, "A");

    while( getline(&line, &cap, in) > 0 ) {
        cur_index++;
        if( cur_index <= skip ) continue;
        if( nexec++ ) vt_reset_marker();
        alarm(alarm_s);
        if( 0 != run_history(line) ) { fprintf(stderr, "bad history line %ld\n", cur_index); return 3; }
        alarm(0);
        vt_dump();
    }
    parsec_data_free(descA.mat);
    parsec_tiled_matrix_destroy(&descA.super);
    parsec_fini(&parsec);
    vt_close();
    MPI_Finalize();
    return 0;
}
