/* C27 harness (thread memory pool part): drives the real parsec_thread_mempool_allocate / parsec_mempool_free
 * (mempool.h, mempool.c: parsec_thread_mempool_allocate_when_empty) over every interleaving at yield-point
 * granularity (mode explore), along seeded random schedules (mode random) or free-running (mode stress), and
 * records the history as ndjson for PoolTrace.tla.  Thread t allocates from its own thread pool only (the pools'
 * allocation counter is not atomic: that is the contract); an element may be freed by any thread that took it over
 * (atomic exchange on the harness' slot): it must go back to the pool recorded in the element.
 *
 *   pool_replay explore <scenario> <limit> <trace.ndjson> <meta.ndjson>
 *   pool_replay random  <scenario> <runs>  <trace.ndjson> <meta.ndjson> <seed>
 *   pool_replay stress  <scenario> <runs>  <trace.ndjson> <meta.ndjson>
 *
 * scenario file:  esize E / threads T / t <tid> op op ...   with op in  palloc   pfree:<thread>:<k>
 *                 (free the element obtained by <thread>'s k-th operation, if it is there and nobody took it yet)
 */
#include "parsec/parsec_config.h"
#include "parsec/class/parsec_object.h"
#include "parsec/class/lifo.h"
#include "parsec/runtime.h"
#include "parsec/mempool.h"
#include <stdio.h>
#include <stdlib.h>
#include <string.h>
#include <malloc.h>
#include "vtrace.h"
#include "vsched.h"

#define MAXOPS 32
#define MAXT 16
#define MAXB 1024
enum { OP_ALLOC, OP_FREE };
typedef struct { int kind; int th; int k; } op_t;
typedef struct { parsec_list_item_t item; parsec_thread_mempool_t *owner; unsigned char payload[8]; } elt_t;

static int esize = 96, nthreads, nops[MAXT];
static op_t ops[MAXT][MAXOPS];
static void * volatile slots[MAXT][MAXOPS];       /* element obtained by (thread, op), NULL once somebody took it over */
static int controlled = 1;
static parsec_mempool_t mp;
static void *seen[MAXB];                          /* element address -> id (index + 1), in order of first appearance */
static volatile int seen_lock = 0;
static int nseen = 0;
static long final_count = 0;
static int lifo_align = 8;

static void die(const char *m) { fprintf(stderr, "pool_replay: %s\n", m); exit(3); }

static int id_of(void *p, int *is_new)
{
    int i, id;
    while( __sync_lock_test_and_set(&seen_lock, 1) ) ;
    for( i = 0; i < nseen; i++ ) if( seen[i] == p ) break;
    if( i == nseen ) { if( nseen >= MAXB ) die("too many elements"); seen[nseen++] = p; if( is_new ) *is_new = 1; }
    else if( is_new ) *is_new = 0;
    id = i + 1;
    __sync_lock_release(&seen_lock);
    return id;
}

static void parse_scenario(const char *path)
{
    FILE *f = fopen(path, "r");
    char line[4096];
    if( !f ) die("cannot open scenario");
    while( fgets(line, sizeof(line), f) ) {
        char *tok = strtok(line, " \t\n");
        if( !tok ) continue;
        if( !strcmp(tok, "esize") ) esize = atoi(strtok(NULL, " \t\n"));
        else if( !strcmp(tok, "threads") ) nthreads = atoi(strtok(NULL, " \t\n"));
        else if( !strcmp(tok, "t") ) {
            int t = atoi(strtok(NULL, " \t\n"));
            if( t >= MAXT ) die("too many threads");
            while( (tok = strtok(NULL, " \t\n")) ) {
                op_t *o;
                if( nops[t] >= MAXOPS ) die("too many operations");
                o = &ops[t][nops[t]++];
                if( !strcmp(tok, "palloc") ) o->kind = OP_ALLOC;
                else if( !strncmp(tok, "pfree:", 6) ) { o->kind = OP_FREE; if( 2 != sscanf(tok + 6, "%d:%d", &o->th, &o->k) ) die("bad pfree"); }
                else die("bad op");
            }
        }
    }
    fclose(f);
    if( nthreads > MAXT || (size_t)esize < sizeof(elt_t) ) die("bad scenario");
}

static void setup(void)
{
    nseen = 0;
    memset((void*)slots, 0, sizeof(slots));
    parsec_mempool_construct(&mp, NULL, (size_t)esize, offsetof(elt_t, owner), (unsigned int)nthreads);
    lifo_align = (int)PARSEC_LIFO_ALIGNMENT(&mp.thread_mempools[0].mempool);
}

static unsigned char tag_of(int tid, int i) { return (unsigned char)(1 + tid * MAXOPS + i); }

static void do_alloc(int tid, int i)
{
    parsec_thread_mempool_t *tm = &mp.thread_mempools[tid];
    uint32_t before = tm->nb_elt;
    elt_t *e;
    int id, own = 0, p;
    vt_ev("\"e\":\"inv\",\"t\":%d,\"op\":\"palloc\"", tid + 1);
    e = (elt_t*)parsec_thread_mempool_allocate(tm);
    id = id_of(e, NULL);
    for( p = 0; p < nthreads; p++ ) if( e->owner == &mp.thread_mempools[p] ) own = p + 1;
    memset(e->payload, tag_of(tid, i), (size_t)esize - offsetof(elt_t, payload));
    vt_ev("\"e\":\"res\",\"t\":%d,\"op\":\"palloc\",\"b\":%d,\"fresh\":%d,\"own\":%d,\"mod\":%d,\"room\":%d", tid + 1, id,
          (int)(tm->nb_elt - before), own, (int)((uintptr_t)e % PARSEC_LIFO_ALIGNMENT(&tm->mempool)), (int)malloc_usable_size(e));
    slots[tid][i] = e;
}

static void do_free(int as_tid, int th, int k)
{
    elt_t *e;
    size_t j, n = (size_t)esize - offsetof(elt_t, payload);
    int ok = 1;
    if( th >= nthreads || k < 1 || k > nops[th] ) return;
    e = (elt_t*)__sync_lock_test_and_set(&slots[th][k - 1], NULL);    /* take the element over, or nothing */
    if( NULL == e ) return;
    for( j = 0; j < n; j++ ) if( e->payload[j] != tag_of(th, k - 1) ) { ok = 0; break; }
    vt_ev("\"e\":\"inv\",\"t\":%d,\"op\":\"pfree\",\"b\":%d,\"tag\":%d", as_tid + 1, id_of(e, NULL), ok);
    parsec_mempool_free(&mp, e);
    vt_ev("\"e\":\"res\",\"t\":%d,\"op\":\"pfree\"", as_tid + 1);
}

static void body(int tid, void *arg)
{
    int i;
    (void)arg;
    for( i = 0; i < nops[tid]; i++ ) {
        op_t *o = &ops[tid][i];
        if( i > 0 && controlled ) vs_yield();          /* operation boundary = yield point */
        if( OP_ALLOC == o->kind ) do_alloc(tid, i); else do_free(tid, o->th, o->k);
    }
}

static FILE *meta;
static long nexec = 0;

static void wrapup(void)
{
    int t, i;
    for( t = 0; t < nthreads; t++ ) for( i = 0; i < nops[t]; i++ ) do_free(nthreads, t, i + 1);
    final_count = (long)parsec_mempool_destruct(&mp);
    vt_ev("\"e\":\"final\",\"n\":%ld", final_count);
}

static void finish_execution(vs_run_t *r)
{
    int i;
    if( nexec++ ) vt_reset_marker();
    vt_raw("{\"e\":\"init\",\"np\":%d,\"es\":%d,\"al\":%d}", nthreads, esize, lifo_align);
    vt_dump();
    if( r && r->deadlock ) vt_raw("{\"e\":\"Timeout\"}");
    fprintf(meta, "{\"sched\":\"");
    if( r ) for( i = 0; i < r->nsteps; i++ ) fputc('0' + r->who[i], meta);
    fprintf(meta, "\",\"deadlock\":%d,\"elements\":%d,\"counted\":%ld}\n", r ? r->deadlock : 0, nseen, final_count);
}

static int once(void *ctx, const unsigned char *sched, int slen, vs_run_t *r)
{
    (void)ctx;
    setup();
    vs_run(r, nthreads, body, NULL, sched, slen, 3000);
    if( !r->deadlock ) wrapup();
    finish_execution(r);
    if( r->deadlock ) { fflush(meta); vt_close(); _exit(0); }
    return 0;
}

static void *stress_thread(void *p) { body((int)(intptr_t)p, NULL); return NULL; }

int main(int argc, char **argv)
{
    int t;
    if( argc < 6 ) die("usage");
    parse_scenario(argv[2]);
    vt_init(1 << 14);
    if( vt_open(argv[4]) ) die("cannot open trace output");
    meta = fopen(argv[5], "w");
    { parsec_lifo_t l; PARSEC_OBJ_CONSTRUCT(&l, parsec_lifo_t); PARSEC_OBJ_DESTRUCT(&l); }   /* class initialisation */
    if( !strcmp(argv[1], "explore") ) {
        long n;
        vs_install();
        n = vs_explore(once, NULL, atol(argv[3]));
        fprintf(meta, "{\"explored\":%ld,\"exhaustive\":%s}\n", n < 0 ? -n : n, n < 0 ? "false" : "true");
    } else if( !strcmp(argv[1], "random") ) {
        long runs = atol(argv[3]), k;
        uint64_t x = 0x9E3779B97F4A7C15ULL ^ (uint64_t)(argc > 6 ? atol(argv[6]) : 1);
        static vs_run_t r;
        vs_install();
        for( k = 0; k < runs; k++ ) {
            static unsigned char sched[VS_MAXSTEPS]; int n = 0;
            while( n < 1000 ) {
                int tt, b;
                x ^= x << 13; x ^= x >> 7; x ^= x << 17;
                tt = (int)((x >> 20) % (uint64_t)nthreads);
                b = 1 + (int)((x >> 40) % 6);
                if( (x >> 60) & 1 ) b = 1;
                while( b-- > 0 && n < 1000 ) sched[n++] = (unsigned char)tt;
            }
            once(NULL, sched, n, &r);
        }
    } else if( !strcmp(argv[1], "stress") ) {
        long runs = atol(argv[3]), k;
        controlled = 0;
        for( k = 0; k < runs; k++ ) {
            pthread_t th[MAXT];
            setup();
            for( t = 0; t < nthreads; t++ ) pthread_create(&th[t], NULL, stress_thread, (void*)(intptr_t)t);
            for( t = 0; t < nthreads; t++ ) pthread_join(th[t], NULL);
            wrapup();
            finish_execution(NULL);
        }
    } else die("bad mode");
    fclose(meta);
    vt_close();
    return 0;
}
