/* C27 harness (arena part): drives the real parsec_arena_allocate_device_private / parsec_arena_release (and through
 * them parsec_arena_get_chunk / parsec_arena_release_chunk) along TLC-generated schedules (mode replay), over every
 * interleaving at yield-point granularity (mode explore), along seeded random schedules (mode random) or free-running
 * (mode stress), or sequentially over a list of scenarios (mode sweep: the placement sweep over alignments, element
 * sizes, counts and residues of the backing address).  The arena's data_malloc / data_free callbacks are the harness'
 * own: a bump allocator over a private region that returns addresses with a chosen residue modulo the arena alignment
 * (every multiple of 16, what malloc may legally return), guards each block with a canary before and after it, checks
 * the canaries and poisons the block when it is given back.  Every block obtained from or given back to the system is
 * logged with a small block id, its address (offset in the region) and size; every block handed out is logged with its
 * data address, the extent the caller is entitled to (count * elem_size) and the alignment; each owner fills its whole
 * extent with a private byte pattern and checks it before releasing.  The history goes to ArenaTrace.tla as ndjson.
 *
 *   arena_replay replay  <scenario> <schedules> <trace.ndjson> <meta.ndjson>
 *   arena_replay explore <scenario> <limit>     <trace.ndjson> <meta.ndjson>
 *   arena_replay random  <scenario> <runs>      <trace.ndjson> <meta.ndjson> <seed>
 *   arena_replay stress  <scenario> <runs>      <trace.ndjson> <meta.ndjson>
 *   arena_replay sweep   <scenarios> -          <trace.ndjson> <meta.ndjson>      (scenarios separated by a line "end";
 *                                                                                  threads run one after the other)
 *
 * scenario file:  mu N|inf / mc N|inf / esize E / align A / threads T / t <tid> op op ...   with op in
 *                 alloc:<count>[@<residue>]   rel:<k> (release the block obtained by this thread's k-th operation)
 *                 residue = address of the backing block modulo max(align, 16), when a new block is needed for this
 *                 operation (default: 16 * block id)
 */
#include "parsec/parsec_config.h"
#include "parsec/parsec_internal.h"
#include "parsec/class/parsec_object.h"
#include "parsec/arena.h"
#include "parsec/data_internal.h"
#include <stdio.h>
#include <stdlib.h>
#include <string.h>
#include <ctype.h>
#include <limits.h>
#include "vtrace.h"
#include "vsched.h"

#define MAXOPS 160
#define MAXT 16
#define MAXB 1024
#define INF 1000000
enum { OP_ALLOC, OP_REL };
typedef struct { int kind; int v; int res; } op_t;

static int mu = INF, mc = INF, esize = 64, align = 16, nthreads, nops[MAXT];
static op_t ops[MAXT][MAXOPS];
static int results[MAXT][MAXOPS];
static int controlled = 1;
static __thread int cur_tid = 0;                 /* 1-based id of the acting thread, 0 = arena destructor */

static parsec_arena_t arena;
static parsec_data_copy_t copies[MAXT][MAXOPS];
static parsec_data_t *dummy_data[MAXT];

/* The backing store of the arena: a private region, bump-allocated (nothing is reused within one execution, so a
 * block given back stays poisoned), reset by setup().  Addresses are logged as offsets in the region (< 2^31,
 * identical from one run to the next).  Registry of the blocks currently obtained (raw spinlock: never a yield point). */
#define REGION_SZ ((size_t)192 << 20)
#define PRE_GUARD 64
#define POST_GUARD_MIN 64
#define CANARY 0xE7
#define POISON 0xDD
static unsigned char region[REGION_SZ] __attribute__((aligned(65536)));
static size_t bump = 0;
static struct { unsigned char *addr; size_t size, post; int id; } reg[MAXB];
static volatile int reg_lock = 0;
static int nid = 0, nlive = 0;
static __thread int want_res = -1;               /* residue asked for by the operation in progress (-1: default) */
static void rlock(void) { while( __sync_lock_test_and_set(&reg_lock, 1) ) ; }
static void runlock(void) { __sync_lock_release(&reg_lock); }

static void die(const char *m) { fprintf(stderr, "arena_replay: %s\n", m); exit(3); }

static size_t amax(void) { return (size_t)(align > 16 ? align : 16); }
static int in_region(const void *p) { return (const unsigned char*)p >= region && (const unsigned char*)p < region + REGION_SZ; }
static int off_of(const void *p) { return in_region(p) ? (int)((const unsigned char*)p - region) : -1; }

static int reg_find(void *p, size_t *size, size_t *post)
{
    int i, id = -1;
    rlock();
    for( i = 0; i < MAXB; i++ ) if( reg[i].addr == (unsigned char*)p ) {
        id = reg[i].id; if( size ) *size = reg[i].size; if( post ) *post = reg[i].post; break;
    }
    runlock();
    return id;
}

static void *my_malloc(size_t size)
{
    size_t A = amax(), post = A + POST_GUARD_MIN, r, start;
    unsigned char *p;
    int i, id;
    rlock();
    id = ++nid; nlive++;
    r = (want_res >= 0 ? (size_t)want_res : (size_t)16 * (size_t)id) % A;
    r -= r % 16;                                   /* malloc never returns less than 16-byte alignment */
    start = bump + PRE_GUARD;
    start = (start + A - 1) / A * A + r;           /* region is aligned to 65536 >= A */
    if( start + size + post > REGION_SZ ) { runlock(); die("backing region exhausted"); }
    p = region + start;
    bump = start + size + post;
    for( i = 0; i < MAXB; i++ ) if( NULL == reg[i].addr ) { reg[i].addr = p; reg[i].size = size; reg[i].post = post; reg[i].id = id; break; }
    runlock();
    if( i == MAXB ) die("block registry full");
    memset(p - PRE_GUARD, CANARY, PRE_GUARD);
    memset(p + size, CANARY, post);
    vt_ev("\"e\":\"malloc\",\"t\":%d,\"b\":%d,\"sz\":%d,\"base\":%d", cur_tid, id, (int)size, off_of(p));
    return p;
}

static void my_free(void *ptr)
{
    unsigned char *p = (unsigned char*)ptr;
    size_t size = 0, post = 0, k;
    int i, id = -1, can = 1;
    rlock();
    for( i = 0; i < MAXB; i++ ) if( NULL != p && reg[i].addr == p ) {
        id = reg[i].id; size = reg[i].size; post = reg[i].post; reg[i].addr = NULL; nlive--; break;
    }
    runlock();
    if( id > 0 ) {                  /* an unknown pointer is reported (b = -1), not touched */
        for( k = 0; k < PRE_GUARD; k++ ) if( p[k - PRE_GUARD] != CANARY ) can = 0;
        for( k = 0; k < post; k++ ) if( p[size + k] != CANARY ) can = 0;
        memset(p, POISON, size);
    }
    vt_ev("\"e\":\"free\",\"t\":%d,\"b\":%d,\"can\":%d", cur_tid, id, can);
}

/* reads one scenario (up to a line "end" or the end of the file); returns 0 when there was nothing to read */
static int parse_scenario(FILE *f)
{
    char line[8192];
    int seen = 0;
    mu = INF; mc = INF; esize = 64; align = 16; nthreads = 0;
    memset(nops, 0, sizeof(nops));
    while( fgets(line, sizeof(line), f) ) {
        char *tok = strtok(line, " \t\n");
        if( !tok ) continue;
        if( !strcmp(tok, "end") ) break;
        seen = 1;
        if( !strcmp(tok, "mu") ) { tok = strtok(NULL, " \t\n"); mu = !strcmp(tok, "inf") ? INF : atoi(tok); }
        else if( !strcmp(tok, "mc") ) { tok = strtok(NULL, " \t\n"); mc = !strcmp(tok, "inf") ? INF : atoi(tok); }
        else if( !strcmp(tok, "esize") ) esize = atoi(strtok(NULL, " \t\n"));
        else if( !strcmp(tok, "align") ) align = atoi(strtok(NULL, " \t\n"));
        else if( !strcmp(tok, "threads") ) nthreads = atoi(strtok(NULL, " \t\n"));
        else if( !strcmp(tok, "t") ) {
            int t = atoi(strtok(NULL, " \t\n"));
            if( t >= MAXT ) die("too many threads");
            while( (tok = strtok(NULL, " \t\n")) ) {
                op_t *o;
                if( nops[t] >= MAXOPS ) die("too many operations");
                o = &ops[t][nops[t]++];
                if( !strncmp(tok, "alloc:", 6) ) {
                    char *at = strchr(tok, '@');
                    o->kind = OP_ALLOC; o->v = atoi(tok + 6); o->res = at ? atoi(at + 1) : -1;
                }
                else if( !strncmp(tok, "rel:", 4) ) { o->kind = OP_REL; o->v = atoi(tok + 4); }
                else die("bad op");
            }
        }
    }
    if( nthreads > MAXT ) die("scenario too large");
    if( seen && (esize <= 0 || align <= 1 || (align & (align - 1))) ) die("bad element size / alignment");
    return seen;
}

static void setup(void)
{
    int rc;
    memset(reg, 0, sizeof(reg)); nid = 0; nlive = 0; bump = 0;
    {
        int t;
        for( t = 0; t < MAXT; t++ ) {
            size_t n = (size_t)(t < nthreads ? nops[t] : 0);
            memset(results[t], 0, sizeof(results[t]));
            memset(copies[t], 0, n * sizeof(copies[t][0]));
        }
    }
    PARSEC_OBJ_CONSTRUCT(&arena, parsec_arena_t);
    rc = parsec_arena_construct_ex(&arena, (size_t)esize, (size_t)align,
                                   INF == mu ? SIZE_MAX : (size_t)mu * (size_t)esize,
                                   INF == mc ? SIZE_MAX : (size_t)mc * (size_t)esize);
    if( PARSEC_SUCCESS != rc ) die("arena construction refused");
    arena.data_malloc = my_malloc;
    arena.data_free = my_free;
}

/* owner marks 1..199: never the canary, the poison or the zero of untouched memory */
static unsigned char tag_of(int tid, int i) { return (unsigned char)(1 + (tid * MAXOPS + i) % 199); }
static int ext_of[MAXT][MAXOPS];                 /* bytes the owner asked for */
static char tagged[MAXT][MAXOPS];                 /* the owner's mark could be written (extent inside our own memory) */

static void do_alloc(int tid, int i, int c, int res)
{
    parsec_data_copy_t *copy = &copies[tid][i];
    int rc, id = 0, doff = -1, ext = c * esize;
    vt_ev("\"e\":\"inv\",\"t\":%d,\"op\":\"alloc\",\"c\":%d", tid + 1, c);
    memset(copy, 0, sizeof(*copy));
    copy->original = dummy_data[tid];             /* allocate_device_private records the span there */
    want_res = res;
    rc = parsec_arena_allocate_device_private(copy, &arena, (size_t)c, 0, PARSEC_DATATYPE_NULL);
    want_res = -1;
    copy->original = NULL;                        /* no data layer here: release skips the detach */
    tagged[tid][i] = 0; ext_of[tid][i] = ext;
    if( PARSEC_SUCCESS == rc ) {
        size_t size = 0, post = 0;
        unsigned char *base = (unsigned char*)copy->arena_chunk, *d = (unsigned char*)copy->device_private;
        id = reg_find(copy->arena_chunk, &size, &post);
        doff = off_of(d);
        /* the owner's mark, over everything that was asked for; an extent that leaves the block is still written as
         * long as it stays within the guards of the block (the canary then tells at free time), never beyond */
        if( id > 0 && doff >= 0 && d >= base - PRE_GUARD && d + ext <= base + size + post ) {
            memset(d, tag_of(tid, i), (size_t)ext);
            tagged[tid][i] = 1;
        }
    }
    results[tid][i] = id < 0 ? 0 : id;
    vt_ev("\"e\":\"res\",\"t\":%d,\"op\":\"alloc\",\"b\":%d,\"data\":%d,\"ext\":%d,\"al\":%d", tid + 1, id, doff, ext,
          PARSEC_SUCCESS == rc ? (int)arena.alignment : 0);
}

static void do_rel(int tid, int as_tid, int j)
{
    parsec_data_copy_t *copy = &copies[tid][j];
    int id = results[tid][j], ok = tagged[tid][j];
    size_t k, n = (size_t)ext_of[tid][j];
    unsigned char *d = (unsigned char*)copy->device_private;
    if( ok ) for( k = 0; k < n; k++ ) if( d[k] != tag_of(tid, j) ) { ok = 0; break; }
    results[tid][j] = 0;
    vt_ev("\"e\":\"inv\",\"t\":%d,\"op\":\"rel\",\"b\":%d,\"tag\":%d", as_tid + 1, id, ok);
    parsec_arena_release(copy);
    vt_ev("\"e\":\"res\",\"t\":%d,\"op\":\"rel\"", as_tid + 1);
}

static int alloc_result[MAXT][MAXOPS];            /* block ids as returned, kept for the meta line */

static void body(int tid, void *arg)
{
    int i;
    (void)arg;
    cur_tid = tid + 1;
    for( i = 0; i < nops[tid]; i++ ) {
        op_t *o = &ops[tid][i];
        if( i > 0 && controlled ) vs_yield();          /* operation boundary = yield point */
        if( OP_ALLOC == o->kind ) { do_alloc(tid, i, o->v, o->res); alloc_result[tid][i] = results[tid][i]; }
        else { if( results[tid][o->v - 1] > 0 ) do_rel(tid, tid, o->v - 1); alloc_result[tid][i] = 0; }
    }
}

static FILE *meta;
static long nexec = 0;
static int q_used, q_released, q_cached;

/* after every thread finished: note the counters, release what is still held (on behalf of the owner), destroy */
static void wrapup(void)
{
    int t, i, held = 0;
    for( t = 0; t < nthreads; t++ ) for( i = 0; i < nops[t]; i++ ) if( results[t][i] > 0 ) held++;
    q_used = arena.used; q_released = arena.released; q_cached = nlive - held;
    for( t = 0; t < nthreads; t++ )
        for( i = 0; i < nops[t]; i++ )
            if( results[t][i] > 0 ) { cur_tid = t + 1; do_rel(t, t, i); }
    cur_tid = 0;
    PARSEC_OBJ_DESTRUCT(&arena);
    vt_ev("\"e\":\"final\"");
}

static void finish_execution(vs_run_t *r)
{
    int t, i;
    if( nexec++ ) vt_reset_marker();
    vt_raw("{\"e\":\"init\",\"mu\":%d,\"mc\":%d,\"al\":%d,\"es\":%d,\"hd\":%d}", mu, mc, align, esize,
           (int)sizeof(parsec_arena_chunk_t));
    vt_dump();
    if( r && r->deadlock ) vt_raw("{\"e\":\"Timeout\"}");
    fprintf(meta, "{\"sched\":\"");
    if( r ) for( i = 0; i < r->nsteps; i++ ) fputc('0' + r->who[i], meta);
    fprintf(meta, "\",\"deadlock\":%d,\"ret\":[", r ? r->deadlock : 0);
    for( t = 0; t < nthreads; t++ ) {
        fprintf(meta, "%s[", t ? "," : "");
        for( i = 0; i < nops[t]; i++ ) fprintf(meta, "%s%d", i ? "," : "", alloc_result[t][i]);
        fputc(']', meta);
    }
    fprintf(meta, "],\"used\":%d,\"released\":%d,\"cached\":%d}\n", q_used, q_released, q_cached);
}

static int once(void *ctx, const unsigned char *sched, int slen, vs_run_t *r)
{
    (void)ctx;
    setup();
    vs_run(r, nthreads, body, NULL, sched, slen, 3000);
    if( !r->deadlock ) wrapup();
    finish_execution(r);
    if( r->deadlock ) { fflush(meta); vt_close(); _exit(0); }   /* parked threads: cannot continue safely */
    return 0;
}

static void *stress_thread(void *p) { body((int)(intptr_t)p, NULL); return NULL; }

int main(int argc, char **argv)
{
    int t;
    FILE *scf;
    if( argc < 6 ) die("usage");
    scf = fopen(argv[2], "r");
    if( !scf ) die("cannot open scenario");
    if( !parse_scenario(scf) ) die("empty scenario");
    vt_init(1 << 14);
    if( vt_open(argv[4]) ) die("cannot open trace output");
    meta = fopen(argv[5], "w");
    for( t = 0; t < MAXT; t++ ) dummy_data[t] = (parsec_data_t*)calloc(1, sizeof(parsec_data_t) + 256);
    {   /* class initialisation takes a lock the first time an object of a class is created: do it now */
        parsec_list_item_t li;
        PARSEC_OBJ_CONSTRUCT(&li, parsec_list_item_t);
        PARSEC_OBJ_DESTRUCT(&li);
        setup();
        PARSEC_OBJ_DESTRUCT(&arena);
    }
    if( !strcmp(argv[1], "replay") ) {
        FILE *sf = fopen(argv[3], "r");
        char line[VS_MAXSTEPS + 2];
        static vs_run_t r;
        if( !sf ) die("cannot open schedules");
        vs_install();
        while( fgets(line, sizeof(line), sf) ) {
            unsigned char sched[VS_MAXSTEPS]; int n = 0; char *p;
            for( p = line; *p && n < VS_MAXSTEPS; p++ ) if( isdigit((unsigned char)*p) ) sched[n++] = (unsigned char)(*p - '0');
            once(NULL, sched, n, &r);
        }
        fclose(sf);
    } else if( !strcmp(argv[1], "explore") ) {
        long n;
        vs_install();
        n = vs_explore(once, NULL, atol(argv[3]));
        fprintf(meta, "{\"explored\":%ld,\"exhaustive\":%s}\n", n < 0 ? -n : n, n < 0 ? "false" : "true");
    } else if( !strcmp(argv[1], "random") ) {
        long runs = atol(argv[3]), k;
        uint64_t x = 0x9E3779B97F4A7C15ULL ^ (uint64_t)(argc > 6 ? atol(argv[6]) : 1);
        static vs_run_t r;
        vs_install();
        for( k = 0; k < runs; k++ ) {
            static unsigned char sched[VS_MAXSTEPS]; int n = 0;
            while( n < 1000 ) {
                int tt, b;
                x ^= x << 13; x ^= x >> 7; x ^= x << 17;
                tt = (int)((x >> 20) % (uint64_t)nthreads);
                b = 1 + (int)((x >> 40) % 6);
                if( (x >> 60) & 1 ) b = 1;
                while( b-- > 0 && n < 1000 ) sched[n++] = (unsigned char)tt;
            }
            once(NULL, sched, n, &r);
        }
    } else if( !strcmp(argv[1], "stress") ) {
        long runs = atol(argv[3]), k;
        controlled = 0;
        for( k = 0; k < runs; k++ ) {
            pthread_t th[MAXT];
            setup();
            for( t = 0; t < nthreads; t++ ) pthread_create(&th[t], NULL, stress_thread, (void*)(intptr_t)t);
            for( t = 0; t < nthreads; t++ ) pthread_join(th[t], NULL);
            wrapup();
            finish_execution(NULL);
        }
    } else if( !strcmp(argv[1], "sweep") ) {
        controlled = 0;
        do {
            setup();
            for( t = 0; t < nthreads; t++ ) body(t, NULL);
            wrapup();
            finish_execution(NULL);
        } while( parse_scenario(scf) );
    } else die("bad mode");
    fclose(scf);
    fclose(meta);
    vt_close();
    return 0;
}
