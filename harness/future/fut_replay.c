/* C29 harness: drives the real future classes (parsec_future.c, parsec_datacopy_future.c) through their vtable
 * macros along TLC-generated schedules (mode replay), over every interleaving at yield-point granularity (mode
 * explore), along seeded random schedules (mode random) or free-running (mode stress), and records the history
 * (calls, results, every callback invocation) as ndjson for FutureTrace.tla.
 *
 *   fut_replay replay  <scenario> <schedules> <trace.ndjson> <meta.ndjson>
 *   fut_replay explore <scenario> <limit>     <trace.ndjson> <meta.ndjson>
 *   fut_replay random  <scenario> <runs>      <trace.ndjson> <meta.ndjson> <seed>
 *   fut_replay stress  <scenario> <runs>      <trace.ndjson> <meta.ndjson>
 *   fut_replay burst   <scenario> <rounds>    <trace.ndjson> <meta.ndjson> [futures per round]
 *
 * burst (countable futures, free-running): the T threads of the scenario stay alive; in every round F fresh countable
 * futures with count = `count` of the scenario are created, all threads are released together by a spin barrier and each
 * performs exactly one parsec_future_set on every future, in the same order, so that the LAST sets of a future overlap;
 * after a second barrier one thread asks is_ready of every future and destroys it.  Each future is one execution
 * (init, inv/res of every set, every callback invocation, the final is_ready, final); events carry stamps of one
 * process-wide atomic counter taken at the event (same discipline as vtrace) and are sorted per future.  Thread ids
 * are renamed in order of first appearance in the history of the future (FutureTrace is symmetric in the thread
 * ids); a history whose text was already written is only counted, not written again (exact text comparison).
 *
 * scenario file:  kind base|count|dc / count N / sync 0|1 / threads T / t <tid> op op ...   with op in
 *                 set:<v>  get  isready            (base, count)
 *                 got:<s>  complete:<s>            (dc; s = requested shape, 0 = no specification, 1 = the root's)
 */
#include "parsec/parsec_config.h"
#include "parsec/class/parsec_object.h"
#include "parsec/class/list.h"
#include "parsec/class/parsec_future.h"
#include "parsec/utils/debug.h"
#include <stdio.h>
#include <stdlib.h>
#include <string.h>
#include <ctype.h>
#include "vtrace.h"
#include "vsched.h"

#define MAXOPS 32
#define MAXT 16
#define MAXS 8
enum { K_BASE, K_COUNT, K_DC };
enum { OP_SET, OP_GET, OP_ISREADY, OP_GOT, OP_COMPLETE };
typedef struct { int kind; int v; } op_t;

static int kind = K_BASE, count = 1, sync_mode = 1, nthreads, nops[MAXT];
static op_t ops[MAXT][MAXOPS];
static int results[MAXT][MAXOPS];
static int controlled = 1;
static __thread int cur_tid = 0;                 /* 1-based id of the calling harness thread */

static parsec_base_future_t *fut;                /* base / countable future, or the root datacopy future */
static int vals[MAXS + 1];                       /* vals[i] = i : the values / data handed to the futures */
static int spec[MAXS + 1];                       /* spec[s] = s : shape specifications */
static parsec_base_future_t *fut_of[MAXS + 1];   /* datacopy futures by tracked shape */
static volatile int fulfilled[MAXS + 1], completed[MAXS + 1];
static int n_fulfil[MAXS + 1], n_setup[MAXS + 1], n_cb;

static int err_fd = 2;
static void die(const char *m) { dprintf(err_fd, "fut_replay: %s\n", m); exit(3); }

static void parse_scenario(const char *path)
{
    FILE *f = fopen(path, "r");
    char line[4096];
    if( !f ) die("cannot open scenario");
    while( fgets(line, sizeof(line), f) ) {
        char *tok = strtok(line, " \t\n");
        if( !tok ) continue;
        if( !strcmp(tok, "kind") ) {
            tok = strtok(NULL, " \t\n");
            kind = !strcmp(tok, "base") ? K_BASE : !strcmp(tok, "count") ? K_COUNT : K_DC;
        }
        else if( !strcmp(tok, "count") ) count = atoi(strtok(NULL, " \t\n"));
        else if( !strcmp(tok, "sync") ) sync_mode = atoi(strtok(NULL, " \t\n"));
        else if( !strcmp(tok, "threads") ) nthreads = atoi(strtok(NULL, " \t\n"));
        else if( !strcmp(tok, "t") ) {
            int t = atoi(strtok(NULL, " \t\n"));
            if( t >= MAXT ) die("too many threads");
            while( (tok = strtok(NULL, " \t\n")) ) {
                op_t *o;
                if( nops[t] >= MAXOPS ) die("too many operations");
                o = &ops[t][nops[t]++];
                memset(o, 0, sizeof(*o));
                if( !strncmp(tok, "set:", 4) ) { o->kind = OP_SET; o->v = atoi(tok + 4); }
                else if( !strcmp(tok, "get") ) o->kind = OP_GET;
                else if( !strcmp(tok, "isready") ) o->kind = OP_ISREADY;
                else if( !strncmp(tok, "got:", 4) ) { o->kind = OP_GOT; o->v = atoi(tok + 4); }
                else if( !strncmp(tok, "complete:", 9) ) { o->kind = OP_COMPLETE; o->v = atoi(tok + 9); }
                else die("bad op");
                if( o->v < 0 || o->v > MAXS ) die("value out of range");
            }
        }
    }
    fclose(f);
    if( nthreads > MAXT ) die("scenario too large");
}

/* ---- callbacks handed to the futures -------------------------------------------------------------------- */
static void cb_done(parsec_base_future_t *f, ...)              /* completion callback of base / countable futures */
{
    (void)f;
    __sync_fetch_and_add(&n_cb, 1);
    vt_ev("\"e\":\"cb\",\"t\":%d", cur_tid);
}

static int shape_of(parsec_base_future_t *f) { return *(int*)((parsec_datacopy_future_t*)f)->cb_match_data_in; }

static void cb_fulfill(parsec_base_future_t *f, ...)           /* fulfilment callback of datacopy futures */
{
    int s = shape_of(f);
    __sync_fetch_and_add(&n_fulfil[s], 1);
    vt_ev("\"e\":\"fulfil\",\"t\":%d,\"sh\":%d", cur_tid, s);
    fulfilled[s] = 1;
    if( sync_mode ) { completed[s] = 1; parsec_future_set(f, &vals[s]); }
}

static int cb_match(parsec_base_future_t *f, ...)
{
    va_list ap; void *t1, *t2;
    va_start(ap, f); t1 = va_arg(ap, void*); t2 = va_arg(ap, void*); va_end(ap);
    return *(int*)t1 == *(int*)t2;
}

static void cb_cleanup(parsec_base_future_t *f, ...)
{
    vt_ev("\"e\":\"cleanup\",\"sh\":%d", shape_of(f));
}

static void cb_nested(parsec_base_future_t **out, ...)
{
    va_list ap; parsec_datacopy_future_t *root; int *request, s;
    parsec_datacopy_future_t *nf;
    va_start(ap, out); root = va_arg(ap, parsec_datacopy_future_t*); request = va_arg(ap, int*); va_end(ap);
    (void)root;
    s = *request;
    __sync_fetch_and_add(&n_setup[s], 1);
    vt_ev("\"e\":\"setup\",\"t\":%d,\"sh\":%d", cur_tid, s);
    nf = PARSEC_OBJ_NEW(parsec_datacopy_future_t);
    parsec_future_init(nf, cb_fulfill, &spec[s], cb_match, &spec[s], cb_cleanup);
    fut_of[s] = (parsec_base_future_t*)nf;
    *out = (parsec_base_future_t*)nf;
}

static void setup(void)
{
    int i;
    for( i = 0; i <= MAXS; i++ ) { vals[i] = i; spec[i] = i; fut_of[i] = NULL; fulfilled[i] = completed[i] = 0; n_fulfil[i] = n_setup[i] = 0; }
    n_cb = 0;
    memset(results, 0, sizeof(results));
    if( K_BASE == kind ) {
        fut = (parsec_base_future_t*)PARSEC_OBJ_NEW(parsec_base_future_t);
        parsec_future_init(fut, cb_done);
    } else if( K_COUNT == kind ) {
        fut = (parsec_base_future_t*)PARSEC_OBJ_NEW(parsec_countable_future_t);
        parsec_future_init(fut, cb_done, count);
    } else {
        fut = (parsec_base_future_t*)PARSEC_OBJ_NEW(parsec_datacopy_future_t);
        parsec_future_init(fut, cb_fulfill, &spec[1], cb_match, &spec[1], cb_cleanup);
        fut_of[1] = fut;
    }
}

static void do_op(int tid, op_t *o, int *res)
{
    void *p;
    int r = 0;
    switch( o->kind ) {
    case OP_SET:
        vt_ev("\"e\":\"inv\",\"t\":%d,\"op\":\"set\",\"v\":%d", tid + 1, o->v);
        parsec_future_set(fut, &vals[o->v]);
        vt_ev("\"e\":\"res\",\"t\":%d,\"op\":\"set\",\"r\":0", tid + 1);
        break;
    case OP_GET:
        vt_ev("\"e\":\"inv\",\"t\":%d,\"op\":\"get\"", tid + 1);
        p = parsec_future_get(fut);
        r = NULL == p ? 0 : *(int*)p;
        vt_ev("\"e\":\"res\",\"t\":%d,\"op\":\"get\",\"r\":%d", tid + 1, r);
        break;
    case OP_ISREADY:
        vt_ev("\"e\":\"inv\",\"t\":%d,\"op\":\"isready\"", tid + 1);
        r = parsec_future_is_ready(fut) ? 1 : 0;
        vt_ev("\"e\":\"res\",\"t\":%d,\"op\":\"isready\",\"r\":%d", tid + 1, r);
        break;
    case OP_GOT: {
        int req = o->v;
        vt_ev("\"e\":\"inv\",\"t\":%d,\"op\":\"got\",\"sh\":%d", tid + 1, o->v);
        p = parsec_future_get_or_trigger(fut, cb_nested, (0 == req ? NULL : (void*)&req), NULL, NULL);
        r = NULL == p ? 0 : *(int*)p;
        vt_ev("\"e\":\"res\",\"t\":%d,\"op\":\"got\",\"r\":%d", tid + 1, r);
        break; }
    case OP_COMPLETE: {
        /* asynchronous completion: somebody (think: the communication thread) delivers the data of a future whose
         * fulfilment was triggered earlier; exactly one caller may do it */
        int s = o->v;
        vt_ev("\"e\":\"inv\",\"t\":%d,\"op\":\"complete\",\"sh\":%d", tid + 1, s);
        if( NULL != fut_of[s] && fulfilled[s] && __sync_bool_compare_and_swap(&completed[s], 0, 1) ) {
            parsec_future_set(fut_of[s], &vals[s]);
            r = 1;
        }
        vt_ev("\"e\":\"res\",\"t\":%d,\"op\":\"complete\",\"r\":%d", tid + 1, r);
        break; }
    }
    *res = r;
}

static void body(int tid, void *arg)
{
    int i;
    (void)arg;
    cur_tid = tid + 1;
    for( i = 0; i < nops[tid]; i++ ) {
        if( i > 0 && controlled ) vs_yield();          /* operation boundary = yield point */
        do_op(tid, &ops[tid][i], &results[tid][i]);
    }
}

static FILE *meta;
static long nexec = 0;

/* after every thread finished: deliver what is still owed, destroy, log */
static void wrapup(void)
{
    int s, r;
    cur_tid = nthreads + 1;
    if( K_DC == kind ) {
        for( s = 1; s <= MAXS; s++ )
            if( NULL != fut_of[s] && fulfilled[s] && !completed[s] ) { op_t o = { OP_COMPLETE, s }; do_op(nthreads, &o, &r); }
    }
    PARSEC_OBJ_RELEASE(fut);
    vt_ev("\"e\":\"final\"");
}

static void finish_execution(vs_run_t *r)
{
    int t, i;
    if( nexec++ ) vt_reset_marker();
    vt_raw("{\"e\":\"init\",\"kind\":\"%s\",\"n\":%d,\"sync\":%d}", K_BASE == kind ? "base" : K_COUNT == kind ? "count" : "dc",
           K_COUNT == kind ? count : 0, sync_mode);
    vt_dump();
    if( r && r->deadlock ) vt_raw("{\"e\":\"Timeout\"}");
    fprintf(meta, "{\"sched\":\"");
    if( r ) for( i = 0; i < r->nsteps; i++ ) fputc('0' + r->who[i], meta);
    fprintf(meta, "\",\"deadlock\":%d,\"ret\":[", r ? r->deadlock : 0);
    for( t = 0; t < nthreads; t++ ) {
        fprintf(meta, "%s[", t ? "," : "");
        for( i = 0; i < nops[t]; i++ ) fprintf(meta, "%s%d", i ? "," : "", results[t][i]);
        fputc(']', meta);
    }
    fprintf(meta, "],\"cbs\":%d,\"fulfils\":[", n_cb);
    for( i = 1; i <= MAXS; i++ ) fprintf(meta, "%s%d", i > 1 ? "," : "", n_fulfil[i]);
    fprintf(meta, "]}\n");
}

static int once(void *ctx, const unsigned char *sched, int slen, vs_run_t *r)
{
    (void)ctx;
    setup();
    vs_run(r, nthreads, body, NULL, sched, slen, 3000);
    if( !r->deadlock ) wrapup();
    finish_execution(r);
    if( r->deadlock ) { fflush(meta); vt_close(); _exit(0); }   /* parked threads: cannot continue safely */
    return 0;
}

static void *stress_thread(void *p) { body((int)(intptr_t)p, NULL); return NULL; }

/* ---- burst mode --------------------------------------------------------------------------------------------------- */
#include <sched.h>
#include <time.h>
#define BMAXF 256
enum { BE_INV, BE_RES, BE_CB, BE_RINV, BE_RRES };
typedef struct { long stamp; short f; short type; short r; short t; } bev_t;
static parsec_base_future_t *bfut[BMAXF];
static int bnf = 64;
static volatile long bstamp;
static bev_t *bevs[MAXT + 1]; static int bnev[MAXT + 1], bcap;     /* per-thread event arrays of the current round */
static __thread int btid;                                             /* 0-based thread of the burst */
static volatile int bbar_in, bbar_gen, bquit;
static double bdeadline;
static long brounds, bdone, bhist, bdistinct, bcbs, boverflow;

static void bev(int f, int type, int r)
{
    long st = __sync_fetch_and_add(&bstamp, 1);
    int k = bnev[btid];
    if( k >= bcap ) { __sync_fetch_and_add(&boverflow, 1); return; }
    bevs[btid][k].stamp = st; bevs[btid][k].f = (short)f; bevs[btid][k].type = (short)type; bevs[btid][k].r = (short)r;
    bnev[btid] = k + 1;
}

static void cb_burst(parsec_base_future_t *f, ...)
{
    for( int i = 0; i < bnf; i++ ) if( bfut[i] == f ) { bev(i, BE_CB, 0); return; }
    bev(0, BE_CB, -1);        /* a callback for an unknown future: shows as an extra callback of future 0 */
}

static void bbarrier(void)
{
    int gen = bbar_gen;
    if( nthreads == __sync_add_and_fetch(&bbar_in, 1) ) {
        bbar_in = 0;
        __sync_synchronize();
        bbar_gen = gen + 1;
    } else {
        int spin = 0;
        while( bbar_gen == gen ) { if( ++spin > 2000 ) { sched_yield(); spin = 0; } }
    }
    __sync_synchronize();
}

/* set of the history texts already written (exact comparison) */
typedef struct bnode_s { struct bnode_s *next; unsigned long h; char *txt; } bnode_t;
#define BHASH 16384
static bnode_t *btab[BHASH];
static int bseen(const char *txt)
{
    unsigned long h = 1469598103934665603UL;
    for( const char *p = txt; *p; p++ ) h = (h ^ (unsigned char)*p) * 1099511628211UL;
    for( bnode_t *n = btab[h % BHASH]; n; n = n->next ) if( n->h == h && !strcmp(n->txt, txt) ) return 1;
    bnode_t *n = (bnode_t*)malloc(sizeof(bnode_t));
    n->h = h; n->txt = strdup(txt); n->next = btab[h % BHASH]; btab[h % BHASH] = n;
    return 0;
}

static int bev_cmp(const void *a, const void *b) { long x = ((const bev_t*)a)->stamp, y = ((const bev_t*)b)->stamp; return x < y ? -1 : x > y; }

/* after the round (single thread): one execution per future */
static void bemit_round(void)
{
    static bev_t all[(MAXT + 1) * 8 + 64];
    static char txt[(MAXT + 1) * 8 * 64 + 512];
    for( int f = 0; f < bnf; f++ ) {
        int n = 0, len = 0, map[MAXT + 2], nmap = 0;
        for( int t = 0; t <= nthreads; t++ )
            for( int k = 0; k < bnev[t]; k++ )
                if( bevs[t][k].f == f && n < (int)(sizeof(all) / sizeof(all[0])) ) { all[n] = bevs[t][k]; all[n].t = (short)t; n++; }
        qsort(all, (size_t)n, sizeof(bev_t), bev_cmp);
        for( int t = 0; t <= nthreads + 1; t++ ) map[t] = 0;
        len += snprintf(txt + len, sizeof(txt) - len, "{\"e\":\"init\",\"kind\":\"count\",\"n\":%d,\"sync\":1}\n", count);
        for( int k = 0; k < n; k++ ) {
            int t = all[k].t, r = all[k].r, id;
            if( 0 == map[t] ) map[t] = ++nmap;
            id = map[t];
            switch( all[k].type ) {
            case BE_INV:  len += snprintf(txt + len, sizeof(txt) - len, "{\"e\":\"inv\",\"t\":%d,\"op\":\"set\",\"v\":1}\n", id); break;
            case BE_RES:  len += snprintf(txt + len, sizeof(txt) - len, "{\"e\":\"res\",\"t\":%d,\"op\":\"set\",\"r\":0}\n", id); break;
            case BE_CB:   len += snprintf(txt + len, sizeof(txt) - len, "{\"e\":\"cb\",\"t\":%d}\n", id); bcbs++; break;
            case BE_RINV: len += snprintf(txt + len, sizeof(txt) - len, "{\"e\":\"inv\",\"t\":%d,\"op\":\"isready\"}\n", id); break;
            default:      len += snprintf(txt + len, sizeof(txt) - len, "{\"e\":\"res\",\"t\":%d,\"op\":\"isready\",\"r\":%d}\n", id, r); break;
            }
        }
        len += snprintf(txt + len, sizeof(txt) - len, "{\"e\":\"final\"}");
        bhist++;
        if( bseen(txt) ) continue;
        if( bdistinct++ ) vt_reset_marker();
        vt_raw("%s", txt);
    }
}

static void *burst_thread(void *p)
{
    btid = (int)(intptr_t)p;
    cur_tid = btid + 1;
    for( long r = 0; r < brounds; r++ ) {
        if( 0 == btid ) {
            struct timespec ts; clock_gettime(CLOCK_MONOTONIC, &ts);
            if( ts.tv_sec + 1e-9 * ts.tv_nsec > bdeadline ) bquit = 1;   /* written before the barrier, read after it */
            for( int t = 0; t <= nthreads; t++ ) bnev[t] = 0;
            for( int i = 0; i < bnf && !bquit; i++ ) {
                bfut[i] = (parsec_base_future_t*)PARSEC_OBJ_NEW(parsec_countable_future_t);
                parsec_future_init(bfut[i], cb_burst, count);
            }
        }
        bbarrier();
        if( bquit ) break;
        if( 0 == btid ) bdone++;
        for( int i = 0; i < bnf; i++ ) {
            bev(i, BE_INV, 0);
            parsec_future_set(bfut[i], &vals[1]);
            bev(i, BE_RES, 0);
        }
        bbarrier();
        if( 0 == btid ) {
            btid = nthreads;                  /* the observer logs into its own array, as one more thread */
            for( int i = 0; i < bnf; i++ ) {
                int rd;
                bev(i, BE_RINV, 0);
                rd = parsec_future_is_ready(bfut[i]) ? 1 : 0;
                bev(i, BE_RRES, rd);
            }
            btid = 0;
            bemit_round();
            for( int i = 0; i < bnf; i++ ) PARSEC_OBJ_RELEASE(bfut[i]);
        }
    }
    return NULL;
}

int main(int argc, char **argv)
{
    if( argc < 6 ) die("usage");
    parse_scenario(argv[2]);
    vt_init(1 << 14);
    if( vt_open(argv[4]) ) die("cannot open trace output");
    meta = fopen(argv[5], "w");
    /* the futures report ignored sets with parsec_warning(): keep the (expected) messages off stderr, and let the
     * output layer do its lazy initialisation before any controlled run */
    err_fd = dup(2);
    if( NULL == freopen("/dev/null", "w", stderr) ) die("cannot silence stderr");
    parsec_warning("fut_replay: warm-up");
    {   /* class initialisation takes a lock the first time an object of a class is created: do it now */
        parsec_list_t *l = PARSEC_OBJ_NEW(parsec_list_t);
        parsec_datacopy_future_t *d = PARSEC_OBJ_NEW(parsec_datacopy_future_t);
        parsec_countable_future_t *c = PARSEC_OBJ_NEW(parsec_countable_future_t);
        parsec_list_item_t li;
        PARSEC_OBJ_CONSTRUCT(&li, parsec_list_item_t);
        PARSEC_OBJ_DESTRUCT(&li);
        PARSEC_OBJ_RELEASE(l); PARSEC_OBJ_RELEASE(c);
        parsec_future_init(d, cb_fulfill, &spec[0], cb_match, &spec[0], NULL);
        PARSEC_OBJ_RELEASE(d);
    }
    if( !strcmp(argv[1], "replay") ) {
        FILE *sf = fopen(argv[3], "r");
        char line[VS_MAXSTEPS + 2];
        static vs_run_t r;
        if( !sf ) die("cannot open schedules");
        vs_install();
        while( fgets(line, sizeof(line), sf) ) {
            unsigned char sched[VS_MAXSTEPS]; int n = 0; char *p;
            for( p = line; *p && n < VS_MAXSTEPS; p++ ) if( isdigit((unsigned char)*p) ) sched[n++] = (unsigned char)(*p - '0');
            once(NULL, sched, n, &r);
        }
        fclose(sf);
    } else if( !strcmp(argv[1], "explore") ) {
        long n;
        vs_install();
        n = vs_explore(once, NULL, atol(argv[3]));
        fprintf(meta, "{\"explored\":%ld,\"exhaustive\":%s}\n", n < 0 ? -n : n, n < 0 ? "false" : "true");
    } else if( !strcmp(argv[1], "random") ) {
        long runs = atol(argv[3]), k;
        uint64_t x = 0x9E3779B97F4A7C15ULL ^ (uint64_t)(argc > 6 ? atol(argv[6]) : 1);
        static vs_run_t r;
        vs_install();
        for( k = 0; k < runs; k++ ) {
            static unsigned char sched[VS_MAXSTEPS]; int n = 0;
            while( n < 800 ) {
                int t, b;
                x ^= x << 13; x ^= x >> 7; x ^= x << 17;
                t = (int)((x >> 20) % (uint64_t)nthreads);
                b = 1 + (int)((x >> 40) % 6);
                if( (x >> 60) & 1 ) b = 1;
                while( b-- > 0 && n < 800 ) sched[n++] = (unsigned char)t;
            }
            once(NULL, sched, n, &r);
        }
    } else if( !strcmp(argv[1], "stress") ) {
        long runs = atol(argv[3]), k; int t;
        controlled = 0;
        for( k = 0; k < runs; k++ ) {
            pthread_t th[MAXT];
            setup();
            for( t = 0; t < nthreads; t++ ) pthread_create(&th[t], NULL, stress_thread, (void*)(intptr_t)t);
            for( t = 0; t < nthreads; t++ ) pthread_join(th[t], NULL);
            wrapup();
            finish_execution(NULL);
        }
    } else if( !strcmp(argv[1], "burst") ) {
        pthread_t th[MAXT]; int t;
        struct timespec t0, t1;
        if( K_COUNT != kind || nthreads < 2 || count < 1 ) die("burst: countable futures, at least 2 threads");
        brounds = atol(argv[3]);
        if( argc > 6 ) bnf = atoi(argv[6]);
        if( bnf < 1 || bnf > BMAXF ) die("burst: futures per round out of range");
        controlled = 0;
        vals[1] = 1;
        bcap = 4 * bnf + 16;
        for( t = 0; t <= nthreads; t++ ) bevs[t] = (bev_t*)calloc((size_t)bcap, sizeof(bev_t));
        clock_gettime(CLOCK_MONOTONIC, &t0);
        bdeadline = t0.tv_sec + 1e-9 * t0.tv_nsec + (argc > 7 ? atof(argv[7]) : 60.0);   /* budget guard, not a verdict */
        for( t = 0; t < nthreads; t++ ) pthread_create(&th[t], NULL, burst_thread, (void*)(intptr_t)t);
        for( t = 0; t < nthreads; t++ ) pthread_join(th[t], NULL);
        clock_gettime(CLOCK_MONOTONIC, &t1);
        if( boverflow ) { vt_reset_marker(); vt_raw("{\"e\":\"Overflow\"}"); }
        fprintf(meta, "{\"rounds\":%ld,\"futures\":%ld,\"distinct\":%ld,\"callbacks\":%ld,\"threads\":%d,\"count\":%d,\"ms\":%ld}\n",
                bdone, bhist, bdistinct, bcbs, nthreads, count,
                (long)((t1.tv_sec - t0.tv_sec) * 1000 + (t1.tv_nsec - t0.tv_nsec) / 1000000));
    } else die("bad mode");
    fclose(meta);
    vt_close();
    return 0;
}
