/* C19 harness: builds the matrix datatypes of parsec/data_dist/matrix/matrixtypes.c for every case of the
 * parameter box enumerated by TLC (spec/Dist/MatrixTypes.tla) and observes, with MPI_Pack on a marker buffer
 * (element i holds the value i), which elements each type selects and in which order; logs one record per type
 * (validated by spec/Dist/MatrixTypesTrace.tla).
 *   mt_replay <cases.txt> <trace.ndjson>
 * cases.txt: one case per line:  "<uplo:full|upper|lower> <diag> <m> <n> <ld>"
 * For every case the type is built through parsec_matrix_define_datatype with int and double elements, with and
 * without an explicit resize; through the direct entry points parsec_matrix_define_rectangle / _contiguous /
 * _triangle; and (square tiles, ld = m) through the arena shorthands parsec_matrix_adt_define_*.
 */
#include "parsec/parsec_config.h"
#include "parsec/runtime.h"
#include "parsec/datatype.h"
#include "parsec/arena.h"
#include "parsec/data_dist/matrix/matrix.h"
#include <mpi.h>
#include <stdio.h>
#include <stdlib.h>
#include <string.h>

static FILE *out;
static long nrec = 0;

/* pack one instance of `t` out of the marker buffer and log what came out */
static void observe(const char *api, const char *uplo, int diag, int m, int n, int ld, int rs, int is_double, int rc,
                    parsec_datatype_t t)
{
    int sz = is_double ? (int)sizeof(double) : (int)sizeof(int);
    MPI_Datatype elt = is_double ? MPI_DOUBLE : MPI_INT;
    if( nrec++ ) fprintf(out, "{\"e\":\"Reset\"}\n");
    fprintf(out, "{\"e\":\"type\",\"api\":\"%s\",\"uplo\":\"%s\",\"diag\":%d,\"m\":%d,\"n\":%d,\"ld\":%d,\"rs\":%d,\"sz\":%d,\"rc\":%d",
            api, uplo, diag, m, n, ld, rs, sz, rc);
    if( 0 != rc || MPI_DATATYPE_NULL == t ) {
        fprintf(out, ",\"lb\":0,\"ext\":0,\"size\":0,\"sel\":[]}\n");
        fflush(out);
        return;
    }
    MPI_Aint lb = 0, ext = 0;
    int tsize = 0, i, pos = 0, nsel;
    MPI_Type_get_extent(t, &lb, &ext);
    MPI_Type_size(t, &tsize);
    /* marker buffer: generously larger than the tile so that a type reaching outside still reads markers */
    long nelem = (long)ld * (n + 4) + 4L * m + 64;
    if( (long)(lb + ext) / sz + 64 > nelem && (lb + ext) / sz < (1 << 20) ) nelem = (long)(lb + ext) / sz + 64;
    int ok_to_pack = (tsize >= 0) && (tsize <= (int)(nelem * sz)) && (lb >= 0);
    fprintf(out, ",\"lb\":%ld,\"ext\":%ld,\"size\":%d,\"sel\":[", (long)lb, (long)ext, tsize);
    if( ok_to_pack ) {
        void *buf = malloc((size_t)nelem * sz), *pk = malloc((size_t)tsize + 64);
        if( is_double ) for( i = 0; i < nelem; i++ ) ((double*)buf)[i] = (double)i;
        else            for( i = 0; i < nelem; i++ ) ((int*)buf)[i] = i;
        if( MPI_SUCCESS == MPI_Pack(buf, 1, t, pk, tsize + 64, &pos, MPI_COMM_WORLD) ) {
            /* the packed representation of a homogeneous process is the concatenation of the selected elements;
             * unpack it as plain elements to stay independent of the pack format */
            int p2 = 0;
            nsel = pos / sz;
            void *flat = malloc((size_t)(nsel + 1) * sz);
            MPI_Unpack(pk, pos, &p2, flat, nsel, elt, MPI_COMM_WORLD);
            for( i = 0; i < nsel; i++ )
                fprintf(out, "%s%ld", i ? "," : "", is_double ? (long)((double*)flat)[i] : (long)((int*)flat)[i]);
            free(flat);
        } else {
            fprintf(out, "-1");
        }
        free(buf); free(pk);
    } else {
        fprintf(out, "-2");
    }
    fprintf(out, "]}\n");
    fflush(out);
}

static parsec_matrix_uplo_t uplo_of(const char *s)
{
    return !strcmp(s, "upper") ? PARSEC_MATRIX_UPPER : (!strcmp(s, "lower") ? PARSEC_MATRIX_LOWER : PARSEC_MATRIX_FULL);
}

int main(int argc, char **argv)
{
    int prov;
    char line[256];
    FILE *in;
    MPI_Init_thread(&argc, &argv, MPI_THREAD_SERIALIZED, &prov);
    /* a wrong count / block length must come back as an error code (logged as rc), not abort the run */
    MPI_Comm_set_errhandler(MPI_COMM_WORLD, MPI_ERRORS_RETURN);
    MPI_Comm_set_errhandler(MPI_COMM_SELF, MPI_ERRORS_RETURN);
    if( argc < 3 ) return 3;
    in = fopen(argv[1], "r"); out = fopen(argv[2], "w");
    if( !in || !out ) return 3;
    while( fgets(line, sizeof(line), in) ) {
        char us[16]; int diag, m, n, ld, dbl, k;
        if( sscanf(line, "%15s %d %d %d %d", us, &diag, &m, &n, &ld) != 5 ) continue;
        parsec_matrix_uplo_t uplo = uplo_of(us);
        int full = (PARSEC_MATRIX_FULL == uplo);
        for( dbl = 0; dbl < 2; dbl++ ) {
            parsec_datatype_t old = dbl ? parsec_datatype_double_t : parsec_datatype_int_t;
            /* the generic entry point, without and with explicit resize (tile-sized and padded) */
            int rss[3] = { -1, ld * n, ld * n + 3 };
            for( k = 0; k < 3; k++ ) {
                parsec_datatype_t t = PARSEC_DATATYPE_NULL; ptrdiff_t ext = -1;
                int rc = parsec_matrix_define_datatype(&t, old, uplo, diag, m, n, ld, rss[k], &ext);
                if( 0 == rc && PARSEC_DATATYPE_NULL != t ) {
                    /* the extent handed back to the caller must be the extent of the type */
                    MPI_Aint lb, e2; MPI_Type_get_extent(t, &lb, &e2);
                    if( (ptrdiff_t)e2 != ext ) rc = -1000;
                }
                observe("datatype", us, diag, m, n, ld, rss[k], dbl, rc, t);
                if( PARSEC_DATATYPE_NULL != t ) parsec_type_free(&t);
                if( dbl ) break;   /* resize variants with one element type only */
            }
        }
        {   /* the direct entry points */
            parsec_datatype_t t = PARSEC_DATATYPE_NULL; int rc;
            if( full ) {
                rc = parsec_matrix_define_rectangle(parsec_datatype_int_t, m, n, ld, -1, &t);
                observe("rectangle", us, diag, m, n, ld, -1, 0, rc, t);
                if( PARSEC_DATATYPE_NULL != t ) parsec_type_free(&t);
                if( m == ld ) {
                    t = PARSEC_DATATYPE_NULL;
                    rc = parsec_matrix_define_contiguous(parsec_datatype_int_t, ld * n, -1, &t);
                    observe("contiguous", us, diag, m, n, ld, -1, 0, rc, t);
                    if( PARSEC_DATATYPE_NULL != t ) parsec_type_free(&t);
                }
            } else {
                rc = parsec_matrix_define_triangle(parsec_datatype_int_t, uplo, diag, m, n, ld, &t);
                observe("triangle", us, diag, m, n, ld, -1, 0, rc, t);
                if( PARSEC_DATATYPE_NULL != t ) parsec_type_free(&t);
            }
        }
        if( m == n && m == ld ) {   /* arena shorthands (square tiles) */
            parsec_arena_datatype_t adt;
            int rc;
            PARSEC_OBJ_CONSTRUCT(&adt, parsec_arena_datatype_t);
            if( full ) rc = parsec_matrix_adt_define_square(&adt, parsec_datatype_int_t, m);
            else if( PARSEC_MATRIX_UPPER == uplo ) rc = parsec_matrix_adt_define_upper(&adt, parsec_datatype_int_t, diag, m);
            else rc = parsec_matrix_adt_define_lower(&adt, parsec_datatype_int_t, diag, m);
            observe("adt", us, diag, m, n, ld, -1, 0, rc, adt.opaque_dtt);
            if( 0 == rc ) parsec_matrix_arena_datatype_destruct_free_type(&adt);
        }
    }
    fclose(out);
    MPI_Finalize();
    return 0;
}
