"""Generate /verif/MANIFEST.json from the META dictionaries of checks/C*.py."""
import glob
import importlib
import json
import os
import subprocess
import sys

VERIF = os.path.dirname(os.path.dirname(os.path.abspath(__file__)))

NOT_APPLICABLE = [
    {"property_id": "C24",
     "reason": "relates arbitrary JDF text to the success of a C compiler on generated text and to byte-identical "
               "regeneration: there is no state, history or ordering for a TLA+ specification to constrain; a model of "
               "the grammar would only restate the parser (grammar fuzzing is the right family, not this one); see DESIGN.md 5"},
    {"property_id": "C43",
     "reason": "device_gpu.c / transfer_gpu.c are not compiled in this sandbox (no CUDA/HIP/Level-Zero toolkit, no "
               "accelerator), so no behaviour of the code can be replayed or traced against a specification; the compiled "
               "part of the protocol (data.c ownership transfer) is covered by C26; see DESIGN.md 5"},
]


def hook_commits():
    try:
        out = subprocess.run(["git", "-C", "/repo", "log", "--format=%H %s"], stdout=subprocess.PIPE).stdout.decode()
    except Exception:
        return []
    return [l.split()[0] for l in out.splitlines() if " verif hook" in l]


def build():
    sys.path.insert(0, VERIF)
    checks = []
    claimed = set()
    # checks/ENABLED.txt (optional): whitespace-separated ids of the checks that are registered; a check file
    # that exists but is not listed is still under construction and is not claimed
    en = os.path.join(VERIF, "checks", "ENABLED.txt")
    enabled = set(open(en).read().split()) if os.path.exists(en) else None
    for p in sorted(glob.glob(os.path.join(VERIF, "checks", "C*.py"))):
        pid = os.path.basename(p)[:-3]
        mod = importlib.import_module("checks.%s" % pid)
        m = mod.META
        if m.get("disabled") or (enabled is not None and pid not in enabled):
            continue
        claimed.add(pid)
        checks.append({
            "property_id": pid,
            "quick_cmd": "bin/verif check %s --tier quick" % pid,
            "thorough_cmd": "bin/verif check %s --tier thorough" % pid,
            "evidence_file": "/verif/evidence/%s.json" % pid,
            "replay_cmd_template": "bin/verif replay {path}",
            "engine": "tla-replay-validate",
            "level_claimed": {"category": m.get("level", "model_checking"), "text": m["text"],
                              "design_ref": m.get("design_ref", "DESIGN.md 4 " + pid)},
            "level_note": m["note"],
            "technique": m["technique"],
        })
    na = [x for x in NOT_APPLICABLE if x["property_id"] not in claimed]
    props = [json.loads(l)["id"] for l in open(os.path.join(VERIF, "properties.jsonl")) if l.strip()]
    listed = claimed | set(x["property_id"] for x in na)
    for pid in props:
        if pid not in listed:
            na.append({"property_id": pid,
                       "reason": "check not built yet in this round (design in DESIGN.md 4 %s); not claimed until its "
                                 "specification is bound to the code" % pid})
    return {
        "version": 1,
        "setup_cmd": "bin/verif setup",
        "hooks": {
            "guard": "PARSEC_VERIF",
            "enable": "out-of-tree build /verif/.build/hooked of /repo's working tree with -DCMAKE_C_FLAGS='-Wno-error "
                      "-DPARSEC_VERIF' (bin/verif setup; every check re-runs ninja there first)",
            "baseline_off_cmd": "cmake --build /repo/_build && ctest --test-dir /repo/_build -j8 --timeout 900",
            "source_commits": hook_commits(),
            "add_only": True,
        },
        "engines": [{
            "name": "tla-replay-validate", "path": "/verif/bin/verif",
            "serves_properties": sorted(claimed),
            "kind_free_text": "explicit TLA+ specifications under /verif/spec checked by TLC; bound to the C code by "
                              "(a) replaying TLC-generated behaviours/schedules into the real functions and (b) "
                              "validating ndjson traces recorded from the real code against *Trace.tla modules",
        }],
        "checks": checks,
        "not_applicable": na,
        "notes": "All checks rebuild /repo's working tree (hooked, out of tree) before running.  Exit 0 = held, 1 = "
                 "VIOLATION line, 2 = tool error (never a verdict).  Known findings: /verif/known_findings.json.",
    }


def write():
    m = build()
    with open(os.path.join(VERIF, "MANIFEST.json"), "w") as f:
        json.dump(m, f, indent=1)
        f.write("\n")
    print("MANIFEST.json: %d checks, %d not_applicable" % (len(m["checks"]), len(m["not_applicable"])))
