"""Trace validation: decide with TLC whether recorded executions are behaviours of a *Trace.tla spec.

Conventions (see DESIGN.md 1.3):
  * the trace module reads ndjson through  IOEnv.TRACE  (Json + IOUtils community modules),
    has a cursor variable l and EITHER the invariant  NotAccepted == l <= Len(TraceLog)
    ("Invariant NotAccepted is violated" == the whole trace was consumed == ACCEPTED; prints a
    counter-example as long as the trace, slow for long traces) OR, preferred, the invariant
      AcceptExit == (l > Len(TraceLog)) => (PrintT("VERIF-ACCEPTED") /\ TLCSet("exit", TRUE))
    which stops TLC without a counter-example (7 s instead of 230 s on a 287k-line trace).
  * any *other* violated invariant, or TLC finishing with "no error" (the cursor got stuck),
    == REJECTED.  Tool failures raise TLCError and are never verdicts.
  * executions are concatenated with {"e":"Reset"} lines (the trace module has a TReset action).
"""
import json
import os
import tempfile

from . import tlc

RESET = {"e": "Reset"}


class Verdict(object):
    def __init__(self, accepted, reason="", states=0, out=""):
        self.accepted = accepted
        self.reason = reason
        self.states = states
        self.out = out


def _write(events, path):
    with open(path, "w") as f:
        for ev in events:
            f.write(json.dumps(ev, separators=(",", ":")) + "\n")


def validate_file(spec_dir, module, cfg, path, timeout=600, dfs=True, heap="4g", env=None, workers=1):
    e = {"TRACE": path}
    if env:
        e.update(env)
    jvm = ["-Dtlc2.tool.queue.IStateQueue=StateDeque"] if dfs else []
    r = tlc.run(spec_dir, module, cfg, workers=workers, timeout=timeout, env=e, heap=heap, jvm=jvm)
    if r.violated == "NotAccepted" or (r.violated is None and '"VERIF-ACCEPTED"' in r.out):
        return Verdict(True, "accepted", r.generated, r.out), r
    if r.violated is not None:
        return Verdict(False, "invariant %s violated" % r.violated, r.generated, r.out), r
    return Verdict(False, "trace not explainable by the specification (cursor stuck)", r.generated, r.out), r


class Failure(object):
    def __init__(self, index, execution, prefix_len, reason):
        self.index = index
        self.execution = execution
        self.prefix_len = prefix_len      # number of events of the execution that are explainable
        self.reason = reason

    def describe(self):
        nxt = self.execution[self.prefix_len] if self.prefix_len < len(self.execution) else None
        return {"execution_index": self.index, "matched_prefix": self.prefix_len,
                "of": len(self.execution), "next_event": nxt, "reason": self.reason}


class BatchResult(object):
    def __init__(self):
        self.validated = 0
        self.failures = []
        self.states = 0
        self.transitions = 0
        self.tlc_runs = 0


def validate_executions(spec_dir, module, cfg, executions, batch=100, timeout=600, dfs=True,
                        scratch=None, confirm=True, env=None, heap="4g", max_failures=3):
    """Validate a list of executions (each a list of event dicts).  Returns BatchResult; failures carry the
    longest explainable prefix (found by binary search, each probe one TLC run)."""
    res = BatchResult()
    d = scratch or tlc._scratch("trace-")
    os.makedirs(d, exist_ok=True)

    def probe(evs, tag):
        p = os.path.join(d, "t-%s-%d.ndjson" % (tag, os.getpid()))
        _write(evs, p)
        v, r = validate_file(spec_dir, module, cfg, p, timeout=timeout, dfs=dfs, env=env, heap=heap)
        res.tlc_runs += 1
        res.states += r.distinct
        res.transitions += r.generated
        try:
            os.unlink(p)
        except OSError:
            pass
        return v

    def concat(idx):
        evs = []
        for k, i in enumerate(idx):
            if k:
                evs.append(RESET)
            evs.extend(executions[i])
        return evs

    def rec(idx):
        if not idx or len(res.failures) >= max_failures:
            return
        v = probe(concat(idx), "b")
        if v.accepted:
            return
        if len(idx) == 1:
            i = idx[0]
            ex = executions[i]
            if confirm:
                v2 = probe(ex, "c")
                if v2.accepted:      # not repeatable: tooling flake, do not report
                    return
                v = v2
            lo, hi = 0, len(ex)      # invariant: prefix lo accepted, prefix hi rejected
            while hi - lo > 1:
                mid = (lo + hi) // 2
                if probe(ex[:mid], "p").accepted:
                    lo = mid
                else:
                    hi = mid
            res.failures.append(Failure(i, ex, lo, v.reason))
            return
        h = len(idx) // 2
        rec(idx[:h])
        rec(idx[h:])

    n = len(executions)
    for s in range(0, n, batch):
        rec(list(range(s, min(n, s + batch))))
    res.validated = n
    if scratch is None:
        import shutil
        shutil.rmtree(d, ignore_errors=True)
    return res


def read_ndjson(path):
    out = []
    with open(path) as f:
        for line in f:
            line = line.strip()
            if not line:
                continue
            try:
                out.append(json.loads(line))
            except ValueError:
                out.append({"e": "Garbage", "raw": line[:200]})
    return out


def split_executions(events):
    """Split an event list on Reset markers."""
    exs, cur = [], []
    for ev in events:
        if ev.get("e") == "Reset":
            exs.append(cur)
            cur = []
        else:
            cur.append(ev)
    exs.append(cur)
    return exs


def dedupe(executions, strip=("s",)):
    """Many schedules yield the same history: keep one representative per distinct event sequence
    (fields in `strip`, e.g. the stamp, ignored).  Returns (distinct_executions, multiplicities)."""
    seen = {}
    out, mult = [], []
    for ex in executions:
        norm = [{k: v for k, v in ev.items() if k not in strip} for ev in ex]
        key = json.dumps(norm, sort_keys=True)
        if key in seen:
            mult[seen[key]] += 1
        else:
            seen[key] = len(out)
            out.append(norm)
            mult.append(1)
    return out, mult
