"""Thin driver around TLC: exhaustive checks, simulation with printed histories, state-graph dumps."""
import json
import os
import re
import shutil
import subprocess
import tempfile
import time

JAR_CP = "/opt/veriftools/tla/tla2tools.jar:/opt/veriftools/tla/CommunityModules-deps.jar"


class TLCError(Exception):
    """Tool failure (parse error, crash, timeout): never a property verdict."""


class TLCResult(object):
    def __init__(self):
        self.rc = None
        self.out = ""
        self.generated = 0
        self.distinct = 0
        self.depth = 0
        self.violated = None      # name of violated invariant / property, "deadlock", or None
        self.coverage = {}        # action name -> (taken, generated)  (when coverage requested)
        self.wall = 0.0
        self.printed = []         # raw lines printed by PrintT
        self.cmd = ""

    @property
    def ok(self):
        return self.rc == 0 and self.violated is None


_RE_STATES = re.compile(r"(\d+) states generated, (\d+) distinct states found")
_RE_DEPTH = re.compile(r"The depth of the complete state graph search is (\d+)")
_RE_INV = re.compile(r"Error: Invariant (\S+) is violated")
_RE_PROP = re.compile(r"Error: Temporal properties were violated|Error: Action property (\S+) is violated")
_RE_COV = re.compile(r"^<(\w+) line \d+, col \d+ to line \d+, col \d+ of module (\w+)>: (\d+):(\d+)", re.M)


def _scratch(prefix):
    base = os.environ.get("VERIF_SCRATCH") or os.path.join(
        os.path.dirname(os.path.dirname(os.path.abspath(__file__))), ".build", "run")
    os.makedirs(base, exist_ok=True)
    return tempfile.mkdtemp(prefix=prefix, dir=base)


def run(spec_dir, module, cfg=None, workers=8, timeout=900, args=(), env=None, heap="8g",
        coverage=False, jvm=(), keep_meta=False):
    """Run TLC on spec_dir/module.tla with cfg; returns TLCResult.  Raises TLCError on tool failures."""
    meta = _scratch("tlc-")
    cmd = ["timeout", str(int(timeout)), "java", "-XX:+UseParallelGC", "-Xmx" + heap] + list(jvm) + \
          ["-cp", JAR_CP, "tlc2.TLC", "-workers", str(workers), "-metadir", meta, "-noGenerateSpecTE"]
    if coverage:
        cmd += ["-coverage", "1"]
    if cfg:
        cmd += ["-config", cfg]
    cmd += list(args) + [module + ".tla"]
    e = dict(os.environ)
    if env:
        e.update(env)
    t0 = time.time()
    p = subprocess.run(cmd, cwd=spec_dir, stdout=subprocess.PIPE, stderr=subprocess.STDOUT, env=e)
    r = TLCResult()
    r.cmd = " ".join(cmd)
    r.wall = time.time() - t0
    r.rc = p.returncode
    r.out = p.stdout.decode(errors="replace")
    if not keep_meta:
        shutil.rmtree(meta, ignore_errors=True)
    else:
        r.meta = meta
    ms = _RE_STATES.findall(r.out)
    if ms:
        r.generated, r.distinct = int(ms[-1][0]), int(ms[-1][1])
    m = _RE_DEPTH.search(r.out)
    if m:
        r.depth = int(m.group(1))
    m = _RE_INV.search(r.out)
    if m:
        r.violated = m.group(1)
    elif _RE_PROP.search(r.out):
        m2 = _RE_PROP.search(r.out)
        r.violated = m2.group(1) or "temporal"
    elif "Error: Deadlock reached" in r.out:
        r.violated = "deadlock"
    for m in _RE_COV.finditer(r.out):
        name = m.group(1)
        tk, gen = int(m.group(3)), int(m.group(4))
        a = r.coverage.get(name, (0, 0))
        r.coverage[name] = (a[0] + tk, a[1] + gen)
    r.printed = [l for l in r.out.splitlines() if l.startswith("<<\"VH\"") or l.startswith("\"VH")]
    if r.rc == 124:
        raise TLCError("TLC timed out after %ss: %s" % (timeout, r.cmd))
    if r.rc not in (0, 10, 11, 12, 13):
        # 0 ok, 10 assumption failure, 11 deadlock, 12 safety, 13 liveness ; everything else is tooling
        raise TLCError("TLC failed rc=%s\n%s\n%s" % (r.rc, r.cmd, r.out[-3000:]))
    if r.rc == 10 or "Parsing or semantic analysis failed" in r.out:
        raise TLCError("TLC assumption/parse failure\n%s" % r.out[-3000:])
    return r


def check(spec_dir, module, cfg, must_cover=(), **kw):
    """Exhaustive check that must succeed; vacuity guard: every action in must_cover must be taken."""
    kw.setdefault("coverage", bool(must_cover))
    r = run(spec_dir, module, cfg, **kw)
    if not r.ok:
        return r
    for a in must_cover:
        if r.coverage.get(a, (0, 0))[0] == 0:
            raise TLCError("vacuity guard: action %s of %s never taken in %s" % (a, module, cfg))
    return r


def _parse_tla_string_list(line):
    """Lines printed by PrintT(<<"VH", ToJson(x)>>) look like  <<"VH", "json with \\" escapes">> ."""
    i = line.find(",")
    s = line[i + 1:].strip()
    if s.endswith(">>"):
        s = s[:-2].strip()
    # s is a TLA+ string literal: "...." with \" and \\ escapes
    if not (s.startswith('"') and s.endswith('"')):
        return None
    body = s[1:-1]
    body = body.replace('\\"', '"').replace("\\\\", "\\")
    try:
        return json.loads(body)
    except ValueError:
        return None


def histories(spec_dir, module, cfg, num, depth, seed=1, workers=4, timeout=600, extra=(), env=None):
    """Simulation mode; the spec prints PrintT(<<"VH", ToJson(h)>>) lines; returns the parsed list (deduplicated)."""
    per = max(1, num // max(1, workers))
    args = ["-simulate", "num=%d" % per, "-depth", str(depth), "-seed", str(seed)] + list(extra)
    r = run(spec_dir, module, cfg, workers=workers, timeout=timeout, args=args, env=env)
    out, seen = [], set()
    for l in r.printed:
        h = _parse_tla_string_list(l)
        if h is None:
            continue
        k = json.dumps(h, sort_keys=True)
        if k not in seen:
            seen.add(k)
            out.append(h)
    return out, r


_RE_NODE = re.compile(r'^(-?\d+) \[label="(.*)"(?:,style = filled)?\]', re.S)
_RE_NODE_ID = re.compile(r'^(-?\d+) \[label="')
_RE_EDGE = re.compile(r'^(-?\d+) -> (-?\d+) \[label="([^"]*)"')


class Graph(object):
    def __init__(self):
        self.init = []
        self.nodes = {}     # id -> dict var->tla text
        self.edges = {}     # id -> list of (label, dst)


def dump_graph(spec_dir, module, cfg, workers=1, timeout=600, env=None, coverage=False):
    """BFS with -dump dot,actionlabels; returns (Graph, TLCResult) (coverage=True: r.coverage is filled as in check())."""
    d = _scratch("dot-")
    dot = os.path.join(d, "g")
    try:
        r = run(spec_dir, module, cfg, workers=workers, timeout=timeout,
                args=["-dump", "dot,actionlabels", dot], env=env, coverage=coverage)
        g = Graph()
        with open(dot + ".dot") as f:
            txt = f.read()
        for stmt in txt.split("\n"):
            stmt = stmt.strip()
            m = _RE_EDGE.match(stmt)
            if m:
                a, b, lab = m.group(1), m.group(2), m.group(3)
                g.edges.setdefault(a, []).append((lab, b))
                continue
            m = _RE_NODE_ID.match(stmt)
            if m:
                nid = m.group(1)
                k = m.end()
                j = k
                while j < len(stmt) and not (stmt[j] == '"' and stmt[j - 1] != "\\"):
                    j += 1
                lab = stmt[k:j]
                g.nodes[nid] = lab.replace("\\n", "\n").replace('\\"', '"').replace("\\\\", "\\")
                if stmt[j:].startswith('",style = filled'):
                    g.init.append(nid)
        return g, r
    finally:
        shutil.rmtree(d, ignore_errors=True)


def parse_state_label(lab):
    """'/\\ a = 1\n/\\ b = <<>>' -> {'a': '1', 'b': '<<>>'} (values stay TLA+ text)."""
    out = {}
    cur = None
    for line in lab.split("\n"):
        m = re.match(r"^/\\ (\w+) = (.*)$", line)
        if m:
            cur = m.group(1)
            out[cur] = m.group(2)
        elif cur is not None:
            out[cur] += " " + line.strip()
        else:
            m = re.match(r"^(\w+) = (.*)$", line)
            if m:
                cur = m.group(1)
                out[cur] = m.group(2)
    return out


def transition_tests(g, max_tests=None, rng=None):
    """MongoDB-style: one test per transition = shortest path from an initial state to the edge's
    source, followed by the edge.  Returns list of label sequences."""
    from collections import deque
    pred = {}
    dq = deque()
    for i in g.init:
        pred[i] = None
        dq.append(i)
    while dq:
        u = dq.popleft()
        for lab, v in g.edges.get(u, ()):
            if v not in pred:
                pred[v] = (u, lab)
                dq.append(v)

    def path_to(u):
        p = []
        while pred[u] is not None:
            u, lab = pred[u]
            p.append(lab)
        p.reverse()
        return p
    tests = []
    cache = {}
    for u in g.edges:
        if u not in pred:
            continue
        if u not in cache:
            cache[u] = path_to(u)
        for lab, v in g.edges[u]:
            tests.append(cache[u] + [lab])
    if max_tests is not None and len(tests) > max_tests:
        import random
        r = rng or random.Random(1)
        tests = r.sample(tests, max_tests)
    return tests


def maximal_paths(g, limit=100000, rng=None):
    """All maximal paths of an acyclic graph as (label sequence, end node id), up to limit (beyond: `limit`
    random walks).  Returns (paths, total_number_of_paths, exhaustive)."""
    out = []
    import random
    r = rng or random.Random(1)

    def count_paths():
        memo = {}

        def c(u, depth=0):
            if u in memo:
                return memo[u]
            es = g.edges.get(u, ())
            es = [e for e in es if e[1] != u]
            if not es:
                memo[u] = 1
                return 1
            memo[u] = -1
            s = 0
            for lab, v in es:
                x = c(v)
                if x < 0:
                    raise ValueError("cyclic graph")
                s += x
                if s > 10 ** 12:
                    s = 10 ** 12
            memo[u] = s
            return s
        return sum(c(i) for i in g.init)
    import sys
    sys.setrecursionlimit(100000)
    total = count_paths()
    if total <= limit:
        def dfs(u, acc):
            es = [e for e in g.edges.get(u, ()) if e[1] != u]
            if not es:
                out.append((list(acc), u))
                return
            for lab, v in es:
                acc.append(lab)
                dfs(v, acc)
                acc.pop()
        for i in g.init:
            dfs(i, [])
        return out, total, True
    for _ in range(limit):
        u = r.choice(g.init)
        acc = []
        while True:
            es = [e for e in g.edges.get(u, ()) if e[1] != u]
            if not es:
                break
            lab, v = r.choice(es)
            acc.append(lab)
            u = v
        out.append((acc, u))
    return out, total, False
