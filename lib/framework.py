"""Check framework: context object handed to checks/Cxx.py:run(ctx), evidence writer, verdict printing."""
import importlib
import json
import os
import random
import shutil
import subprocess
import sys
import time
import traceback

from . import vbuild, tlc, tracecheck

VERIF = vbuild.VERIF
# where evidence/ and replays/ are written (redirect with VERIF_OUT when running against a mutated copy of /repo)
OUT = os.environ.get("VERIF_OUT", VERIF)


class Ctx(object):
    def __init__(self, pid, tier, seed):
        self.pid = pid
        self.tier = tier
        self.quick = tier == "quick"
        self.seed = seed
        self.rng = random.Random(seed)
        self.t0 = time.time()
        self.states = 0
        self.transitions = 0
        self.traces = 0
        self.evaluations = 0
        self.samples = []
        self.violations = []
        self.known_hits = []
        self.extra = {}
        self.assumptions = []
        self.models = []
        self.divergences = 0
        self.exhaustive = None
        self._scratch = None
        self._built = None
        self._findings = None

    # ---- paths / build -------------------------------------------------------------------
    @property
    def scratch(self):
        if self._scratch is None:
            base = os.path.join(vbuild.BUILD_ROOT, "run")
            os.makedirs(base, exist_ok=True)
            self._scratch = os.path.join(base, "%s-%d" % (self.pid, os.getpid()))
            shutil.rmtree(self._scratch, ignore_errors=True)
            os.makedirs(self._scratch)
            os.environ["VERIF_SCRATCH"] = self._scratch
        return self._scratch

    def build(self):
        if self._built is None:
            self._built = vbuild.ensure_build()
        return self._built

    def spec(self, sub):
        return sub if os.path.isabs(sub) else os.path.join(VERIF, "spec", sub)

    def stage(self, sub, name=None):
        """Copy a spec directory into the scratch dir (for generated MC_* modules); returns the copy."""
        from . import mcgen
        return mcgen.stage(self.spec(sub), os.path.join(self.scratch, "spec-" + (name or sub.replace("/", "_"))))

    def harness(self, name, sources, **kw):
        self.build()
        return vbuild.compile_harness(name, sources, **kw)

    # ---- model checking -------------------------------------------------------------------
    def tlc_check(self, sub, module, cfg, must_cover=(), expect_ok=True, **kw):
        """Exhaustive TLC run of the (fixed) specification.  A violation here is a *model* failure at
        check time (specs are fixed): raised as a tool error, never reported as a property violation."""
        self.scratch
        r = tlc.check(self.spec(sub), module, cfg, must_cover=must_cover, **kw)
        self.states += r.distinct
        self.transitions += r.generated
        self.models.append({"module": module, "cfg": cfg, "distinct": r.distinct, "generated": r.generated,
                            "depth": r.depth, "wall_s": round(r.wall, 1),
                            "coverage": {k: v[0] for k, v in r.coverage.items()} if r.coverage else None})
        if expect_ok and not r.ok:
            raise tlc.TLCError("specification %s/%s (%s) does not satisfy its own properties (%s); this is a model "
                               "failure, not a verdict about the code\n%s" % (sub, module, cfg, r.violated, r.out[-2500:]))
        return r

    def tlc_graph(self, sub, module, cfg, **kw):
        self.scratch
        g, r = tlc.dump_graph(self.spec(sub), module, cfg, **kw)
        self.states += r.distinct
        self.transitions += r.generated
        self.models.append({"module": module, "cfg": cfg, "distinct": r.distinct, "generated": r.generated,
                            "depth": r.depth, "wall_s": round(r.wall, 1), "graph": True})
        if not r.ok:
            raise tlc.TLCError("specification %s/%s (%s) violated %s while dumping its graph" % (sub, module, cfg, r.violated))
        g.result = r          # TLCResult of the run (r.coverage when called with coverage=True)
        return g

    def tlc_histories(self, sub, module, cfg, num, depth, **kw):
        self.scratch
        kw.setdefault("seed", self.seed)
        hs, r = tlc.histories(self.spec(sub), module, cfg, num, depth, **kw)
        self.models.append({"module": module, "cfg": cfg, "simulate": True, "histories": len(hs),
                            "generated": r.generated, "wall_s": round(r.wall, 1)})
        self.transitions += r.generated
        return hs

    def validate(self, sub, module, cfg, executions, **kw):
        """Trace validation of real executions; returns list of tracecheck.Failure."""
        self.scratch
        if not executions:
            return []
        br = tracecheck.validate_executions(self.spec(sub), module, cfg, executions, **kw)
        self.traces += br.validated
        self.states += br.states
        self.transitions += br.transitions
        self.extra["trace_tlc_runs"] = self.extra.get("trace_tlc_runs", 0) + br.tlc_runs
        return br.failures

    # ---- running the implementation --------------------------------------------------------
    def run_cmd(self, cmd, timeout=120, env=None, cwd=None, stdin=None):
        """Returns (rc, stdout, stderr); rc = 'timeout' on expiry; negative = signal."""
        e = vbuild.mpi_env(env)
        try:
            p = subprocess.run(cmd, stdout=subprocess.PIPE, stderr=subprocess.PIPE, timeout=timeout, env=e,
                               cwd=cwd or self.scratch, input=stdin)
            return p.returncode, p.stdout.decode(errors="replace"), p.stderr.decode(errors="replace")
        except subprocess.TimeoutExpired as ex:
            out = (ex.stdout or b"").decode(errors="replace")
            err = (ex.stderr or b"").decode(errors="replace")
            return "timeout", out, err

    # ---- verdicts --------------------------------------------------------------------------
    def findings(self):
        if self._findings is None:
            p = os.path.join(VERIF, "known_findings.json")
            self._findings = json.load(open(p)) if os.path.exists(p) else {"findings": [], "fixed": []}
        return self._findings

    def known_finding(self, key):
        """Return the open finding whose 'key' equals key for this property, else None."""
        for f in self.findings().get("findings", []):
            if f.get("property") == self.pid and f.get("key") == key:
                return f
        return None

    def violation(self, what, replay, key=None):
        """Record a property violation shown on the real code.  If `key` names an open known finding the
        violation is printed as KNOWN-FINDING instead."""
        if key is not None:
            f = self.known_finding(key)
            if f is not None:
                if key not in [k for k, _ in self.known_hits]:
                    self.known_hits.append((key, f.get("what", what)))
                return False
        os.makedirs(os.path.join(OUT, "replays"), exist_ok=True)
        path = os.path.join(OUT, "replays", "%s-%s-%d-%d.json" % (self.pid, self.tier, self.seed, len(self.violations)))
        with open(path, "w") as f:
            json.dump({"property": self.pid, "what": what, "tier": self.tier, "seed": self.seed, "replay": replay},
                      f, indent=1, default=str)
        self.violations.append((what, path))
        return True

    def sample(self, obj, limit=3):
        if len(self.samples) < limit:
            self.samples.append(obj)

    def assume(self, text):
        if text not in self.assumptions:
            self.assumptions.append(text)


def _write_evidence(ctx, meta, status):
    cov = {
        "states": int(ctx.states),
        "transitions": int(ctx.transitions),
        "traces_validated_against_impl": int(ctx.traces),
        "samples": ctx.samples if ctx.samples else ["(no sample recorded: %s)" % status],
        "evaluations": int(max(ctx.evaluations, ctx.traces)),
        "models": ctx.models,
        "divergences": ctx.divergences,
        "known_findings_hit": [k for k, _ in ctx.known_hits],
        "status": status,
    }
    if ctx.exhaustive is not None:
        cov["exhaustive"] = bool(ctx.exhaustive)
    cov.update(ctx.extra)
    ev = {
        "property_id": ctx.pid,
        "tier": ctx.tier,
        "seed": int(ctx.seed),
        "level": meta.get("level", "model_checking"),
        "coverage": cov,
        "assumptions": ctx.assumptions or meta.get("assumptions", []),
        "wall_s": round(time.time() - ctx.t0, 2),
        "violations": len(ctx.violations),
    }
    d = os.path.join(OUT, "evidence")
    os.makedirs(d, exist_ok=True)
    tmp = os.path.join(d, "%s.json.tmp" % ctx.pid)
    with open(tmp, "w") as f:
        json.dump(ev, f, indent=1, default=str)
    os.replace(tmp, os.path.join(d, "%s.json" % ctx.pid))


def load_check(pid):
    sys.path.insert(0, VERIF)
    return importlib.import_module("checks.%s" % pid)


def run_check(pid, tier, seed, replay=None):
    mod = load_check(pid)
    meta = mod.META
    ctx = Ctx(pid, tier, seed)
    status = "ok"
    rc = 0
    try:
        if replay is not None and hasattr(mod, "replay"):
            mod.replay(ctx, replay)
        else:
            mod.run(ctx)
    except (tlc.TLCError, vbuild.BuildError) as ex:
        status = "tool-error: %s" % (str(ex)[:1500])
        print("TOOL-ERROR property=%s %s" % (pid, str(ex)[:3000]))
        rc = 2
    except Exception:
        status = "tool-error: " + traceback.format_exc()[-1500:]
        print("TOOL-ERROR property=%s\n%s" % (pid, traceback.format_exc()))
        rc = 2
    for key, what in ctx.known_hits:
        print("KNOWN-FINDING: property=%s %s [%s]" % (pid, what, key))
    for what, path in ctx.violations:
        print("VIOLATION property=%s replay=%s" % (pid, path))
        print("  what: %s" % what)
    if ctx.violations:
        rc = 1
        status = "violation"
    _write_evidence(ctx, meta, status)
    print("%s %s tier=%s seed=%d states=%d transitions=%d traces=%d wall=%.1fs" % (
        pid, "PASS" if rc == 0 else ("FAIL" if rc == 1 else "ERROR"), tier, seed, ctx.states, ctx.transitions,
        ctx.traces, time.time() - ctx.t0))
    if ctx._scratch and not os.environ.get("VERIF_KEEP"):
        shutil.rmtree(ctx._scratch, ignore_errors=True)
    return rc
