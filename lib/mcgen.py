"""Generate MC_<name>.tla / .cfg instantiating a specification's constants with TLA+ expressions."""
import json
import os
import shutil


def tla(v):
    """Python value -> TLA+ expression (ints, strings, bools, lists -> tuples, sets -> sets, dict -> record)."""
    if isinstance(v, bool):
        return "TRUE" if v else "FALSE"
    if isinstance(v, int):
        return str(v)
    if isinstance(v, str):
        return json.dumps(v)
    if isinstance(v, (list, tuple)):
        return "<<" + ", ".join(tla(x) for x in v) + ">>"
    if isinstance(v, (set, frozenset)):
        return "{" + ", ".join(tla(x) for x in sorted(v, key=repr)) + "}"
    if isinstance(v, dict):
        if not v:
            return "<<>>"
        if all(isinstance(k, int) for k in v):     # function over ints
            return "(" + " @@ ".join("%d :> %s" % (k, tla(x)) for k, x in sorted(v.items())) + ")"
        return "[" + ", ".join("%s |-> %s" % (k, tla(x)) for k, x in v.items()) + "]"
    raise TypeError(v)


class Raw(str):
    """A TLA+ expression passed through verbatim."""


def stage(spec_dir, dest):
    """Copy the .tla/.cfg files of a spec dir into a scratch dir (generated MC modules are written there)."""
    os.makedirs(dest, exist_ok=True)
    for f in os.listdir(spec_dir):
        if f.endswith(".tla") or f.endswith(".cfg"):
            shutil.copy(os.path.join(spec_dir, f), os.path.join(dest, f))
    return dest


def write_mc(dest, name, extends, consts, spec="Spec", invariants=(), properties=(), constraints=(),
             deadlock=False, extra_defs="", view=None, plain_consts=None):
    """consts: name -> python value or Raw; written as  MC_<const> == expr  and  CONSTANT c <- MC_c."""
    mod = "MC_" + name
    lines = ["---- MODULE %s ----" % mod, "EXTENDS %s, TLC" % extends]
    cfg = ["SPECIFICATION %s" % spec, "CONSTANTS"]
    for k, v in consts.items():
        expr = v if isinstance(v, Raw) else tla(v)
        lines.append("MC_%s == %s" % (k, expr))
        cfg.append(" %s <- MC_%s" % (k, k))
    for k, v in (plain_consts or {}).items():
        cfg.append(" %s = %s" % (k, v))
    if extra_defs:
        lines.append(extra_defs)
    lines.append("====")
    if invariants:
        cfg.append("INVARIANTS " + " ".join(invariants))
    if properties:
        cfg.append("PROPERTIES " + " ".join(properties))
    if constraints:
        cfg.append("CONSTRAINTS " + " ".join(constraints))
    if view:
        cfg.append("VIEW " + view)
    cfg.append("CHECK_DEADLOCK %s" % ("TRUE" if deadlock else "FALSE"))
    with open(os.path.join(dest, mod + ".tla"), "w") as f:
        f.write("\n".join(lines) + "\n")
    with open(os.path.join(dest, mod + ".cfg"), "w") as f:
        f.write("\n".join(cfg) + "\n")
    return mod, mod + ".cfg"
