"""Hooked out-of-tree build of /repo and harness compilation.

Every check calls ensure_build() first, so that it always tests /repo's current
working tree (ninja is incremental: < 2 s when nothing changed).  The build is
serialised by an flock so that concurrent checks do not race.
"""
import fcntl
import hashlib
import os
import subprocess
import sys
import time

VERIF = os.path.dirname(os.path.dirname(os.path.abspath(__file__)))
REPO = os.environ.get("VERIF_REPO", "/repo")
BUILD_ROOT = os.environ.get("VERIF_BUILD_ROOT", os.path.join(VERIF, ".build"))
HOOKED = os.path.join(BUILD_ROOT, "hooked")
PROF = os.path.join(BUILD_ROOT, "prof")
HBIN = os.path.join(BUILD_ROOT, "harness")
MPI_INC = "/usr/lib/x86_64-linux-gnu/openmpi/include"

CMAKE_COMMON = [
    "-G", "Ninja", "-DCMAKE_BUILD_TYPE=RelWithDebInfo", "-DBUILD_TESTING=OFF",
    "-DPARSEC_GPU_WITH_CUDA=OFF", "-DPARSEC_GPU_WITH_HIP=OFF", "-DPARSEC_GPU_WITH_LEVEL_ZERO=OFF",
]


class BuildError(Exception):
    pass


def _run(cmd, log, cwd=None, timeout=1800):
    with open(log, "ab") as f:
        f.write(("\n$ " + " ".join(cmd) + "\n").encode())
        f.flush()
        p = subprocess.run(cmd, stdout=f, stderr=subprocess.STDOUT, cwd=cwd, timeout=timeout)
    return p.returncode


def _ensure_tree(tree, cflags, extra_cmake=()):
    os.makedirs(BUILD_ROOT, exist_ok=True)
    lockf = open(tree + ".lock", "w")
    fcntl.flock(lockf, fcntl.LOCK_EX)
    try:
        log = tree + ".log"
        if os.path.exists(log) and os.path.getsize(log) > 4 << 20:
            os.unlink(log)
        stamp = os.path.join(tree, "build.ninja")
        cache = os.path.join(tree, "CMakeCache.txt")
        if os.path.exists(cache):
            # a tree configured for another source dir (fresh restore elsewhere) is discarded
            with open(cache) as f:
                txt = f.read()
            if ("CMAKE_HOME_DIRECTORY:INTERNAL=%s\n" % REPO) not in txt:
                subprocess.run(["rm", "-rf", tree])
        if not os.path.exists(stamp):
            cmd = ["cmake", "-S", REPO, "-B", tree] + CMAKE_COMMON + \
                  ["-DCMAKE_C_FLAGS=" + cflags] + list(extra_cmake)
            if _run(cmd, log) != 0:
                raise BuildError("cmake configure failed, see " + log)
        rc = _run(["ninja", "-C", tree], log)
        if rc != 0:
            raise BuildError("ninja failed (the working tree of %s does not build with hooks on), see %s" % (REPO, log))
    finally:
        fcntl.flock(lockf, fcntl.LOCK_UN)
        lockf.close()
    return tree


def ensure_build():
    """(Re)build /repo's working tree with -DPARSEC_VERIF; returns the build dir."""
    return _ensure_tree(HOOKED, "-Wno-error -DPARSEC_VERIF")


def ensure_prof_build():
    return _ensure_tree(PROF, "-Wno-error -DPARSEC_VERIF", ["-DPARSEC_PROF_TRACE=ON"])


def lib_so(tree=None):
    return os.path.join(tree or HOOKED, "parsec", "libparsec.so")


def ptgpp(tree=None):
    return os.path.join(tree or HOOKED, "parsec", "interfaces", "ptg", "ptg-compiler", "parsec-ptgpp")


def cflags(tree=None):
    t = tree or HOOKED
    return ["-DBUILDING_PARSEC", "-DPARSEC_VERIF", "-g", "-O1", "-mcx16", "-D_GNU_SOURCE", "-Wno-unused-result",
            "-I" + REPO, "-I" + os.path.join(REPO, "parsec", "include"),
            "-I" + t, "-I" + os.path.join(t, "parsec", "include"),
            "-I" + MPI_INC, "-I" + os.path.join(VERIF, "harness", "common")]


def ldflags(tree=None):
    t = tree or HOOKED
    return ["-L" + os.path.join(t, "parsec"), "-lparsec", "-Wl,-rpath," + os.path.join(t, "parsec"),
            "-lmpi", "-lpthread", "-lm"]


def _newest_mtime(paths):
    m = 0.0
    for p in paths:
        try:
            m = max(m, os.path.getmtime(p))
        except OSError:
            pass
    return m


def compile_harness(name, sources, extra_cflags=(), extra_ldflags=(), tree=None, deps=(), link_parsec=True):
    """Compile a C harness against the hooked tree.  Always recompiles when libparsec.so,
    any source, or any file in deps is newer than the binary.  Because harnesses include
    /repo's static-inline headers, the binary is also keyed by a hash of `git diff` state:
    cheap and safe is to recompile whenever libparsec.so changed *or* any /repo header is
    newer, which we approximate by recompiling when the newest mtime under the include
    dirs used is newer than the binary."""
    t = tree or HOOKED
    os.makedirs(HBIN, exist_ok=True)
    out = os.path.join(HBIN, name)
    srcs = [s if os.path.isabs(s) else os.path.join(VERIF, s) for s in sources]
    common = [os.path.join(VERIF, "harness", "common", f)
              for f in os.listdir(os.path.join(VERIF, "harness", "common"))]
    watch = srcs + common + list(deps) + [lib_so(t)]
    hdr_m = _headers_mtime()
    need = (not os.path.exists(out)) or os.path.getmtime(out) < max(_newest_mtime(watch), hdr_m)
    if need:
        tmp = out + ".tmp.%d" % os.getpid()
        cmd = ["cc"] + cflags(t) + list(extra_cflags) + srcs + ["-o", tmp] + \
              (ldflags(t) if link_parsec else ["-lpthread", "-lm"]) + list(extra_ldflags)
        p = subprocess.run(cmd, stdout=subprocess.PIPE, stderr=subprocess.STDOUT, timeout=600)
        if p.returncode != 0:
            try:
                os.unlink(tmp)
            except OSError:
                pass
            raise BuildError("harness %s failed to compile:\n%s" % (name, p.stdout.decode(errors="replace")[-4000:]))
        os.replace(tmp, out)
    return out


_hdr_cache = [None, 0.0]


def _headers_mtime():
    """Newest mtime of any .h under /repo/parsec (static inline code is compiled into harnesses)."""
    now = time.time()
    if _hdr_cache[0] is not None and now - _hdr_cache[1] < 5:
        return _hdr_cache[0]
    m = 0.0
    for root, dirs, files in os.walk(os.path.join(REPO, "parsec")):
        for f in files:
            if f.endswith(".h"):
                try:
                    m = max(m, os.path.getmtime(os.path.join(root, f)))
                except OSError:
                    pass
    _hdr_cache[0], _hdr_cache[1] = m, now
    return m


def compile_jdf(jdf_path, outdir, name, ptgpp_flags=(), tree=None):
    """Run parsec-ptgpp on a .jdf -> <outdir>/<name>.c/.h; returns the .c path."""
    t = tree or HOOKED
    cmd = [ptgpp(t), "-E", "-i", jdf_path, "-o", name, "-f", name] + list(ptgpp_flags)
    p = subprocess.run(cmd, cwd=outdir, stdout=subprocess.PIPE, stderr=subprocess.STDOUT, timeout=120)
    if p.returncode != 0:
        raise BuildError("ptgpp failed on %s:\n%s" % (jdf_path, p.stdout.decode(errors="replace")[-3000:]))
    return os.path.join(outdir, name + ".c")


def mpi_env(extra=None):
    e = dict(os.environ)
    e.update({"OMPI_ALLOW_RUN_AS_ROOT": "1", "OMPI_ALLOW_RUN_AS_ROOT_CONFIRM": "1",
              "PARSEC_MCA_runtime_warn_slow_binding": "0",
              "OMPI_MCA_rmaps_base_oversubscribe": "1",
              "OMPI_MCA_btl_vader_single_copy_mechanism": "none"})
    if extra:
        e.update(extra)
    return e


def mpirun(n):
    return ["mpiexec", "--oversubscribe", "-n", str(n)]
