"""Generated PTG (JDF) programs for the C01 / C02 / C15 / C16 / C23 checks.

One small program AST (plain dicts == its JSON form, every node has a fixed set of fields so that TLC can read it
with JsonDeserialize), a printer AST -> .jdf text, a reference interpreter (used ONLY to filter the generator's
output for validity and to list the space for the key driver; the oracle of the checks is spec/PTG/JDFSem.tla),
and a seeded generator biased to "shape" programs (every range form x startup-capable or not).

AST
  prog  = {name, globals:{N,M,K}, ntiles, ts, classes:[cls]}
  cls   = {name, params:[str], locals:[local], aff:E, hasprio:0|1, prio:E, flows:[flow]}
  local = {name, kind:"range"|"def", lo:E, hi:E, st:E, e:E}      (range: lo..hi..st ; def: name = e)
  flow  = {name, mode:0 CTL|1 READ|2 WRITE|3 RW, deps:[dep]}
  dep   = {dir:"in"|"out", g:0 unconditional|1 guarded|2 ternary, guard:E, t:target, f:target}
  target= {kind:"task"|"data"|"new"|"null"|"none", cls:str, flow:str, args:[arg], idx:E}
  arg   = {kind:"e"|"range", e:E, lo:E, hi:E, st:E}
  E     = {op, a:[E], v:int, n:str}   op in cst var add sub mul div mod eq ne lt le gt ge and or not ite
Expressions have C semantics (/ truncates toward zero, % has the sign of the dividend).
"""
import copy
import json
import random

CTL, READ, WRITE, RW = 0, 1, 2, 3
MODE_NAME = {CTL: "CTL", READ: "READ", WRITE: "WRITE", RW: "RW"}
FMOD = 30011
PW = [17, 31, 43, 59, 61, 67, 71, 73]


# ------------------------------------------------------------------------------------------------ expressions
def C(v):
    return {"op": "cst", "a": [], "v": int(v), "n": ""}


def V(n):
    return {"op": "var", "a": [], "v": 0, "n": n}


def E(x):
    if isinstance(x, dict):
        return x
    if isinstance(x, str):
        return V(x)
    return C(x)


def op(o, *a):
    return {"op": o, "a": [E(x) for x in a], "v": 0, "n": ""}


def add(x, y): return op("add", x, y)
def sub(x, y): return op("sub", x, y)
def mul(x, y): return op("mul", x, y)
def div(x, y): return op("div", x, y)
def mod(x, y): return op("mod", x, y)
def eq(x, y): return op("eq", x, y)
def ne(x, y): return op("ne", x, y)
def lt(x, y): return op("lt", x, y)
def le(x, y): return op("le", x, y)
def gt(x, y): return op("gt", x, y)
def ge(x, y): return op("ge", x, y)
def land(x, y): return op("and", x, y)
def lor(x, y): return op("or", x, y)
def lnot(x): return op("not", x)
def ite(c, x, y): return op("ite", c, x, y)


def pmod(x, n):
    """((x % n) + n) % n : a non-negative index whatever the sign of x."""
    return mod(add(mod(x, n), n), n)


_BIN = {"add": "+", "sub": "-", "mul": "*", "div": "/", "mod": "%", "eq": "==", "ne": "!=", "lt": "<", "le": "<=",
        "gt": ">", "ge": ">=", "and": "&&", "or": "||"}


def pe(e):
    """expression -> JDF text (fully parenthesised; a negative constant stays a constant for the JDF parser)"""
    o = e["op"]
    if o == "cst":
        return str(e["v"]) if e["v"] >= 0 else "(-%d)" % (-e["v"])
    if o == "var":
        return e["n"]
    if o == "not":
        return "(!%s)" % pe(e["a"][0])
    if o == "ite":
        return "(%s ? %s : %s)" % (pe(e["a"][0]), pe(e["a"][1]), pe(e["a"][2]))
    return "(%s %s %s)" % (pe(e["a"][0]), _BIN[o], pe(e["a"][1]))


def cdiv(a, b):
    q = abs(a) // abs(b)
    return q if (a >= 0) == (b >= 0) else -q


def cmod(a, b):
    return a - b * cdiv(a, b)


def ev(e, env):
    o = e["op"]
    if o == "cst":
        return e["v"]
    if o == "var":
        return env[e["n"]]
    a = e["a"]
    if o == "ite":
        return ev(a[1], env) if ev(a[0], env) != 0 else ev(a[2], env)
    if o == "and":
        return 1 if (ev(a[0], env) != 0 and ev(a[1], env) != 0) else 0
    if o == "or":
        return 1 if (ev(a[0], env) != 0 or ev(a[1], env) != 0) else 0
    if o == "not":
        return 1 if ev(a[0], env) == 0 else 0
    x, y = ev(a[0], env), ev(a[1], env)
    if o == "add": return x + y
    if o == "sub": return x - y
    if o == "mul": return x * y
    if o == "div": return cdiv(x, y)
    if o == "mod": return cmod(x, y)
    if o == "eq": return int(x == y)
    if o == "ne": return int(x != y)
    if o == "lt": return int(x < y)
    if o == "le": return int(x <= y)
    if o == "gt": return int(x > y)
    if o == "ge": return int(x >= y)
    raise ValueError(o)


def range_vals(lo, hi, st):
    if st > 0:
        return list(range(lo, hi + 1, st))
    if st < 0:
        return list(range(lo, hi - 1, st))
    raise ValueError("zero step")


# ------------------------------------------------------------------------------------------------ AST builders
Z = C(0)


def L_range(name, lo, hi, st=1):
    return {"name": name, "kind": "range", "lo": E(lo), "hi": E(hi), "st": E(st), "e": Z}


def L_def(name, e):
    return {"name": name, "kind": "def", "lo": Z, "hi": Z, "st": Z, "e": E(e)}


def A_e(e):
    return {"kind": "e", "e": E(e), "lo": Z, "hi": Z, "st": Z}


def A_range(lo, hi, st=1):
    return {"kind": "range", "e": Z, "lo": E(lo), "hi": E(hi), "st": E(st)}


def T_none():
    return {"kind": "none", "cls": "", "flow": "", "args": [], "idx": Z}


def T_task(cls, flow, args):
    return {"kind": "task", "cls": cls, "flow": flow,
            "args": [a if (isinstance(a, dict) and "kind" in a) else A_e(a) for a in args], "idx": Z}


def T_data(idx):
    return {"kind": "data", "cls": "", "flow": "", "args": [], "idx": E(idx)}


def T_new():
    return {"kind": "new", "cls": "", "flow": "", "args": [], "idx": Z}


def T_null():
    return {"kind": "null", "cls": "", "flow": "", "args": [], "idx": Z}


def dep(direction, t, guard=None, f=None):
    g = 0 if guard is None else (1 if f is None else 2)
    return {"dir": direction, "g": g, "guard": E(guard) if guard is not None else C(1), "t": t,
            "f": f if f is not None else T_none()}


def din(t, guard=None, f=None): return dep("in", t, guard, f)
def dout(t, guard=None, f=None): return dep("out", t, guard, f)


def flow(name, mode, deps):
    return {"name": name, "mode": mode, "deps": list(deps)}


def cls(name, params, locs, aff, flows, prio=None):
    return {"name": name, "params": list(params), "locals": list(locs), "aff": E(aff),
            "hasprio": 0 if prio is None else 1, "prio": E(prio) if prio is not None else Z, "flows": list(flows)}


def program(classes, N=4, M=2, K=1, ntiles=8, ts=1, name="vp"):
    return {"name": name, "globals": {"N": N, "M": M, "K": K}, "ntiles": ntiles, "ts": ts, "classes": list(classes)}


# ------------------------------------------------------------------------------------------------ printer
def _target(t):
    k = t["kind"]
    if k == "task":
        args = []
        for a in t["args"]:
            if a["kind"] == "e":
                args.append(pe(a["e"]))
            else:
                args.append("%s .. %s .. %s" % (pe(a["lo"]), pe(a["hi"]), pe(a["st"])))
        return "%s %s( %s )" % (t["flow"], t["cls"], ", ".join(args))
    if k == "data":
        return "D( %s )" % pe(t["idx"])
    if k == "new":
        return "NEW"
    if k == "null":
        return "NULL"
    raise ValueError(k)


def _dep(d):
    arrow = "<-" if d["dir"] == "in" else "->"
    if d["g"] == 0:
        return "%s %s" % (arrow, _target(d["t"]))
    if d["g"] == 1:
        return "%s %s ? %s" % (arrow, pe(d["guard"]), _target(d["t"]))
    return "%s %s ? %s : %s" % (arrow, pe(d["guard"]), _target(d["t"]), _target(d["f"]))


def to_jdf(prog):
    """AST -> JDF text.  Bodies are test-owned: they only call vb_task() of harness/ptg/ptg_driver.c."""
    o = ['extern "C" %{', '#include "vp_body.h"', '%}', '',
         'D     [ type="parsec_data_collection_t*" ]',
         'N     [ type="int" ]', 'M     [ type="int" ]', 'K     [ type="int" ]', 'TPID  [ type="int" ]', '']
    for ci, c in enumerate(prog["classes"]):
        o.append("%s(%s)" % (c["name"], ", ".join(c["params"])))
        o.append("")
        for l in c["locals"]:
            if l["kind"] == "range":
                st = l["st"]
                if st["op"] == "cst" and st["v"] == 1:
                    o.append("  %s = %s .. %s" % (l["name"], pe(l["lo"]), pe(l["hi"])))
                else:
                    o.append("  %s = %s .. %s .. %s" % (l["name"], pe(l["lo"]), pe(l["hi"]), pe(st)))
            else:
                o.append("  %s = %s" % (l["name"], pe(l["e"])))
        o.append("")
        o.append("  : D( %s )" % pe(c["aff"]))
        o.append("")
        for f in c["flows"]:
            head = "  %-5s %s " % (MODE_NAME[f["mode"]], f["name"])
            pad = " " * len(head)
            first = True
            for d in f["deps"]:
                o.append((head if first else pad) + _dep(d))
                first = False
            if first:
                raise ValueError("flow %s of %s has no dependency" % (f["name"], c["name"]))
            o.append("")
        if c["hasprio"]:
            o.append("  ; %s" % pe(c["prio"]))
            o.append("")
        names = [l["name"] for l in c["locals"]]
        fl = c["flows"]
        o.append("BODY")
        o.append("{")
        o.append("    int vb_p[] = { %s };" % ", ".join(c["params"]))
        o.append("    int vb_l[] = { %s };" % ", ".join(names))
        o.append("    void *vb_f[] = { %s };" % ", ".join(("NULL" if f["mode"] == CTL else f["name"]) for f in fl))
        o.append("    static const int vb_m[] = { %s };" % ", ".join(str(f["mode"]) for f in fl))
        o.append("    if( vb_task(es, TPID, %d, %d, vb_p, %d, vb_l, %d, vb_f, vb_m) ) return PARSEC_HOOK_RETURN_AGAIN;"
                 % (ci, len(c["params"]), len(names), len(fl)))
        o.append("}")
        o.append("END")
        o.append("")
    nm = prog["name"]
    o += ['extern "C" %{',
          'parsec_taskpool_t *%s_make(parsec_data_collection_t *D, int N, int M, int K, int TPID, size_t tile_bytes, parsec_datatype_t dtt)' % nm,
          '{',
          '    parsec_%s_taskpool_t *tp = parsec_%s_new(D, N, M, K, TPID);' % (nm, nm),
          '    parsec_arena_datatype_set_type(&tp->arenas_datatypes[PARSEC_%s_DEFAULT_ADT_IDX], tile_bytes, PARSEC_ARENA_ALIGNMENT_SSE, dtt);' % nm,
          '    return &tp->super;',
          '}',
          'void %s_release(parsec_taskpool_t *tp)' % nm,
          '{',
          '    PARSEC_OBJ_DESTRUCT(&((parsec_%s_taskpool_t*)tp)->arenas_datatypes[PARSEC_%s_DEFAULT_ADT_IDX]);' % (nm, nm),
          '    parsec_taskpool_free(tp);',
          '}',
          '%}', '']
    return "\n".join(o)


def table_c(names):
    """C source of vp_table[] for the programs linked into one driver binary."""
    o = ['#include "vp_body.h"']
    for n in names:
        o.append("extern parsec_taskpool_t *%s_make(parsec_data_collection_t*, int, int, int, int, size_t, parsec_datatype_t);" % n)
        o.append("extern void %s_release(parsec_taskpool_t*);" % n)
    o.append("const vp_entry_t vp_table[] = {")
    for n in names:
        o.append('  { "%s", %s_make, %s_release },' % (n, n, n))
    o.append("  { NULL, NULL, NULL } };")
    return "\n".join(o) + "\n"


def to_json(prog):
    return json.dumps(prog, separators=(",", ":"))


# ------------------------------------------------------------------------------------------------ interpreter
class Invalid(Exception):
    pass


class Interp(object):
    """Reference interpretation of a program (space, dependencies, values).  Generator-side only."""

    def __init__(self, prog, max_tasks=400):
        self.prog = prog
        self.g = dict(prog["globals"])
        self.cidx = {c["name"]: i for i, c in enumerate(prog["classes"])}
        self.space = {}      # (ci, ptuple) -> env (dict incl. globals)
        self.order = []      # tasks in class order / loop order
        for ci, c in enumerate(prog["classes"]):
            for env in self._envs(c, 0, dict(self.g)):
                p = tuple(env[n] for n in c["params"])
                if (ci, p) in self.space:
                    raise Invalid("two instances of %s with parameters %s" % (c["name"], p))
                self.space[(ci, p)] = env
                self.order.append((ci, p))
                if len(self.order) > max_tasks:
                    raise Invalid("too many tasks")

    def _envs(self, c, i, env):
        if i == len(c["locals"]):
            yield env
            return
        l = c["locals"][i]
        if l["kind"] == "range":
            st = ev(l["st"], env)
            if st == 0:
                raise Invalid("zero step")
            for v in range_vals(ev(l["lo"], env), ev(l["hi"], env), st):
                e2 = dict(env)
                e2[l["name"]] = v
                for x in self._envs(c, i + 1, e2):
                    yield x
        else:
            e2 = dict(env)
            e2[l["name"]] = ev(l["e"], env)
            for x in self._envs(c, i + 1, e2):
                yield x

    def locals_of(self, t):
        c = self.prog["classes"][t[0]]
        env = self.space[t]
        return [env[l["name"]] for l in c["locals"]]

    def _expand(self, tgt, env):
        """target -> list of concrete endpoints: ('task',(ci,p),flowname) | ('data',i) | ('new',) | ('null',)"""
        k = tgt["kind"]
        if k == "data":
            return [("data", ev(tgt["idx"], env))]
        if k in ("new", "null"):
            return [(k,)]
        if k == "none":
            return []
        ci = self.cidx[tgt["cls"]]
        lists = []
        for a in tgt["args"]:
            if a["kind"] == "e":
                lists.append([ev(a["e"], env)])
            else:
                st = ev(a["st"], env)
                if st == 0:
                    raise Invalid("zero step in dependency")
                lists.append(range_vals(ev(a["lo"], env), ev(a["hi"], env), st))
        out = [()]
        for l in lists:
            out = [x + (v,) for x in out for v in l]
        return [("task", (ci, p), tgt["flow"]) for p in out]

    def active(self, t, f, direction):
        """endpoints of the active dependencies of flow f (dict) of task t in one direction.
        Data inputs: the first dependency whose guard holds decides; CTL inputs and all outputs: every
        dependency whose guard holds contributes."""
        env = self.space[t]
        res = []
        for d in f["deps"]:
            if d["dir"] != direction:
                continue
            if d["g"] == 0:
                eps = self._expand(d["t"], env)
            elif d["g"] == 1:
                if ev(d["guard"], env) == 0:
                    continue
                eps = self._expand(d["t"], env)
            else:
                eps = self._expand(d["t"] if ev(d["guard"], env) != 0 else d["f"], env)
            res.extend(eps)
            if direction == "in" and f["mode"] != CTL:
                break
        return res

    def flow_of(self, ci, name):
        for f in self.prog["classes"][ci]["flows"]:
            if f["name"] == name:
                return f
        raise Invalid("no flow %s" % name)

    def check(self):
        """Validity of the program (raises Invalid).  Returns a dict with the sequential result."""
        prog = self.prog
        nt = prog["ntiles"]
        ins, outs = {}, {}
        for t in self.order:
            c = prog["classes"][t[0]]
            env = self.space[t]
            aff = ev(c["aff"], env)
            if not (0 <= aff < nt):
                raise Invalid("affinity out of range")
            for f in c["flows"]:
                i = self.active(t, f, "in")
                o = self.active(t, f, "out")
                ins[(t, f["name"])] = i
                outs[(t, f["name"])] = o
                for ep in i + o:
                    if ep[0] == "data" and not (0 <= ep[1] < nt):
                        raise Invalid("tile index out of range")
                    if ep[0] == "task" and ep[1] not in self.space:
                        raise Invalid("dependency names %s outside the space" % (ep[1],))
                if f["mode"] == CTL:
                    if any(ep[0] != "task" for ep in i + o):
                        raise Invalid("CTL flow with data endpoint")
                    if len([d for d in f["deps"] if d["dir"] == "in"]) > 1:
                        raise Invalid("CTL flow with several input dependencies")
                elif f["mode"] in (READ, RW):
                    if len(i) != 1:
                        raise Invalid("data flow without exactly one active input")
                    if i[0][0] == "null":
                        raise Invalid("NULL input")
                    if f["mode"] == READ and i[0][0] == "new":
                        raise Invalid("READ from NEW")
                else:
                    if len(i) != 1 or i[0][0] != "new":
                        raise Invalid("WRITE flow must start from NEW")
                if f["mode"] == READ and any(ep[0] == "data" for ep in o):
                    pass    # forwarding a READ flow to memory is legal (no-op when same tile)
                if len(set(o)) != len(o):
                    raise Invalid("duplicate output endpoint")
        # symmetry
        for (t, fn), eps in ins.items():
            for ep in eps:
                if ep[0] == "task":
                    if ("task", t, fn) not in outs.get((ep[1], ep[2]), []):
                        raise Invalid("input %s:%s <- %s:%s has no matching output" % (t, fn, ep[1], ep[2]))
                    sm = self.flow_of(ep[1][0], ep[2])["mode"]
                    dm = self.flow_of(t[0], fn)["mode"]
                    if (sm == CTL) != (dm == CTL):
                        raise Invalid("CTL/data mismatch")
        for (t, fn), eps in outs.items():
            for ep in eps:
                if ep[0] == "task":
                    if ("task", t, fn) not in ins.get((ep[1], ep[2]), []):
                        raise Invalid("output %s:%s -> %s:%s has no matching input" % (t, fn, ep[1], ep[2]))
        # startup rule of the PTG compiler: an instance without task predecessor must be recognisable as such
        preds = {t: set() for t in self.order}
        for (t, fn), eps in ins.items():
            for ep in eps:
                if ep[0] == "task":
                    preds[t].add(ep[1])
        for t in self.order:
            c = prog["classes"][t[0]]
            env = self.space[t]
            if preds[t]:
                continue
            for f in c["flows"]:
                if f["mode"] == CTL:
                    for d in f["deps"]:
                        if d["dir"] == "in" and (d["g"] != 1 or ev(d["guard"], env) != 0):
                            raise Invalid("instance without predecessor is not a startup task for the compiler")
        # topological order (Kahn, deterministic)
        succs = {t: set() for t in self.order}
        for t, ps in preds.items():
            for p in ps:
                succs[p].add(t)
        indeg = {t: len(preds[t]) for t in self.order}
        ready = [t for t in self.order if indeg[t] == 0]
        topo = []
        while ready:
            t = ready.pop(0)
            topo.append(t)
            for s in sorted(succs[t]):
                indeg[s] -= 1
                if indeg[s] == 0:
                    ready.append(s)
        if len(topo) != len(self.order):
            raise Invalid("cyclic dependencies")
        # reachability for the race check
        pos = {t: i for i, t in enumerate(topo)}
        reach = {t: {t} for t in topo}
        for t in reversed(topo):
            for s in succs[t]:
                reach[t] |= reach[s]

        def ordered(a, b):
            return b in reach[a] or a in reach[b]
        # alias model (what a single-process run does) and value model (what JDFSem.tla defines)
        ts = prog["ts"]
        coll_a = [[100 * i + j + 1 for j in range(ts)] for i in range(nt)]
        coll_v = copy.deepcopy(coll_a)
        cells = {}                       # cell id -> list (shared, mutable)
        for i in range(nt):
            cells[("D", i)] = coll_a[i]
        cell_of = {}                     # (t, flow) -> cell id
        val_out = {}                     # (t, flow) -> value (value model)
        acc = {}                         # cell id -> list of (task, is_write)
        reads_log = {}
        for t in topo:
            c = prog["classes"][t[0]]
            rd_a, rd_v = [], []
            mycells = []
            for f in c["flows"]:
                if f["mode"] == CTL:
                    rd_a.append(None); rd_v.append(None)
                    continue
                src = ins[(t, f["name"])][0]
                if src[0] == "data":
                    cid = ("D", src[1]); vv = list(coll_v[src[1]])
                elif src[0] == "new":
                    cid = ("N", t, f["name"]); cells[cid] = [0] * ts; vv = [0] * ts
                else:
                    cid = cell_of[(src[1], src[2])]; vv = list(val_out[(src[1], src[2])])
                cell_of[(t, f["name"])] = cid
                mycells.append((cid, f["mode"]))
                if f["mode"] & READ:
                    acc.setdefault(cid, []).append((t, False))
                    rd_a.append(list(cells[cid])); rd_v.append(vv)
                else:
                    rd_a.append(None); rd_v.append(None)
                if f["mode"] & WRITE:
                    acc.setdefault(cid, []).append((t, True))
            ids = [cid for cid, m in mycells]
            if len(set(ids)) != len(ids) and any(m & WRITE for cid, m in mycells if ids.count(cid) > 1):
                raise Invalid("two flows of one task alias a written tile")
            if rd_a != rd_v:
                raise Invalid("in-place and value semantics disagree on a read")
            reads_log[t] = rd_v
            w = body(t[0], list(t[1]), rd_v, [f["mode"] for f in c["flows"]], ts)
            for fi, f in enumerate(c["flows"]):
                if f["mode"] == CTL:
                    continue
                cid = cell_of[(t, f["name"])]
                if f["mode"] & WRITE:
                    cells[cid][:] = w[fi]
                    val_out[(t, f["name"])] = list(w[fi])
                else:
                    val_out[(t, f["name"])] = list(rd_v[fi])
            for f in c["flows"]:
                if f["mode"] == CTL:
                    continue
                cid = cell_of[(t, f["name"])]
                for ep in outs[(t, f["name"])]:
                    if ep[0] == "data":
                        coll_v[ep[1]] = list(val_out[(t, f["name"])])
                        if cid != ("D", ep[1]):
                            acc.setdefault(("D", ep[1]), []).append((t, True))
                            acc.setdefault(cid, []).append((t, False))
                            cells[("D", ep[1])][:] = cells[cid]
        for cid, lst in acc.items():
            for i in range(len(lst)):
                for j in range(i + 1, len(lst)):
                    (a, wa), (b, wb) = lst[i], lst[j]
                    if a != b and (wa or wb) and not ordered(a, b):
                        raise Invalid("data race on %s between %s and %s" % (cid, a, b))
        if coll_a != coll_v:
            raise Invalid("in-place and value semantics disagree on the final collection")
        return {"topo": topo, "final": coll_v, "preds": preds, "reads": reads_log,
                "startup": [t for t in self.order if not preds[t]]}


def body(ci, params, reads, modes, ts):
    """The deterministic body function F (same formula in ptg_driver.c:vb_task and JDFSem.tla)."""
    S = 0
    for g, r in enumerate(reads):
        if r is not None and (modes[g] & READ):
            for j in range(ts):
                S += r[j] * (3 * g + j + 1)
    base = 1000 * ci + sum(p * PW[i] for i, p in enumerate(params))
    out = []
    for g, m in enumerate(modes):
        if m & WRITE:
            out.append([(S + base + 7 * g + i + 1) % FMOD for i in range(ts)])
        else:
            out.append(None)
    return out


def validate(prog, max_tasks=400):
    """Returns (Interp, result) or raises Invalid."""
    it = Interp(prog, max_tasks=max_tasks)
    return it, it.check()


def space_file(prog, path):
    """Every instance with the values of ALL its locals (declaration order), for the key driver."""
    it = Interp(prog)
    with open(path, "w") as f:
        for t in it.order:
            lv = it.locals_of(t)
            f.write("%s %d %s\n" % (prog["classes"][t[0]]["name"], len(lv), " ".join(str(v) for v in lv)))
    return it


# ------------------------------------------------------------------------------------------------ generator
def neg(e):
    e = E(e)
    if e["op"] == "cst":
        return C(-e["v"])
    return sub(0, e)


# one-parameter range forms: name -> (lo, hi, st, may_be_empty)
def SHAPES1():
    return {
        "asc": (C(0), sub("N", 1), C(1)),
        "asc_neg": (C(-2), sub("N", 3), C(1)),
        "desc": (sub("N", 1), C(0), C(-1)),
        "desc2": (V("N"), C(0), C(-2)),
        "step2": (C(0), V("N"), C(2)),
        "step3": (C(1), add("N", 1), C(3)),
        "stepexpr": (C(0), V("N"), V("M")),
        "descexpr": (V("N"), C(0), sub(0, "M")),
        "single": (V("N"), V("N"), C(1)),
        "empty": (C(1), C(0), C(1)),
    }


# ranges whose bounds depend on the outer parameter o
def SHAPES2(o):
    return {
        "rect": (C(0), sub("M", 1), C(1)),
        "rect_desc": (sub("M", 1), C(0), C(-1)),
        "tri_lo": (C(0), V(o), C(1)),
        "tri_hi": (V(o), sub("N", 1), C(1)),
        "tri_strict": (add(o, 1), sub("N", 1), C(1)),
        "tri_desc": (V(o), C(0), C(-1)),
        "tri_step": (C(0), V(o), C(2)),
        "tri_neg": (neg(V(o)), V(o), C(1)),
    }


DESC_KINDS = ("desc", "desc2", "descexpr", "rect_desc", "tri_desc")


def has_descending(prog):
    """True when some range of the program (class definition or dependency argument) has a negative step for the
    program's globals: the class of inputs of the 'descending-range' finding."""
    g = prog["globals"]

    def negstep(st):
        try:
            return ev(st, g) < 0
        except KeyError:
            return st["op"] == "cst" and st["v"] < 0 or st["op"] == "sub"
    for c in prog["classes"]:
        for l in c["locals"]:
            if l["kind"] == "range" and negstep(l["st"]):
                return True
        for f in c["flows"]:
            for d in f["deps"]:
                for t in (d["t"], d["f"]):
                    for a in t["args"]:
                        if a["kind"] == "range" and negstep(a["st"]):
                            return True
    return False


class Builder(object):
    """Incremental construction of a program: classes get their locals first, tiles are allocated from the bounding
    box of the instances (computed by interpretation), then the flows are attached."""

    def __init__(self, N=4, M=2, K=1, ts=1, name="vp"):
        self.g = {"N": N, "M": M, "K": K}
        self.ts = ts
        self.name = name
        self.classes = []
        self.ntiles = 1          # tile 0 is never written: free for READ-only flows
        self.tags = set()

    def instances(self, locs, params):
        tmp = {"name": "t", "globals": self.g, "ntiles": 1, "ts": 1,
               "classes": [cls("T", params, locs, 0, [])]}
        it = Interp(tmp, max_tasks=200)
        return [t[1] for t in it.order]

    def tiles(self, locs, params):
        """expression mapping the parameters of a class injectively to fresh tile indices (bounding box)."""
        inst = self.instances(locs, params)
        if not inst:
            return C(0)
        e = C(self.ntiles)
        mult = 1
        for i, p in enumerate(params):
            vals = [x[i] for x in inst]
            lo, hi = min(vals), max(vals)
            e = add(e, mul(sub(p, lo), mult) if mult != 1 else sub(p, lo))
            mult *= (hi - lo + 1)
        self.ntiles += mult
        return e

    def add(self, c):
        self.classes.append(c)
        return c

    def build(self):
        p = program(self.classes, N=self.g["N"], M=self.g["M"], K=self.g["K"], ntiles=self.ntiles, ts=self.ts,
                    name=self.name)
        return p


def _r(name, sh):
    return L_range(name, sh[0], sh[1], sh[2])


def _rev(sh):
    """the same set of values enumerated in the opposite direction (only used for unit steps)"""
    lo, hi, st = sh
    return (hi, lo, neg(st))


def t_indep(b, cn, kinds, flowkind="rw", derived=None, prio=None):
    """class without task predecessors: every instance is a startup task."""
    names = ["k", "j", "i", "h"][:len(kinds)]
    locs = []
    for i, kd in enumerate(kinds):
        sh = SHAPES1()[kd] if i == 0 else SHAPES2(names[i - 1])[kd]
        locs.append(_r(names[i], sh))
    params = list(names)
    if derived == "local":
        locs.append(L_def("d", add(mul(names[0], 2), 1)))
    elif derived == "param":                       # a parameter defined by an expression (not a range)
        locs.append(L_def("d", add(names[0], 1)))
        params.append("d")
    elif derived == "mid":                         # derived local used by the bounds of the next parameter
        locs = [locs[0], L_def("d", add(names[0], 1))] + [_r("j", (C(0), sub("d", 1), C(1)))]
        params = ["k", "j"]
        names = ["k", "j"]
    tile = b.tiles(locs, params)
    if flowkind == "rw":
        fl = [flow("A", RW, [din(T_data(tile)), dout(T_data(tile))])]
    elif flowkind == "read":
        fl = [flow("A", READ, [din(T_data(0))])]
    elif flowkind == "new":
        fl = [flow("A", WRITE, [din(T_new()), dout(T_data(tile))])]
    elif flowkind == "blocked":
        # every instance waits for itself: nothing ever runs (C23 only needs the taskpool's internal_init)
        fl = [flow("A", READ, [din(T_data(0))]),
              flow("X", CTL, [din(T_task(cn, "X", params)), dout(T_task(cn, "X", params))])]
    else:
        fl = [flow("A", READ, [din(T_data(0))]), flow("B", RW, [din(T_data(tile)), dout(T_data(tile))])]
    pr = None
    if prio == "up":
        pr = V(names[0])
    elif prio == "down":
        pr = sub("N", names[0])
    b.tags.add("indep:" + "/".join(kinds))
    return b.add(cls(cn, params, locs, tile, fl, prio=pr))


def t_chain(b, cn, kind, outer=None, ternary=True, orient=None, dst="same", src="data"):
    """C(k) or C(i, k): a chain of RW tasks following the iteration order of k.
    orient: "tm" ternary dependencies `first ? memory : task` / `hasnext ? task : memory`; "mt" the opposite
            orientation `!first ? task : memory` / `!hasnext ? memory : task`; "guard" two guarded dependencies each
            (default: "tm" when `ternary` else "guard");
    dst:    "same" the last task stores the tile where the first one read it; "other" the last task stores it in a
            DIFFERENT tile (and, through a guarded dependency, in the tile of origin: the tasks work in place on that
            one, so the value semantics needs it written too);
    src:    "data" the first task reads a collection tile; "new" a head class creates the datum (WRITE flow <- NEW),
            the chain carries it and the last task stores it in a collection tile."""
    if orient is None:
        orient = "tm" if ternary else "guard"
    lo, hi, st = SHAPES1()[kind]
    locs, params = [], []
    if outer:
        locs.append(_r("i", SHAPES1()[outer]))
        params.append("i")
    locs.append(_r("k", (lo, hi, st)))
    params.append("k")
    tl = b.tiles(locs[:1], ["i"]) if outer else C(b.ntiles)
    if not outer:
        b.ntiles += 1
    tl2 = None
    if dst == "other" and src == "data":
        tl2 = b.tiles(locs[:1], ["i"]) if outer else C(b.ntiles)
        if not outer:
            b.ntiles += 1
    stv = ev(st, b.g)
    nxt, prv = add("k", st), sub("k", st)
    hasnext = le(nxt, hi) if stv > 0 else ge(nxt, hi)
    nonempty = le(lo, hi) if stv > 0 else ge(lo, hi)
    first = eq("k", lo)
    pa = (["i"] if outer else [])
    hn = cn + "H"
    if src == "new":
        hlocs = [locs[0]] if outer else [L_range("i", 0, 0)]
        b.add(cls(hn, ["i"], hlocs, tl, [flow("A", WRITE, [din(T_new()), dout(T_task(cn, "A", pa + [lo]), nonempty)])]))
        origin = T_task(hn, "A", ["i"] if outer else [0])
    else:
        origin = T_data(tl)
    final = T_data(tl2 if tl2 is not None else tl)
    pred, succ = T_task(cn, "A", pa + [prv]), T_task(cn, "A", pa + [nxt])
    if orient == "tm":
        deps = [din(origin, first, pred), dout(succ, hasnext, final)]
    elif orient == "mt":
        deps = [din(pred, lnot(first), origin), dout(final, lnot(hasnext), succ)]
    else:
        deps = [din(origin, first), din(pred, lnot(first)), dout(succ, hasnext), dout(final, lnot(hasnext))]
    if tl2 is not None:
        deps.append(dout(T_data(tl), lnot(hasnext)))
    b.tags.add("chain:" + kind + (":new" if src == "new" else ":other" if tl2 is not None else "") +
               (":mt" if orient == "mt" else ""))
    return b.add(cls(cn, params, locs, tl, [flow("A", RW, deps)]))


def t_bcast(b, pn, qn, kind, inner, rev_q=False, gather=None, raw=False):
    """P(k) broadcasts its tile to Q(k, j), j in an inner range; optionally R(k) gathers the Q(k, *) through a
    control flow (gather = name of R); raw: R also overwrites P's tile (read-after-write ordered by the CTL)."""
    shp = SHAPES1()[kind]
    shq = SHAPES2("k")[inner]
    plocs = [_r("k", shp)]
    qk = _rev(shp) if rev_q else shp
    qlocs = [_r("k", qk), _r("j", shq)]
    tp = b.tiles(plocs, ["k"])
    tq = b.tiles(qlocs, ["k", "j"])
    jr = A_range(shq[0], shq[1], shq[2])
    stv = ev(shq[2], dict(b.g, k=0))
    nonempty = le(shq[0], shq[1]) if stv > 0 else ge(shq[0], shq[1])
    pdeps = [din(T_data(tp)), dout(T_task(qn, "A", ["k", jr]), nonempty)]
    qflows = [flow("A", READ, [din(T_task(pn, "A", ["k"]))]),
              flow("B", RW, [din(T_data(tq)), dout(T_data(tq))])]
    if gather:
        rlocs = [_r("k", shp)]
        tr = b.tiles(rlocs, ["k"])
        qflows.append(flow("X", CTL, [dout(T_task(gather, "X", ["k"]))]))
        rfl = [flow("X", CTL, [din(T_task(qn, "X", ["k", jr]), nonempty)])]
        if raw:
            pdeps.append(dout(T_task(gather, "A", ["k"])))
            rfl.append(flow("A", RW, [din(T_task(pn, "A", ["k"])), dout(T_data(tp))]))
        else:
            pdeps.append(dout(T_data(tp)))
            rfl.append(flow("A", RW, [din(T_data(tr)), dout(T_data(tr))]))
    else:
        pdeps.append(dout(T_data(tp)))
    b.add(cls(pn, ["k"], plocs, tp, [flow("A", RW, pdeps)]))
    b.add(cls(qn, ["k", "j"], qlocs, tq, qflows))
    if gather:
        b.add(cls(gather, ["k"], rlocs, tr if not raw else tp, rfl))
    b.tags.add("bcast:%s/%s%s" % (kind, inner, "+gather" if gather else ""))


def t_mask2(b, kind, rev=False):
    """R(k) needs two data flows produced by two different classes (mask mode fan-in)."""
    sh = SHAPES1()[kind]
    locs = [_r("k", sh)]
    t1, t2, t3 = b.tiles(locs, ["k"]), b.tiles(locs, ["k"]), b.tiles(locs, ["k"])
    b.add(cls("PA", ["k"], locs, t1, [flow("A", RW, [din(T_data(t1)), dout(T_task("RM", "A", ["k"])), dout(T_data(t1))])]))
    b.add(cls("PB", ["k"], locs, t2, [flow("A", WRITE, [din(T_new()), dout(T_task("RM", "B", ["k"])), dout(T_data(t2))])]))
    rl = [_r("k", _rev(sh) if rev else sh)]
    b.add(cls("RM", ["k"], rl, t3, [flow("A", READ, [din(T_task("PA", "A", ["k"]))]),
                                    flow("B", READ, [din(T_task("PB", "A", ["k"]))]),
                                    flow("C", RW, [din(T_data(t3)), dout(T_data(t3))])]))
    b.tags.add("mask2:" + kind)


def t_split(b, desc=False):
    """ternary routing: P(k) sends its tile to E(k/2) or O((k-1)/2)."""
    sh = SHAPES1()["desc" if desc else "asc"]
    locs = [_r("k", sh)]
    tp = b.tiles(locs, ["k"])
    even = eq(mod("k", 2), 0)
    b.add(cls("PS", ["k"], locs, tp, [flow("A", RW, [din(T_data(tp)),
                                                      dout(T_task("EV", "A", [div("k", 2)]), even,
                                                           T_task("OD", "A", [div(sub("k", 1), 2)]))])]))
    b.add(cls("EV", ["h"], [_r("h", (C(0), sub(div(add("N", 1), 2), 1), C(1)))], C(0),
              [flow("A", RW, [din(T_task("PS", "A", [mul("h", 2)])), dout(T_data(_subst_k(tp, mul("h", 2))))])]))
    b.add(cls("OD", ["h"], [_r("h", (C(0), sub(div("N", 2), 1), C(1)))], C(0),
              [flow("A", RW, [din(T_task("PS", "A", [add(mul("h", 2), 1)])),
                              dout(T_data(_subst_k(tp, add(mul("h", 2), 1))))])]))
    b.tags.add("split:" + ("desc" if desc else "asc"))


def t_route(b, kind="asc", orient="tm", src="new"):
    """ternary output between a task and the collection: the datum of XS(k) goes to the successor XE(k/2) when k is
    even and is stored in a collection tile (not the one it was read from) when k is odd.
    orient "tm": `-> even ? A XE(k/2) : D(tq)`; "mt": `-> odd ? D(tq) : A XE(k/2)`.
    src "new": XS creates the datum (WRITE flow <- NEW), XE modifies it and stores it in a third tile;
        "data": XS reads its own tile (RW, in place, written back), XE only reads the datum (READ flow)."""
    sh = SHAPES1()[kind]
    locs = [_r("k", sh)]
    inst = [x[0] for x in b.instances(locs, ["k"])]
    tp = b.tiles(locs, ["k"])
    tq = b.tiles(locs, ["k"])
    even = eq(mod("k", 2), 0)
    ev_k = sorted(x for x in inst if x % 2 == 0)
    if ev_k:
        hl = (C(cdiv(ev_k[0], 2)), C(cdiv(ev_k[-1], 2)), C(1))
    else:
        hl = (C(1), C(0), C(1))
    hlocs = [_r("h", hl)]
    te = b.tiles(hlocs, ["h"])
    succ = T_task("XE", "A", [div("k", 2)])
    if orient == "tm":
        od = dout(succ, even, T_data(tq))
    else:
        od = dout(T_data(tq), lnot(even), succ)
    k2 = mul("h", 2)
    if src == "new":
        b.add(cls("XS", ["k"], locs, tp, [flow("A", WRITE, [din(T_new()), od])]))
        b.add(cls("XE", ["h"], hlocs, te, [flow("A", RW, [din(T_task("XS", "A", [k2])), dout(T_data(te))])]))
    else:
        b.add(cls("XS", ["k"], locs, tp, [flow("A", RW, [din(T_data(tp)), od, dout(T_data(tp))])]))
        b.add(cls("XE", ["h"], hlocs, te, [flow("A", READ, [din(T_task("XS", "A", [k2]))]),
                                           flow("B", RW, [din(T_data(te)), dout(T_data(te))])]))
    b.tags.add("route:%s:%s%s" % (kind, src, ":mt" if orient == "mt" else ""))


def _subst_k(e, by, name="k"):
    """e[name := by]"""
    if e["op"] == "var":
        return by if e["n"] == name else e
    if e["op"] == "cst":
        return e
    return {"op": e["op"], "a": [_subst_k(x, by, name) for x in e["a"]], "v": 0, "n": ""}


def t_pipe(b, kind, rev=False):
    """P(k) -> Q(k) (READ flow forwarded) -> S(k) writes back; W(k) -> U(k) starts from NEW."""
    sh = SHAPES1()[kind]
    locs = [_r("k", sh)]
    rl = [_r("k", _rev(sh) if rev else sh)]
    t1, t2 = b.tiles(locs, ["k"]), b.tiles(locs, ["k"])
    b.add(cls("PP", ["k"], locs, t1, [flow("A", RW, [din(T_data(t1)), dout(T_task("QP", "A", ["k"]))])]))
    b.add(cls("QP", ["k"], rl, t2, [flow("A", READ, [din(T_task("PP", "A", ["k"])), dout(T_task("SP", "A", ["k"]))]),
                                    flow("B", RW, [din(T_data(t2)), dout(T_data(t2))])]))
    b.add(cls("SP", ["k"], locs, t1, [flow("A", RW, [din(T_task("QP", "A", ["k"])), dout(T_data(t1))])]))
    b.tags.add("pipe:" + kind)


def t_new(b, kind):
    sh = SHAPES1()[kind]
    locs = [_r("k", sh)]
    t1 = b.tiles(locs, ["k"])
    b.add(cls("WN", ["k"], locs, t1, [flow("A", WRITE, [din(T_new()), dout(T_task("UN", "A", ["k"]))])]))
    b.add(cls("UN", ["k"], locs, t1, [flow("A", RW, [din(T_task("WN", "A", ["k"])), dout(T_data(t1))])]))
    b.tags.add("new:" + kind)


def shape_programs(quick=True):
    """The deterministic catalogue: every range form x {startup class, dependency target, chain, gather}."""
    out = []

    def mk(fn, N=4, M=2, K=1, ts=1):
        b = Builder(N=N, M=M, K=K, ts=ts)
        fn(b)
        out.append((b.build(), sorted(b.tags)))
    k1 = list(SHAPES1().keys())
    k2 = list(SHAPES2("k").keys())
    # startup-capable classes, one parameter
    for i, kd in enumerate(k1):
        mk(lambda b, kd=kd, i=i: t_indep(b, "T", [kd], flowkind=("rw", "new", "rwread")[i % 3],
                                        prio=(None, "up", "down")[i % 3]), N=4 + (i % 2), M=2 + (i % 2), ts=1 + i % 2)
    # two / three parameters (triangular, derived)
    for i, kd in enumerate(k2):
        outer = ("asc", "desc", "asc_neg", "step2")[i % 4]
        mk(lambda b, kd=kd, outer=outer: t_indep(b, "T", [outer, kd]), N=4, M=2 + i % 2, ts=1 + i % 2)
    mk(lambda b: t_indep(b, "T", ["asc", "tri_lo", "tri_hi"]), N=3)
    mk(lambda b: t_indep(b, "T", ["desc", "tri_desc", "rect"]), N=3)
    mk(lambda b: t_indep(b, "T", ["asc"], derived="local"))
    mk(lambda b: t_indep(b, "T", ["asc"], derived="mid"))
    mk(lambda b: t_indep(b, "T", ["desc"], derived="mid"))
    # chains
    for i, kd in enumerate(("asc", "asc_neg", "desc", "desc2", "step2", "step3", "stepexpr", "descexpr", "single", "empty")):
        mk(lambda b, kd=kd, i=i: t_chain(b, "CH", kd, outer=(None, "asc", "desc")[i % 3], ternary=(i % 2 == 0)),
           N=5 if kd in ("step3", "desc2") else 4, M=2)
    # broadcast / gather
    combos = [("asc", "rect"), ("asc", "tri_lo"), ("asc", "tri_strict"), ("desc", "tri_lo"), ("asc", "tri_desc"),
              ("asc", "rect_desc"), ("step2", "tri_step"), ("asc_neg", "tri_neg"), ("stepexpr", "tri_hi"),
              ("desc", "tri_desc")]
    for i, (kd, inn) in enumerate(combos):
        mk(lambda b, kd=kd, inn=inn, i=i: t_bcast(b, "P", "Q", kd, inn, rev_q=(i % 3 == 1 and kd in ("asc", "desc")),
                                                 gather=("R" if i % 2 == 0 else None), raw=(i % 4 == 0)),
           N=4, M=2 + i % 2, ts=1 + i % 2)
    for kd, inn in (("asc", "tri_lo"), ("asc", "rect_desc"), ("desc", "rect")):
        mk(lambda b, kd=kd, inn=inn: t_bcast(b, "P", "Q", kd, inn, gather="R", raw=False), N=3, M=3)
    # fan-in through several flows, routing, pipelines, NEW
    for i, kd in enumerate(("asc", "desc", "step2", "descexpr")):
        mk(lambda b, kd=kd, i=i: t_mask2(b, kd, rev=(i == 0)), N=4, ts=1 + i % 2)
    mk(lambda b: t_split(b, False), N=5)
    mk(lambda b: t_split(b, True), N=4)
    for i, kd in enumerate(("asc", "desc", "step3", "asc_neg")):
        mk(lambda b, kd=kd, i=i: t_pipe(b, kd, rev=(i == 0)), N=5 if kd == "step3" else 4, ts=2)
    for kd in ("asc", "desc2"):
        mk(lambda b, kd=kd: t_new(b, kd), N=4)
    # final write-back observable: the datum enters from one tile (or NEW) and is stored in ANOTHER tile, through
    # ternary outputs in both orientations (task ? memory, memory ? task) and through guarded outputs
    for i, (kd, outer, orient, dst, src) in enumerate((
            ("asc", None, "tm", "other", "data"), ("desc", "asc", "mt", "other", "data"),
            ("step2", "desc", "tm", "same", "new"), ("asc_neg", None, "mt", "same", "new"),
            ("single", "asc", "tm", "other", "data"), ("descexpr", None, "guard", "other", "data"))):
        mk(lambda b, kd=kd, outer=outer, orient=orient, dst=dst, src=src:
           t_chain(b, "CH", kd, outer=outer, orient=orient, dst=dst, src=src), N=3 + i % 2, M=2, ts=1 + i % 2)
    for i, (kd, orient, src) in enumerate((("asc", "tm", "new"), ("desc", "mt", "data"), ("asc_neg", "tm", "data"),
                                           ("step3", "mt", "new"))):
        mk(lambda b, kd=kd, orient=orient, src=src: t_route(b, kd, orient, src), N=5 if kd == "step3" else 4,
           ts=1 + i % 2)
    res = []
    for i, (p, tags) in enumerate(out):
        p["name"] = "vs%03d" % i
        res.append({"prog": p, "tags": tags, "desc": has_descending(p)})
    return res


def random_program(rng, name):
    """One seeded random program: 1-3 independent template instances with random shapes and sizes."""
    b = Builder(N=rng.choice([1, 2, 3, 4, 5]), M=rng.choice([1, 2, 3]), K=1, ts=rng.choice([1, 2, 3]), name=name)
    k1 = list(SHAPES1().keys())
    k2 = list(SHAPES2("k").keys())
    n = rng.choice([1, 1, 2])
    used = set()
    for _ in range(n):
        t = rng.choice(["indep", "indep2", "chain", "bcast", "gather", "mask2", "split", "pipe", "new", "chain", "route"])
        if t in used:
            continue
        used.add(t)
        if t == "indep":
            t_indep(b, "T", [rng.choice(k1)], flowkind=rng.choice(["rw", "new", "rwread", "read"]),
                    derived=rng.choice([None, None, "local", "mid"]), prio=rng.choice([None, "up", "down"]))
        elif t == "indep2":
            kinds = [rng.choice(k1), rng.choice(k2)]
            if rng.random() < 0.4:
                kinds.append(rng.choice(["rect", "tri_lo", "rect_desc"]).replace("tri_lo", "rect"))
            t_indep(b, "T2", kinds, flowkind=rng.choice(["rw", "rwread"]), prio=rng.choice([None, "up", "down"]))
        elif t == "chain":
            t_chain(b, "CH", rng.choice(k1), outer=rng.choice([None, "asc", "desc", "step2"]),
                    orient=rng.choice(["tm", "mt", "guard"]), dst=rng.choice(["same", "other"]),
                    src=rng.choice(["data", "data", "new"]))
        elif t == "route":
            t_route(b, rng.choice(k1), orient=rng.choice(["tm", "mt"]), src=rng.choice(["new", "data"]))
        elif t == "bcast":
            kd = rng.choice(k1)
            t_bcast(b, "P", "Q", kd, rng.choice(k2), rev_q=(kd in ("asc", "desc") and rng.random() < 0.3))
        elif t == "gather":
            kd = rng.choice(k1)
            t_bcast(b, "P", "Q", kd, rng.choice(k2), gather="R", raw=rng.random() < 0.5)
        elif t == "mask2":
            kd = rng.choice(k1)
            t_mask2(b, kd, rev=(kd in ("asc", "desc") and rng.random() < 0.3))
        elif t == "split":
            t_split(b, rng.random() < 0.4)
        elif t == "pipe":
            kd = rng.choice(k1)
            t_pipe(b, kd, rev=(kd in ("asc", "desc") and rng.random() < 0.3))
        else:
            t_new(b, rng.choice(k1))
    # class names must be unique: templates used at most once each (guaranteed by `used`, bcast/gather share names)
    names = [c["name"] for c in b.classes]
    if len(set(names)) != len(names):
        raise Invalid("duplicate class names")
    p = b.build()
    return {"prog": p, "tags": sorted(b.tags), "desc": has_descending(p)}


def final_event_bound(prog):
    """upper bound of the length of the recorder's Final event body (the whole collection on one line, values
    < FMOD: 5 digits): harness/ptg/ptg_driver.c formats it into a buffer of VT_LINE - 96 = 928 characters"""
    return 2 + 3 * prog["ntiles"] + 6 * prog["ntiles"] * prog["ts"]


FINAL_EVENT_MAX = 900


def random_programs(seed, count, max_tasks=80, max_tiles=110):
    rng = random.Random(seed)
    out = []
    tries = 0
    while len(out) < count and tries < count * 30:
        tries += 1
        try:
            r = random_program(rng, "vr%03d" % len(out))
            if r["prog"]["ntiles"] > max_tiles or final_event_bound(r["prog"]) > FINAL_EVENT_MAX:
                continue
            it, res = validate(r["prog"], max_tasks=max_tasks)
            r["ntasks"] = len(it.order)
            out.append(r)
        except Invalid:
            continue
    return out


# ------------------------------------------------------------------------------------------------ key shapes (C23)
def key_shapes(rng, count):
    """Parameter-space shapes with 1..4 parameters: (kinds, derived, swap).  Deterministic core (every pair of a
    one-parameter form with an inner form, the expression-defined parameter, the declaration order different from
    the definition order) followed by seeded random deeper nests."""
    k1 = list(SHAPES1().keys())
    k2 = list(SHAPES2("k").keys())
    out = []
    for a in k1:
        out.append(([a], None, False))
    for a in k1:
        for b in k2:
            out.append(([a, b], None, False))
    out.append((["asc"], "param", False))                 # T(k, d), d = k + 1
    out.append((["asc_neg", "tri_lo"], "param", False))
    out.append((["asc"], "mid", False))
    out.append((["desc"], "mid", False))
    out.append((["asc"], "local", False))
    out.append((["asc", "tri_lo"], None, True))          # T(j, k) with k defined first
    out.append((["desc", "tri_desc", "rect"], None, True))
    out.append((["step2", "tri_neg"], None, True))
    inner3 = ["rect", "rect_desc", "tri_lo", "tri_desc", "tri_step"]
    while len(out) < count:
        n = rng.choice([3, 3, 4])
        kinds = [rng.choice(k1), rng.choice(k2)] + [rng.choice(inner3) for _ in range(n - 2)]
        out.append((kinds, rng.choice([None, None, None, "local"]), rng.random() < 0.25))
    return out[:count]


def key_programs(seed, count, per_prog=6):
    """Programs for C23: `count` task classes (one shape each), `per_prog` classes per program.  Every instance
    depends on itself, so that no task ever runs: the keys are observed after internal_init, whatever the runtime
    would do with the tasks (cf. the descending-range defect of C01)."""
    rng = random.Random(seed)
    shapes = key_shapes(rng, count)
    progs = []
    cur = None
    for si, (kinds, derived, swap) in enumerate(shapes):
        if cur is None or len(cur.classes) >= per_prog:
            if cur is not None:
                progs.append(cur)
            cur = Builder(N=rng.choice([3, 4]), M=rng.choice([2, 3]), K=1, ts=1, name="vk%03d" % len(progs))
        try:
            c = t_indep(cur, "T%d" % len(cur.classes), kinds, flowkind="blocked", derived=derived)
        except Invalid:
            continue
        if swap and len(c["params"]) > 1:
            c["params"] = list(reversed(c["params"]))
            for d in c["flows"][1]["deps"]:
                d["t"]["args"] = [A_e(x) for x in c["params"]]
        c["shape"] = "/".join(kinds) + ("+" + derived if derived else "") + ("+swap" if swap else "")
    if cur is not None and cur.classes:
        progs.append(cur)
    res = []
    for b in progs:
        shapes_of = [c.pop("shape") for c in b.classes]
        p = b.build()
        try:
            it = Interp(p, max_tasks=1500)       # only the space matters here (the programs never run a task)
        except Invalid:
            continue
        special = any(("+param" in s or "+swap" in s) for s in shapes_of)
        res.append({"prog": p, "tags": shapes_of, "desc": has_descending(p), "ntasks": len(it.order), "special": special})
    return res
